(* C12 -- the documented comparison rules of the nine search operators, stated
   over KINDS of typed values, independent of the order of tests in the code.

   th = the typed reading of the value, tn = the typed reading of the term,
   needle = the term's text.  A typed value is a boolean, an integer, a real
   or text (None, dates, tuples ... count as text: only their str() is used).
   Python's bool is a kind of int: True is 1 for numeric equality with an
   integer term and in every ordering (the property text does not say
   otherwise). *)
From Coq Require Import List Ascii String ZArith QArith Bool.
From YP Require Import Outcome PyStr PyVal PathParser.
Import ListNotations.
Open Scope string_scope.

Inductive vkind := KBool | KInt | KFloat | KText.

Definition kind_of (v : pyval) : vkind :=
  match v with
  | PBool _ => KBool
  | PInt _ => KInt
  | PFloat _ _ => KFloat
  | PNone | PStr _ | POther _ => KText
  end.

(* numeric equality of two numbers *)
Definition num_eq (a b : pyval) : bool :=
  match num_of a, num_of b with
  | Some x, Some y => Qeq_bool x y
  | _, _ => false
  end.

(* "equality is numeric when both sides are numbers of the same kind and
   textual otherwise" *)
Definition same_number_kind (kh kn : vkind) : bool :=
  match kh, kn with
  | KBool, KBool => true
  | KBool, KInt => true          (* a bool value is an int value *)
  | KInt, KInt => true
  | KFloat, KFloat => true
  | _, _ => false
  end.

Definition spec_equals (th tn : pyval) (needle : string) : bool :=
  if same_number_kind (kind_of th) (kind_of tn) then num_eq th tn
  else String.eqb (py_str th) needle.

(* "prefix/suffix/substring tests act on the value's text" *)
Definition spec_prefix (th : pyval) (needle : string) : bool := starts_with needle (py_str th).
Definition spec_suffix (th : pyval) (needle : string) : bool := ends_with needle (py_str th).
Definition spec_substring (th : pyval) (needle : string) : bool := str_contains needle (py_str th).

(* "ordering is numeric for numeric values (and false against a non-numeric
   term) and lexicographic for text" *)
Inductive ordop := OGt | OLt | OGe | OLe.

Definition num_rel (o : ordop) (a b : Q) : bool :=
  match o with
  | OGt => Qlt_bool b a
  | OLt => Qlt_bool a b
  | OGe => Qle_bool b a
  | OLe => Qle_bool a b
  end.
Definition text_rel (o : ordop) (a b : string) : bool :=
  match o with
  | OGt => str_ltb b a
  | OLt => str_ltb a b
  | OGe => str_leb b a
  | OLe => str_leb a b
  end.

Definition spec_order (o : ordop) (th tn : pyval) (needle : string) : bool :=
  match num_of th with
  | Some a =>
      match num_of tn with
      | Some b => num_rel o a b
      | None => false
      end
  | None => text_rel o (py_str th) needle
  end.

Definition method_of_ordop (o : ordop) : smethod :=
  match o with OGt => MGt | OLt => MLt | OGe => MGe | OLe => MLe end.

(* the whole table *)
Inductive spec_result := SBool (b : bool) | SRegex.   (* SRegex: ask the re oracle on the value's text *)

Definition spec_answer (m : smethod) (th tn : pyval) (needle : string) : spec_result :=
  match m with
  | MEquals => SBool (spec_equals th tn needle)
  | MStartsWith => SBool (spec_prefix th needle)
  | MEndsWith => SBool (spec_suffix th needle)
  | MContains => SBool (spec_substring th needle)
  | MGt => SBool (spec_order OGt th tn needle)
  | MLt => SBool (spec_order OLt th tn needle)
  | MGe => SBool (spec_order OGe th tn needle)
  | MLe => SBool (spec_order OLe th tn needle)
  | MRegex => SRegex
  end.

(* "booleans match their case-insensitive spellings" *)
Definition bool_spelling (needle : string) : option bool :=
  if String.eqb (lower_str needle) "true" then Some true
  else if String.eqb (lower_str needle) "false" then Some false
  else None.

(* "an inverted search over a set of candidates yields exactly the candidates
   the plain search does not": n candidates numbered 0..n-1 *)
Definition complement (n : nat) (plain inverted : list nat) : Prop :=
  forall i, i < n -> (In i inverted <-> ~ In i plain).
