(* C15 with keyword segments and with collectors over scalar operands: the
   fragments of prepared paths and the computable guard the theorems of
   Properties/C15.v are stated with. *)
From Coq Require Import List String Bool ZArith NArith.
From YP Require Import Outcome PyStr PyVal Doc PathParser Searches Eval SpecC15 Keywords EvalKw.
Import ListNotations.

(* SearchKeywordTerms.parameters splits the raw parameter text; unbalanced
   quotes are a ValueError there, and the parser does let such a text through
   ("[max(\')]": the escaped parse stores a lone quote).  Since the repair of
   finding F31 KeywordSearches.search_matches turns that ValueError into a
   YAMLPathException, so the fragment no longer asks anything of the parameter
   text: [kw_params_ok] only serves the Examples of Properties/C15.v. *)
Definition kw_params_ok (raw : string) : bool :=
  match keyword_parameters raw with Ok _ => true | _ => false end.

Definition seg_ok_kw (es us : seg) : bool := seg_ok es us.

Fixpoint frag_segs_kw (in_frag : ppath -> bool) (l : list pseg) : bool :=
  match l with
  | [] => true
  | PSeg es us s s2 :: r => seg_ok_kw es us && in_frag s && in_frag s2 && frag_segs_kw in_frag r
  end.

(* the collector-free fragment INCLUDING keyword segments *)
Fixpoint in_fragment_kw (p : ppath) : bool :=
  match p with
  | PFail (YPE _) => true
  | PFail _ => false
  | PPath segs =>
      (fix go (l : list pseg) : bool :=
         match l with
         | [] => true
         | PSeg es us s s2 :: r => seg_ok_kw es us && in_fragment_kw s && in_fragment_kw s2 && go r
         end) segs
  end.

(* ---- collectors whose operands select scalars ---- *)
Definition cop_is_none (op : cop) : bool := match op with CNone => true | _ => false end.

(* a collector segment as the parser pairs it: COLLECTOR-typed in both parses,
   with collector terms and the same operator *)
Definition is_coll_seg (head : bool) (es us : seg) : bool :=
  match es, us with
  | (Some TCollector, ACollector op _), (Some TCollector, ACollector op' _) =>
      Bool.eqb (cop_is_none op) head && Bool.eqb (cop_is_none op') head
  | _, _ => false
  end.

(* "the operand selects scalars": every result is a NodeCoords that unwraps to a leaf *)
Definition leaf_item (x : rval) : bool :=
  match x with
  | RCoords _ _ _ _ _ => match unw x with RNode (NLeaf _ _) => true | _ => false end
  | _ => false
  end.
Definition leafy (g : gen rval) : bool := forallb leaf_item (fst g).

Section Guard.
Variable lit : string -> outcome litres.
Variable re_search : string -> string -> outcome reres.
Variable nstr : node -> string.
Variable vstr : list rval -> string.

Definition ek_ev := ev lit re_search nstr vstr (ek_kw_handler lit re_search nstr vstr) ek_creator.

(* one operand: its own path is admissible ([rec]) and its evaluation ([run])
   yields scalars only *)
Definition kc_opnd (rec : list pseg -> bool) (run : list pseg -> gen rval) (sub : ppath) : bool :=
  match sub with
  | PFail (YPE _) => true
  | PFail _ => false
  | PPath s => rec s && leafy (run s)
  end.

(* the operator segments after the first operand, then collector-free segments *)
Fixpoint kc_chain (opnd : ppath -> bool) (l : list pseg) : bool :=
  match l with
  | PSeg es us _ sub2 :: r =>
      if is_coll_seg false es us then opnd sub2 && kc_chain opnd r
      else frag_segs_kw in_fragment_kw l
  | [] => true
  end.

(* The guard of the collector theorems, for a query on document [d] evaluated
   with path fuel [pf] (the drivers hand [pf - 1] to every sub-path):
   a path is either collector-free (in_fragment_kw), or it STARTS with a
   collector expression  (operand) {+|-|& (operand)}*  followed by
   collector-free segments, where every operand is again such a path and --
   evaluated on the document, exactly as _get_nodes_by_collector evaluates
   it -- yields only NodeCoords that unwrap to scalars. *)
Fixpoint kc_guard (pf : nat) (segs : list pseg) (d : node) {struct pf} : bool :=
  match pf with
  | O => false
  | S pf' =>
      let opnd := kc_opnd (fun s => kc_guard pf' s d) (fun s => ek_ev pf' MReq s 0 (RNode d) root_ctx) in
      match segs with
      | PSeg es us sub _ :: rest =>
          if is_coll_seg true es us then opnd sub && kc_chain opnd rest
          else frag_segs_kw in_fragment_kw segs
      | [] => true
      end
  end.

Definition kc_fragment (p : ppath) (d : node) : bool :=
  match p with
  | PFail (YPE _) => true
  | PFail _ => false
  | PPath segs => kc_guard (fuel_for p) segs d
  end.

End Guard.
