(* C09 (creation half) - declarative vocabulary: [extends c c'] says that the
   container c' is c with children APPENDED and nothing else changed (every
   child that existed is still there, at its position, untouched). *)
From Coq Require Import List ZArith NArith Bool.
From YP Require Import Outcome PyStr PyVal Doc.
Import ListNotations.

Inductive extends : node -> node -> Prop :=
  | ext_same : forall n, extends n n
  | ext_map : forall i kvs new, extends (NMap i kvs) (NMap i (kvs ++ new))
  | ext_seq : forall i els new, extends (NSeq i els) (NSeq i (els ++ new))
  | ext_set : forall i els new, extends (NSet i els) (NSet i (els ++ new)).

Definition children_count (n : node) : nat :=
  match n with
  | NLeaf _ _ => 0
  | NMap _ kvs => length kvs
  | NSeq _ els => length els
  | NSet _ els => length els
  end.
