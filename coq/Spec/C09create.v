(* C09 (creation half) - declarative vocabulary: [extends c c'] says that the
   container c' is c with children APPENDED and nothing else changed (every
   child that existed is still there, at its position, untouched). *)
From Coq Require Import List ZArith NArith Bool.
From YP Require Import Outcome PyStr PyVal Doc.
Import ListNotations.

Inductive extends : node -> node -> Prop :=
  | ext_same : forall n, extends n n
  | ext_map : forall i kvs new, extends (NMap i kvs) (NMap i (kvs ++ new))
  | ext_seq : forall i els new, extends (NSeq i els) (NSeq i (els ++ new))
  | ext_set : forall i els new, extends (NSet i els) (NSet i (els ++ new)).

Definition children_count (n : node) : nat :=
  match n with
  | NLeaf _ _ => 0
  | NMap _ kvs => length kvs
  | NSeq _ els => length els
  | NSet _ els => length els
  end.

(* ======== document-level vocabulary (C09_create_frame / _resolves / _pads_document) ======== *)
From YP Require Import Searches Mutate Create.

(* [embeds d d']: the old document is embedded in the new one - every node of d
   is still there, at its place, with its identity, anchor, tag and scalar
   value; containers may only have gained children AFTER the ones they had.
   [embeds_g (Some lo)] is the same relation with one more clause: a NULL may
   have been replaced by a NEW container (an object whose identity is >= lo,
   i.e. one the old document did not hold).  That is what the creation of a
   tail beneath a null does since fix 09e1e7a (a null is "no value yet");
   [embeds_g None] = [embeds] has no such clause. *)
Inductive embeds_g : option N -> node -> node -> Prop :=
  | emb_leaf : forall fr i v, embeds_g fr (NLeaf i v) (NLeaf i v)
  | emb_map : forall fr i kvs kvs' new,
      Forall2 (fun kv kv' => fst kv' = fst kv /\ embeds_g fr (snd kv) (snd kv')) kvs kvs' ->
      embeds_g fr (NMap i kvs) (NMap i (kvs' ++ new))
  | emb_seq : forall fr i els els' new,
      Forall2 (embeds_g fr) els els' -> embeds_g fr (NSeq i els) (NSeq i (els' ++ new))
  | emb_set : forall fr i els new, embeds_g fr (NSet i els) (NSet i (els ++ new))
  | emb_null : forall lo i c,
      is_leaf c = false -> (lo <= node_oid c)%N -> embeds_g (Some lo) (NLeaf i PNone) c.
Notation embeds := (embeds_g None).

(* How one segment of a straight path is read at a node (the Doc.ref it
   denotes): a key of a mapping, an index of a sequence (a key spelled like an
   integer is an index; a negative index counts from the end), a member of a
   set. *)
Definition seg_int (s : seg) : option Z :=
  match s with SIdx z => Some z | SKey k _ => py_int k end.

Definition seg_ref (n : node) (s : seg) : option ref :=
  match n, s with
  | NMap _ _, SKey k _ => Some (RKey (PStr k))
  | NSeq _ els, _ =>
      match seg_int s with
      | Some z =>
          if (0 <=? z)%Z then Some (RIdx (Z.to_nat z))
          else if (0 <=? z + Z.of_nat (length els))%Z then Some (RIdx (Z.to_nat (z + Z.of_nat (length els))))
          else None
      | None => None
      end
  | NSet _ _, SKey k _ => Some (RMember (PStr k))
  | _, _ => None
  end.

Definition seg_child (n : node) (s : seg) : option node :=
  match seg_ref n s with Some r => child n r | None => None end.

(* walking the path's keys / indexes with Doc.child (= Doc.lookup along the refs the segments denote) *)
Fixpoint resolve (n : node) (segs : list seg) : option node :=
  match segs with
  | [] => Some n
  | s :: rest => match seg_child n s with Some c => resolve c rest | None => None end
  end.

(* GUARD of the creation theorems: something is to be created (the path does
   not exist completely) and the missing tail does not start below a set (known
   finding F25: the value of a set member is the member itself).  A null with
   segments still to go is a place where the tail is missing (fix 09e1e7a; the
   guard used to exclude it: finding F10b). *)
Definition is_null (n : node) : bool := match n with NLeaf _ PNone => true | _ => false end.

Fixpoint creates (n : node) (segs : list seg) : bool :=
  match segs with
  | [] => false
  | s :: rest =>
      match seg_child n s with
      | Some c => if is_null c then (match rest with [] => false | _ :: _ => true end) else creates c rest
      | None => negb (is_set n)
      end
  end.

(* the existing prefix of the path ends at a null and segments are still to go:
   the one situation in which a pre-existing node - that null - is replaced *)
Fixpoint null_prefix (n : node) (segs : list seg) : bool :=
  match segs with
  | [] => false
  | s :: rest =>
      match seg_child n s with
      | Some c => if is_null c then (match rest with [] => false | _ :: _ => true end) else null_prefix c rest
      | None => false
      end
  end.

(* Padding only up to the requested index, along the whole path: walking the
   path in the NEW document, every sequence in which the requested element did
   not exist before (a sequence that was grown, or a new one) has exactly
   index + 1 elements now. *)
Fixpoint padded_ok (old : option node) (new : node) (segs : list seg) : bool :=
  match segs with
  | [] => true
  | s :: rest =>
      match seg_child new s with
      | None => false
      | Some c' =>
          let oc := match old with Some n => seg_child n s | None => None end in
          (match new, seg_int s, oc with
           | NSeq _ els', Some z, None => (Z.of_nat (length els') =? z + 1)%Z
           | _, _, _ => true
           end) && padded_ok oc c' rest
      end
  end.
