(* C19 -- document-level notions: the identity-consistency / freshness invariant
   of a loaded document, and "the result is the input with exactly the secret
   leaves substituted". *)
From Coq Require Import List Ascii String NArith Bool.
From YP Require Import Outcome PyStr PyVal Doc Eyaml C19Spec.
Import ListNotations.
Open Scope string_scope.
Open Scope list_scope.
Import Ey.

(* the nodes at value positions: the root, hash values, list elements, recursively
   (keys and set members are not value positions: the tool does not look there) *)
Fixpoint vnodes (n : node) : list node :=
  n :: match n with
       | NMap _ kvs => flat_map (fun kv : node * node => vnodes (snd kv)) kvs
       | NSeq _ els => flat_map vnodes els
       | _ => []
       end.

(* the Anchor as the Processor's [&name] segment sees it *)
Definition araw (n : node) : option string :=
  if has_anchor_attr (node_info n) then anchor (node_info n) else None.

(* [Inv d next]: what docenc.py delivers for a document ruamel has loaded.
   - two value positions with the same identity hold ONE object: the same tree
     (hence the same anchor);
   - every identity in use is below [next] (so [next] is fresh: it occurs nowhere);
   - an anchor name belongs to one object (ruamel refuses a document that
     defines an anchor name twice: ReusedAnchorWarning -> not loaded), and is
     not the empty string. *)
Record Inv (d : node) (next : N) : Prop := mkInv {
  inv_id : forall a b, In a (vnodes d) -> In b (vnodes d) -> node_oid a = node_oid b -> a = b;
  inv_fresh : forall a, In a (vnodes d) -> (node_oid a < next)%N;
  inv_anchor : forall a b x, In a (vnodes d) -> In b (vnodes d) ->
                             araw a = Some x -> araw b = Some x -> node_oid a = node_oid b;
  inv_named : forall a, In a (vnodes d) -> araw a <> Some EmptyString
}.

(* the keys of every hash are leaves, pairwise different under Python == and
   equal to themselves (ruamel refuses duplicate keys; a NaN key is outside the
   domain): looking a key up finds its own entry *)
Fixpoint keys_ok_list (kvs : list (node * node)) : Prop :=
  match kvs with
  | [] => True
  | (k, v) :: r =>
      (exists i kv, k = NLeaf i kv /\ py_eq kv kv = true /\
                    Forall (fun e : node * node => py_eq (key_val (fst e)) kv = false /\
                                                   py_eq kv (key_val (fst e)) = false) r)
      /\ keys_ok_list r
  end.

Definition keys_ok (d : node) : Prop :=
  forall i kvs, In (NMap i kvs) (vnodes d) -> keys_ok_list kvs.


(* every value position below the root, as a location: hash values by their key,
   list elements by their index *)
Fixpoint positions (n : node) : list loc :=
  match n with
  | NMap _ kvs =>
      flat_map (fun kv : node * node =>
                  [RKey (key_val (fst kv))] :: map (cons (RKey (key_val (fst kv)))) (positions (snd kv))) kvs
  | NSeq _ els =>
      (fix go (l : list node) (idx : nat) : list loc :=
         match l with
         | [] => []
         | e :: r => ([RIdx idx] :: map (cons (RIdx idx)) (positions e)) ++ go r (S idx)
         end) els 0
  | _ => []
  end.

(* [rotated L d d']: d' is d with exactly the encrypted leaves substituted, each
   by a node L-related to it; every other leaf, every key, the order of entries,
   every container's identity, anchor and tag are the same *)
Section Rotated.
  Variable L : node -> node -> Prop.

  Fixpoint rotated (n n' : node) {struct n} : Prop :=
    match n with
    | NLeaf i v => if is_eyaml_value v then L n n' else n' = n
    | NMap i kvs =>
        exists kvs', n' = NMap i kvs' /\
          (fix go (l l' : list (node * node)) {struct l} : Prop :=
             match l, l' with
             | [], [] => True
             | kv :: r, kv' :: r' => fst kv' = fst kv /\ rotated (snd kv) (snd kv') /\ go r r'
             | _, _ => False
             end) kvs kvs'
    | NSeq i els =>
        exists els', n' = NSeq i els' /\
          (fix go (l l' : list node) {struct l} : Prop :=
             match l, l' with
             | [], [] => True
             | e :: r, e' :: r' => rotated e e' /\ go r r'
             | _, _ => False
             end) els els'
    | NSet _ _ => n' = n
    end.
End Rotated.

(* the replacement of an encrypted leaf as far as the frame is concerned: again
   an encrypted scalar, carrying the same Anchor *)
Definition frame_leaf (n n' : node) : Prop :=
  is_eyaml_node n' = true /\ anchor_name n' = anchor_name n.

Section Keys.
  Variable key : Type.
  Variable dec : key -> string -> option string.
  Variables oldk newk : key.

  (* the plaintext the value had under the old key is what it has under the new
     key (guard plain_ok: finding F19a), and the old key no longer opens it *)
  Definition rekeyed_leaf (n n' : node) : Prop :=
    exists i s i' s' p,
      n = NLeaf i (PStr s) /\ n' = NLeaf i' (PStr s') /\
      anchor_name n' = anchor_name n /\ is_eyaml_str s' = true /\
      decrypt_eyaml key dec oldk (PStr s) = Ok (PStr p) /\
      (plain_ok p = true ->
         decrypt_eyaml key dec newk (PStr s') = Ok (PStr p) /\
         decrypt_eyaml key dec oldk (PStr s') = Raise EyamlExc).

  Definition new_key_leaf (n n' : node) : Prop :=
    exists i s i' s' p,
      n = NLeaf i (PStr s) /\ n' = NLeaf i' (PStr s') /\
      decrypt_eyaml key dec oldk (PStr s) = Ok (PStr p) /\
      (plain_ok p = true -> decrypt_eyaml key dec newk (PStr s') = Ok (PStr p)).

  Definition old_key_dead_leaf (n n' : node) : Prop :=
    exists i s i' s' p,
      n = NLeaf i (PStr s) /\ n' = NLeaf i' (PStr s') /\
      decrypt_eyaml key dec oldk (PStr s) = Ok (PStr p) /\
      (plain_ok p = true -> decrypt_eyaml key dec oldk (PStr s') = Raise EyamlExc).
End Keys.

(* "ignoring whitespace and line breaks": every blank and every line feed removed *)
Definition is_ws (c : ascii) : bool :=
  match c with
  | " "%char => true
  | Ascii false true false true false false false false => true      (* line feed *)
  | _ => false
  end.

Fixpoint strip_ws (s : string) : string :=
  match s with
  | EmptyString => EmptyString
  | String c r => if is_ws c then strip_ws r else String c (strip_ws r)
  end.

(* the laws of the external cipher (the three cipher laws + the layout of the
   command's output), as hypotheses of the document-level theorems *)
Definition cipher_laws (key : Type) (enc dec : key -> string -> option string)
                       (layout : out_fmt -> string -> string) : Prop :=
  (forall k p c, enc k p = Some c -> dec k c = Some p) /\
  (forall k k' p c, k <> k' -> enc k p = Some c -> dec k' c = None) /\
  (forall k p c, enc k p = Some c -> cipher_ok c = true) /\
  (forall k p c fmt, enc k p = Some c ->
      exists stored, post_encrypt fmt (layout fmt c) = Ok stored /\ clean stored = c).

(* a document as loaded: consistent identities, [next] fresh, proper keys, and a
   hash or a list at the root (a document that is one scalar is never searched) *)
Definition loaded_doc (d : node) (next : N) : Prop :=
  Inv d next /\ keys_ok d /\ is_leaf d = false.
