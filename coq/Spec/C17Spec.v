(* C17 -- declarative statement of "a failing or interrupted tool run never
   loses the user's file", independent of how the tools go about saving. *)
From Coq Require Import List Bool.
From YP Require Import SaveProtocol.
Import ListNotations.
Import Sv.

(* A start state the tools can meet: no temporary file of theirs exists yet. *)
Definition start_ok (s : fs) : Prop := f_tmp s = None.

(* "the target file is byte-for-byte unchanged and no output or backup file
   has appeared": nothing at all differs. *)
Definition untouched (before after : fs) : Prop := after = before.

(* "at least one of the target file and its backup still holds the complete
   original bytes" *)
Definition one_intact_copy (after : fs) : Prop :=
  get after Target = Some Orig \/ get after Bak = Some Orig.

(* "the .bak file is a byte-identical copy of the pre-image" (and the target
   holds the complete new document) *)
Definition bak_is_preimage (after : fs) : Prop :=
  get after Bak = Some Orig /\ get after Target = Some New.

(* "never replaces an existing file": the output role keeps what it had. *)
Definition output_kept (before after : fs) : Prop :=
  get after Output = get before Output.

(* Calls that leave every file alone: exists(), and serialisation into memory. *)
Definition only_looks (o : op) : bool :=
  match o with Exists _ | Render _ => true | _ => false end.

Definition failed (st : status) : Prop := st <> SOk.

(* The structural condition under which ANY save sequence keeps one intact
   copy: the backup copy is complete before the first call that can damage the
   target, and nothing afterwards writes to the backup. *)
Definition backup_first (l : list op) : Prop :=
  exists pre post, l = pre ++ Copy2 Target Bak :: post
                   /\ spares Target pre = true /\ spares Bak post = true.

(* "the target file is byte-for-byte unchanged and no output or backup file has
   appeared": the target and the output name hold what they held; the backup
   name holds what it held, or nothing. *)
Definition target_kept_nothing_appeared (before after : fs) : Prop :=
  get after Target = get before Target /\ get after Output = get before Output
  /\ (get after Bak = get before Bak \/ get after Bak = None) /\ get after Tmp = None.

(* An exception class that `except Exception` catches. *)
Definition is_exception (k : fkind) : Prop := k <> FInterrupt.

(* "the dump step of yaml-set's YAML save fails": the dumper raises by itself
   (and no other call fails), or an injected failure of any mode and of any
   Exception class hits exactly that call. *)
Definition dump_step_fails (backup ok : bool) (f : option fault) (s : fs) : Prop :=
  (ok = false /\ f = None)
  \/ (exists ft, f = Some ft /\ at_k ft = set_dump_pos backup s /\ is_exception (f_kind ft)).
