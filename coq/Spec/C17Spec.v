(* C17 -- declarative statement of "a failing or interrupted tool run never
   loses the user's file", independent of how the tools go about saving. *)
From Coq Require Import List Bool.
From YP Require Import SaveProtocol.
Import ListNotations.
Import Sv.

(* A start state the tools can meet: no temporary file of theirs exists yet. *)
Definition start_ok (s : fs) : Prop := f_tmp s = None.

(* "the target file is byte-for-byte unchanged and no output or backup file
   has appeared": nothing at all differs. *)
Definition untouched (before after : fs) : Prop := after = before.

(* "at least one of the target file and its backup still holds the complete
   original bytes" *)
Definition one_intact_copy (after : fs) : Prop :=
  get after Target = Some Orig \/ get after Bak = Some Orig.

(* "the .bak file is a byte-identical copy of the pre-image" (and the target
   holds the complete new document) *)
Definition bak_is_preimage (after : fs) : Prop :=
  get after Bak = Some Orig /\ get after Target = Some New.

(* "never replaces an existing file": the output role keeps what it had. *)
Definition output_kept (before after : fs) : Prop :=
  get after Output = get before Output.

(* Calls that only look. *)
Definition only_looks (o : op) : bool :=
  match o with Exists _ => true | _ => false end.

Definition failed (st : status) : Prop := st <> SOk.

(* The structural condition under which ANY save sequence keeps one intact
   copy: the backup copy is complete before the first call that can damage the
   target, and nothing afterwards writes to the backup. *)
Definition backup_first (l : list op) : Prop :=
  exists pre post, l = pre ++ Copy2 Target Bak :: post
                   /\ spares Target pre = true /\ spares Bak post = true.
