(* C19 -- the hypotheses [Inv] / [keys_ok] / [loaded_doc] of the document-level
   theorems as boolean functions, so that the harness can EVALUATE them on every
   document it encodes instead of assuming them (soundness: Proofs/EyamlInvB.v,
   Properties/C19.v C19_loaded_doc_b_sound). *)
From Coq Require Import List Ascii String NArith ZArith QArith Bool.
From YP Require Import Outcome PyStr PyVal Doc Eyaml C19Spec C19DocSpec.
Import ListNotations.
Open Scope list_scope.
Import Ey.

Definition c19_opt_str_eqb (a b : option string) : bool :=
  match a, b with
  | Some x, Some y => String.eqb x y
  | None, None => true
  | _, _ => false
  end.

Definition c19_info_eqb (a b : info) : bool :=
  N.eqb (oid a) (oid b) && c19_opt_str_eqb (anchor a) (anchor b) &&
  Bool.eqb (has_anchor_attr a) (has_anchor_attr b) && c19_opt_str_eqb (tag a) (tag b).

(* structural identity of values (NOT Python ==) *)
Definition c19_pyval_eqb (a b : pyval) : bool :=
  match a, b with
  | PNone, PNone => true
  | PBool x, PBool y => Bool.eqb x y
  | PInt x, PInt y => Z.eqb x y
  | PFloat q r, PFloat q' r' => Z.eqb (Qnum q) (Qnum q') && Pos.eqb (Qden q) (Qden q') && String.eqb r r'
  | PStr x, PStr y => String.eqb x y
  | POther x, POther y => String.eqb x y
  | _, _ => false
  end.

Fixpoint c19_node_eqb (a b : node) {struct a} : bool :=
  match a, b with
  | NLeaf i v, NLeaf j w => c19_info_eqb i j && c19_pyval_eqb v w
  | NMap i kvs, NMap j kvs' =>
      c19_info_eqb i j &&
      (fix go (l l' : list (node * node)) {struct l} : bool :=
         match l, l' with
         | [], [] => true
         | (k, v) :: r, (k', v') :: r' => c19_node_eqb k k' && c19_node_eqb v v' && go r r'
         | _, _ => false
         end) kvs kvs'
  | NSeq i els, NSeq j els' =>
      c19_info_eqb i j &&
      (fix go (l l' : list node) {struct l} : bool :=
         match l, l' with
         | [], [] => true
         | e :: r, e' :: r' => c19_node_eqb e e' && go r r'
         | _, _ => false
         end) els els'
  | NSet i els, NSet j els' =>
      c19_info_eqb i j &&
      (fix go (l l' : list node) {struct l} : bool :=
         match l, l' with
         | [], [] => true
         | e :: r, e' :: r' => c19_node_eqb e e' && go r r'
         | _, _ => false
         end) els els'
  | _, _ => false
  end.

Definition c19_inv_b (d : node) (next : N) : bool :=
  let vs := vnodes d in
  forallb (fun a => forallb (fun b => implb (N.eqb (node_oid a) (node_oid b)) (c19_node_eqb a b)) vs) vs
  && forallb (fun a => N.ltb (node_oid a) next) vs
  && forallb (fun a => forallb (fun b =>
        match araw a, araw b with
        | Some x, Some y => implb (String.eqb x y) (N.eqb (node_oid a) (node_oid b))
        | _, _ => true
        end) vs) vs
  && forallb (fun a => match araw a with Some EmptyString => false | _ => true end) vs.

Fixpoint c19_keys_ok_list_b (kvs : list (node * node)) : bool :=
  match kvs with
  | [] => true
  | (k, _) :: r =>
      match k with
      | NLeaf _ kv =>
          py_eq kv kv &&
          forallb (fun e : node * node => negb (py_eq (key_val (fst e)) kv) && negb (py_eq kv (key_val (fst e)))) r
      | _ => false
      end && c19_keys_ok_list_b r
  end.

Definition c19_keys_ok_b (d : node) : bool :=
  forallb (fun n => match n with NMap _ kvs => c19_keys_ok_list_b kvs | _ => true end) (vnodes d).

Definition c19_loaded_doc_b (d : node) (next : N) : bool :=
  c19_inv_b d next && c19_keys_ok_b d && negb (is_leaf d).
