(* C05 -- declarative statement of the merge policies, as the enum docstrings
   (yamlpath/merger/enums/*.py) and the README ("yaml-merge") define them.
   Nothing here mentions the insertion buffer, positions or loops of the code. *)
From Coq Require Import List Ascii String ZArith NArith Bool.
From YP Require Import Outcome PyStr PyVal Doc MergeConfig.
Import ListNotations.
Open Scope string_scope.
Open Scope list_scope.

(* ---- precedence: "config[rules] > CLI > config[defaults] > default" ---- *)
Inductive source := FromRule | FromCli | FromIni | FromDefault.

(* the documented choice of the policy text for one node *)
Definition policy_text (rule : string) (cli ini : option string) (dflt : string) : string * source :=
  if nonempty rule then (rule, FromRule)
  else match cli with
       | Some c => if nonempty c then (c, FromCli)
                   else match ini with Some i => (i, FromIni) | None => (dflt, FromDefault) end
       | None => match ini with Some i => (i, FromIni) | None => (dflt, FromDefault) end
       end.

(* a per-path rule speaks for exactly the node it was resolved to: same
   object, same parent object, same key / index *)
Definition same_place (a b : coord) : Prop :=
  mc_node a = mc_node b /\ mc_parent a = mc_parent b /\
  match mc_ref a, mc_ref b with
  | None, None => True
  | Some x, Some y => py_eq x y = true
  | _, _ => False
  end.

(* ---- shapes ---- *)
Inductive kind := KLeaf | KMap | KSeq | KSet.
Definition kind_of (n : node) : kind :=
  match n with NLeaf _ _ => KLeaf | NMap _ _ => KMap | NSeq _ _ => KSeq | NSet _ _ => KSet end.

(* "A structurally impossible merge (array into hash, scalar into hash, hash
   into set)" -- at the merge target ... *)
Definition impossible_at_target (l r : kind) : bool :=
  match l, r with
  | KMap, KSeq => true      (* array into hash *)
  | KMap, KLeaf => true     (* scalar into hash *)
  | KSet, KMap => true      (* hash into set *)
  | KLeaf, KMap => true     (* hash into scalar *)
  | KLeaf, KSeq => true     (* array into scalar *)
  | KLeaf, KSet => true     (* set into scalar *)
  | _, _ => false
  end.

(* ... and below it, at a key both Hashes have: a right-hand container needs a
   left-hand container of its own kind (a right-hand Scalar overrides anything) *)
Definition impossible_nested (l r : kind) : bool :=
  match r, l with
  | KMap, KMap | KSeq, KSeq | KSet, KSet => false
  | KLeaf, _ => false
  | _, _ => true
  end.

(* ---- hashes ---- *)
Definition keys_of (kvs : list (node * node)) : list pyval :=
  map (fun kv => match fst kv with NLeaf _ k => k | _ => PNone end) kvs.

(* the key is named by the right-hand Hash *)
Definition named (rkeys : list pyval) (k : pyval) : bool := existsb (fun k' => py_eq k k') rkeys.

(* left-hand content not named by the right-hand document *)
Definition unnamed_part (rkeys : list pyval) (kvs : list (node * node)) : list (node * node) :=
  filter (fun kv => negb (named rkeys (match fst kv with NLeaf _ k => k | _ => PNone end))) kvs.

(* ---- arrays ---- *)
(* ALL: "All RHS Arrays elements are appended to LHS Arrays (no deduplication)" *)
Definition array_all (l r : list node) : list node := l ++ r.
