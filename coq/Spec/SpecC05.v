(* C05 -- declarative statement of the merge policies, as the enum docstrings
   (yamlpath/merger/enums/*.py) and the README ("yaml-merge") define them.
   Nothing here mentions the insertion buffer, positions or loops of the code. *)
From Coq Require Import List Ascii String ZArith NArith Bool.
From YP Require Import Outcome PyStr PyVal Doc PathParser Searches MergeConfig.
Import ListNotations.
Open Scope string_scope.
Open Scope list_scope.

(* ---- precedence: "config[rules] > CLI > config[defaults] > default" ---- *)
Inductive source := FromRule | FromCli | FromIni | FromDefault.

(* the documented choice of the policy text for one node *)
Definition policy_text (rule : string) (cli ini : option string) (dflt : string) : string * source :=
  if nonempty rule then (rule, FromRule)
  else match cli with
       | Some c => if nonempty c then (c, FromCli)
                   else match ini with Some i => (i, FromIni) | None => (dflt, FromDefault) end
       | None => match ini with Some i => (i, FromIni) | None => (dflt, FromDefault) end
       end.

(* a per-path rule speaks for exactly the node it was resolved to: same
   object, same parent object, same key / index *)
Definition same_place (a b : coord) : Prop :=
  mc_node a = mc_node b /\ mc_parent a = mc_parent b /\
  match mc_ref a, mc_ref b with
  | None, None => True
  | Some x, Some y => py_eq x y = true
  | _, _ => False
  end.

(* ---- shapes ---- *)
Inductive kind := KLeaf | KMap | KSeq | KSet.
Definition kind_of (n : node) : kind :=
  match n with NLeaf _ _ => KLeaf | NMap _ _ => KMap | NSeq _ _ => KSeq | NSet _ _ => KSet end.

(* "A structurally impossible merge (array into hash, scalar into hash, hash
   into set)" -- at the merge target ... *)
Definition impossible_at_target (l r : kind) : bool :=
  match l, r with
  | KMap, KSeq => true      (* array into hash *)
  | KMap, KLeaf => true     (* scalar into hash *)
  | KSet, KMap => true      (* hash into set *)
  | KLeaf, KMap => true     (* hash into scalar *)
  | KLeaf, KSeq => true     (* array into scalar *)
  | KLeaf, KSet => true     (* set into scalar *)
  | _, _ => false
  end.

(* ... and below it, at a key both Hashes have: a right-hand container needs a
   left-hand container of its own kind (a right-hand Scalar overrides anything) *)
Definition impossible_nested (l r : kind) : bool :=
  match r, l with
  | KMap, KMap | KSeq, KSeq | KSet, KSet => false
  | KLeaf, _ => false
  | _, _ => true
  end.

(* ---- hashes ---- *)
Definition keys_of (kvs : list (node * node)) : list pyval :=
  map (fun kv => match fst kv with NLeaf _ k => k | _ => PNone end) kvs.

(* the key is named by the right-hand Hash *)
Definition named (rkeys : list pyval) (k : pyval) : bool := existsb (fun k' => py_eq k k') rkeys.

(* left-hand content not named by the right-hand document *)
Definition unnamed_part (rkeys : list pyval) (kvs : list (node * node)) : list (node * node) :=
  filter (fun kv => negb (named rkeys (match fst kv with NLeaf _ k => k | _ => PNone end))) kvs.

(* ---- arrays ---- *)
(* ALL: "All RHS Arrays elements are appended to LHS Arrays (no deduplication)" *)
Definition array_all (l r : list node) : list node := l ++ r.

(* ---- never a crash ---- *)
(* The only failure of a merge that is no MergeException is a configuration
   error: some policy lookup meets a text that is no member of its
   enumeration (from_str raises NameError). *)
Definition mg_bad_lookup (cfg : mconfig) : Prop :=
  exists nc, hash_merge_mode cfg nc = Raise name_error \/ array_merge_mode cfg nc = Raise name_error \/
             aoh_merge_mode cfg nc = Raise name_error \/ set_merge_mode cfg nc = Raise name_error.

(* what is assumed of the oracle ast.literal_eval: it answers, and raises only
   what Nodes.typed_value catches *)
Definition mg_lit_ok (lit : string -> outcome litres) : Prop :=
  forall s, exists r, lit s = Ok r /\ match r with LCrash c => lit_crash_caught c = true | _ => True end.

(* a document, a MergeException, or that configuration error -- nothing else *)
Definition mg_clean (cfg : mconfig) {A} (o : outcome A) : Prop :=
  match o with
  | Ok _ => True
  | Raise e => e = MergeExc \/ (e = name_error /\ mg_bad_lookup cfg)
  | OutOfFuel => False
  end.

(* the computable guard: the option text in force for each enumeration and
   every per-path rule text is a member of the enumeration *)
Definition mg_enum_ok {A} (of_str : string -> outcome A) (cfg : mconfig) (cli ini : option string)
           (dflt : string) : bool :=
  is_ok (of_str (cli_or_default cli (ini_of cfg ini) dflt)) &&
  (negb (has_config cfg) ||
   forallb (fun r => negb (nonempty (r_val r)) || is_ok (of_str (r_val r))) (m_rules cfg)).

Definition mg_cfg_valid (cfg : mconfig) : bool :=
  mg_enum_ok hash_of_str cfg (cli_hashes cfg) (ini_hashes cfg) "DEEP" &&
  mg_enum_ok array_of_str cfg (cli_arrays cfg) (ini_arrays cfg) "ALL" &&
  mg_enum_ok aoh_of_str cfg (cli_aoh cfg) (ini_aoh cfg) "ALL" &&
  mg_enum_ok set_of_str cfg (cli_sets cfg) (ini_sets cfg) "UNIQUE".
