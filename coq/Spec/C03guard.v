(* C03 (histories, second round) - the invariants of a loaded document, the
   declarative form of a [name()] key rename, and the guards / abstraction of a
   history that (a) no longer re-check the document invariants at every
   operation and (b) include the key renames.

     doc_inv d        what every loaded document satisfies (ruamel containers carry the anchor
                      attribute; every container object sits at one place; the keys of a mapping
                      are pairwise different; keys and set members are scalars)
     krename o idx k  the entry at position idx of the mapping object o is filed under the key k:
                      its place and its value are kept
     mask_entry       the same place as a mask of the plain-data model (C03hist.drekey)

   The guards that remain (act_ok2) speak about the matched node only: it is
   not a member of a set and it is one object (C03spec.alias_clean), and, for a
   delete, every gathered coordinate locates a node. *)
From Coq Require Import List ZArith NArith Bool.
From YP Require Import Outcome PyStr PyVal Doc Searches Mutate Create History C03spec C04spec C03hist C03e2e.
Import ListNotations.

Definition doc_inv (d : node) : bool := wf_attr d && wf_docb d && mkeys_distinct d && ce_flat d.

(* ---- the key rename, declaratively ---- *)
Fixpoint krename (o : N) (idx : nat) (k : node) (d : node) : node :=
  match d with
  | NLeaf _ _ => d
  | NMap i kvs =>
      if N.eqb (oid i) o
      then NMap i (imap (fun j kv => if Nat.eqb j idx then (k, snd kv) else kv) 0 kvs)
      else NMap i (map (fun kv => (fst kv, krename o idx k (snd kv))) kvs)
  | NSeq i els => if N.eqb (oid i) o then d else NSeq i (map (krename o idx k) els)
  | NSet _ _ => d
  end.

Fixpoint mask_entry (o : N) (idx : nat) (d : node) : mask :=
  match d with
  | NLeaf _ _ => MNode []
  | NMap i kvs =>
      if N.eqb (oid i) o
      then MNode (imap (fun j (_ : node * node) => (Nat.eqb j idx, MNode [])) 0 kvs)
      else MNode (map (fun kv => (false, mask_entry o idx (snd kv))) kvs)
  | NSeq i els => if N.eqb (oid i) o then MNode [] else MNode (map (fun x => (false, mask_entry o idx x)) els)
  | NSet _ _ => MNode []
  end.

Section Guard2.
Variable lit : String.string -> outcome litres.
Variable fl : String.string -> outcome flres.

(* the entry a [name()] change renames: the mapping object that is the parent, the position of the
   first key == parentref *)
Definition rename_target (a : action) (st : state) : option (N * nat) :=
  match pc_parent (a_pc a) with
  | Some o =>
      match find_obj o (fst st) with
      | Some (NMap _ kvs) =>
          match find_idx (key_is (pc_ref (a_pc a))) kvs with Some idx => Some (o, idx) | None => None end
      | _ => None
      end
  | None => None
  end.

(* GUARD of one change: a key rename needs none; a change of a node asks that the matched node is
   not a set member and is one object (alias_clean); a change that addresses nothing (no parent, a
   parent outside the document, an absent set member) leaves the document alone *)
Definition act_ok2 (a : action) (st : state) : bool :=
  a_name a ||
  match act_target a st with
  | Some (o, _, c) => alias_clean o (node_oid c) (fst st)
  | None => true
  end.

Fixpoint acts_ok2 (value : pyval) (vo : N) (acts : list action) (st : state) : bool :=
  match acts with
  | [] => true
  | a :: r =>
      act_ok2 a st &&
      match apply_action lit fl value vo a st with
      | ROk st' => acts_ok2 value vo r st'
      | RErr _ => true
      end
  end.

Definition abs_action2 (value : pyval) (vo : N) (a : action) (st : state) : list pop :=
  if a_name a then
    match rename_target a st with
    | Some (o, idx) => [PRekey (mask_entry o idx (fst st)) value]
    | None => []
    end
  else
    match act_target a st with
    | Some (o, rf, c) =>
        match make_new_node lit fl (Some (node_info c)) value (a_fmt a) (snd st) vo with
        | ROk new =>
            [PReplace (mask_subst (designated o rf (node_oid c)) (fst st)) (erase new);
             PRekey (mask_keys (kdesignated (node_oid c)) (subst (designated o rf (node_oid c)) new (fst st)))
                    (match new with NLeaf _ v => v | _ => PNone end)]
        | RErr _ => []
        end
    | None => []
    end.

Fixpoint abs_actions2 (value : pyval) (vo : N) (acts : list action) (st : state) : list pop :=
  match acts with
  | [] => []
  | a :: r =>
      abs_action2 value vo a st ++
      match apply_action lit fl value vo a st with
      | ROk st' => abs_actions2 value vo r st'
      | RErr _ => []
      end
  end.

Definition op_ok2 (op : hop) (d : node) : bool :=
  match op with
  | HSet cs v f vo =>
      let s := sv_start vo (init_state d) in
      acts_ok2 v (fst s) (flat_map (set_actions f) cs) (snd s)
  | HDelete cs => del_all_located d (pairs_of cs)
  | HCreate segs v f vo =>
      match create_walk lit segs v vo d with
      | (vo', ROk (d1, pc, next1)) => acts_ok2 v vo' [mkact pc false f] (d1, next1)
      | (_, RErr _) => true
      end
  end.

Definition abs_op2 (op : hop) (d : node) : list pop :=
  match op with
  | HSet cs v f vo =>
      let s := sv_start vo (init_state d) in
      abs_actions2 v (fst s) (flat_map (set_actions f) cs) (snd s)
  | HDelete cs => [PRemove (mask_prune (inT (targets d (pairs_of cs))) d)]
  | HCreate segs v f vo =>
      match create_walk lit segs v vo d with
      | (vo', ROk (d1, pc, next1)) => PExtend :: abs_actions2 v vo' [mkact pc false f] (d1, next1)
      | (_, RErr _) => []
      end
  end.

Fixpoint hist_ok2 (ops : list hop) (d : node) : bool :=
  match ops with
  | [] => true
  | op :: r =>
      op_ok2 op d &&
      match run_op lit fl op d with
      | MDone d' => hist_ok2 r d'
      | Failed _ _ => true
      end
  end.

Fixpoint abs_ops2 (ops : list hop) (d : node) : list pop :=
  match ops with
  | [] => []
  | op :: r =>
      abs_op2 op d ++
      match run_op lit fl op d with
      | MDone d' => abs_ops2 r d'
      | Failed _ _ => []
      end
  end.
End Guard2.
