(* C16 -- adapters between the yaml-set / yaml-merge GLUE (Model/Cli.v: documents are identifiers,
   the library steps [gather], [change], [merge2] are abstract inputs) and the LIBRARY models on
   Doc.node: Model/Compose.v ([ce_set] = Eval.v gathering + Mutate.set_value changing),
   Model/Create.v (the creating route of set_value), Mutate.delete_nodes, Model/Merge.v
   ([merge_root]) and Model/MergeAt.v ([merge_at]).
   [doc_of] : the document behind an identifier; [id_of] : the identifier of a document (the
   harness numbers documents by their plain data).  Nothing here looks at how main() is written. *)
From Coq Require Import List Ascii String ZArith NArith Bool Arith.
From YP Require Import Outcome PyStr PyVal Doc PathParser Searches Cli CliSpec CliLibSpec.
From YP Require Eval Mutate Create Compose Merge MergeAt MergeConfig.
Import ListNotations.
Open Scope string_scope.
Open Scope list_scope.

(* how a library-model exception reaches main()'s except clauses after a change call *)
Definition change_of_exn (e : exn) (d : nat) : change_res :=
  match e with
  | YPE k => ChYpe (match k with NoDocument => true | _ => false end) d
      (* "Refusing to delete the entire document" is the NoDocument YAML Path error *)
  | EyamlExc => ChEyamlExc
  | _ => ChCrash (ufam_of_exn e)
  end.

(* a straight key / index path as Create.v takes it; [ko_of] = the identity of the key text object
   (an identity detail of interned one-character strings, an oracle) *)
Fixpoint straight_segs (ko_of : string -> option N) (segs : list Eval.pseg) : option (list Create.seg) :=
  match segs with
  | [] => Some []
  | s :: r =>
      match Eval.seg_es s, straight_segs ko_of r with
      | (Some TKey, AStr k), Some l => Some (Create.SKey k (ko_of k) :: l)
      | (Some TIndex, AInt z), Some l => Some (Create.SIdx z :: l)
      | _, _ => None
      end
  end.

Section SetLib.
  Variable lit : string -> outcome litres.
  Variable re_search : string -> string -> outcome reres.
  Variable nstr : node -> string.
  Variable vstr : list Eval.rval -> string.
  Variable kw_handler : bool -> keyword -> string -> Eval.rval -> Eval.ctx -> Eval.gen Eval.rval.
  Variable creator : list Eval.pseg -> nat -> Eval.rval -> Eval.ctx -> Eval.gen Eval.rval.
  Variable fl : string -> outcome Mutate.flres.
  Variable doc_of : nat -> node.
  Variable id_of : node -> nat.
  Variable sn_of : Eval.rval -> setnode.       (* the --check facts of a gathered node: oracles *)
  Variable ko_of : string -> option N.

  (* _get_nodes: processor.get_nodes(change_path, mustexist=True) on the loaded document.
     None: the library model has no answer (out of fuel). *)
  Definition lib_set_gather (p : Eval.ppath) (d0 : nat) : option (lres (list setnode)) :=
    match Eval.get_required lit re_search nstr vstr kw_handler creator p (doc_of d0) with
    | (items, Eval.Done) => Some (LOk (map sn_of items))
    | (_, Eval.Err e) => Some (LRaise (ufam_of_exn e))
    | _ => None
    end.

  (* processor.set_value(change_path, new_value, value_format=fmt, mustexist=must) on state d:
     the composed model; when its optional gather reaches a node-creating branch and the path
     is a straight key / index path, Create.create_set (the creating route).  None: no answer. *)
  Definition lib_set_value (must : bool) (p : Eval.ppath) (value : pyval) (fmt : Mutate.vformat) (vo : option N)
             (d : nat) : option change_res :=
    match Compose.ce_set lit re_search nstr vstr kw_handler creator fl must p (doc_of d) value fmt vo with
    | Compose.CeDone st => Some (ChOk (id_of (fst st)))
    | Compose.CeFailed st e => Some (change_of_exn e (id_of (fst st)))
    | Compose.CeRead (Eval.Err e) => Some (change_of_exn e d)
    | Compose.CeRead (Eval.Mut _ _) =>
        match p with
        | Eval.PPath segs =>
            match straight_segs ko_of segs with
            | Some cs =>
                Some (match Create.create_set lit fl cs value fmt vo (doc_of d) with
                      | Mutate.SDone st => ChOk (id_of (fst st))
                      | Mutate.SFailed st e => change_of_exn e (id_of (fst st))
                      end)
            | None => None
            end
        | _ => None
        end
    | _ => None
    end.

  (* processor.delete_gathered_nodes(change_node_coordinates): the coordinates were gathered on
     the loaded document d0 (the required query), the deletion runs on state d *)
  Definition lib_set_delete (p : Eval.ppath) (d0 d : nat) : option change_res :=
    match Eval.get_required lit re_search nstr vstr kw_handler creator p (doc_of d0) with
    | (items, Eval.Done) =>
        match Compose.ce_coords false items with
        | Some cs =>
            Some (match Mutate.delete_nodes cs (doc_of d) with
                  | Mutate.MDone d' => ChOk (id_of d')
                  | Mutate.Failed d' e => change_of_exn e (id_of d')
                  end)
        | None => None
        end
    | _ => None
    end.

  (* the glue's [change] input: the library model's answer, or a marker where it has none *)
  Definition total_change (f : nat -> option change_res) (d : nat) : change_res :=
    match f d with Some c => c | None => ChCrash (UCrash "OutOfModel") end.
End SetLib.

(* ------------------------------------------------------------------ *)
(* yaml-merge: Merger(l).merge_with(r) as Model/Merge.v / Model/MergeAt.v                     *)

(* the Doc location (Lib/Doc.v [loc]) behind the ancestry of a query result: one child reference
   per (parent, parentref) link - a key of a mapping, the normalised position in a sequence, a
   member of a set *)
Definition ref_of_link (par : Eval.rval) (r : pyval) : option ref :=
  match par with
  | Eval.RNode (NMap _ _) => Some (RKey r)
  | Eval.RNode (NSeq _ els) =>
      match r with
      | PInt z => Some (RIdx (Z.to_nat (if (z <? 0)%Z then (z + Z.of_nat (List.length els))%Z else z)))
      | _ => None
      end
  | Eval.RNode (NSet _ _) => Some (RMember r)
  | _ => None
  end.
Fixpoint loc_of_anc (anc : list (Eval.rval * pyval)) : option loc :=
  match anc with
  | [] => Some []
  | (par, r) :: rest =>
      match ref_of_link par r, loc_of_anc rest with
      | Some x, Some l => Some (x :: l)
      | _, _ => None
      end
  end.
Definition target_loc (x : Eval.rval) : option loc :=
  match x with
  | Eval.RCoords (Eval.RNode _) _ _ _ anc => loc_of_anc anc
  | _ => None
  end.
Fixpoint target_locs (items : list Eval.rval) : option (list loc) :=
  match items with
  | [] => Some []
  | x :: r => match target_loc x, target_locs r with
              | Some l, Some ls => Some (l :: ls)
              | _, _ => None
              end
  end.

Section MergeAtLib.
  Variable lit : string -> outcome litres.
  Variable re_search : string -> string -> outcome reres.
  Variable nstr : node -> string.
  Variable vstr : list Eval.rval -> string.
  Variable kw_handler : bool -> keyword -> string -> Eval.rval -> Eval.ctx -> Eval.gen Eval.rval.
  Variable creator : list Eval.pseg -> nat -> Eval.rval -> Eval.ctx -> Eval.gen Eval.rval.
  Variable cfg : MergeConfig.mconfig.

  (* Merger.merge_with(rhs) with --mergeat P on an EXISTING path: the targets are the results of
     Processor.get_nodes(P, default_value=rhs) (the optional query of Model/Eval.v; a query that
     creates nodes - C11_missing_created_partial's subject - has no answer here: OutOfFuel), the
     loop over them is MergeAt.merge_at *)
  Definition lib_merge_at (p : Eval.ppath) (l r : node) : outcome node :=
    match Eval.get_optional lit re_search nstr vstr kw_handler creator p l with
    | (items, Eval.Done) =>
        match target_locs items with
        | Some ts => MergeAt.merge_at lit cfg (match p with Eval.PPath [] => true | _ => false end) ts l r
        | None => OutOfFuel
        end
    | (_, Eval.Err e) => Raise e
    | _ => OutOfFuel
    end.
End MergeAtLib.

Section MergeLib.
  Variable doc_of : nat -> node.
  Variable id_of : node -> nat.

  (* the glue's pairwise-merge oracle: (exception family if any, state left in l) *)
  Definition merge2_of (m : node -> node -> outcome node) (l r : nat) : option ufam * nat :=
    match m (doc_of l) (doc_of r) with
    | Ok d => (None, id_of d)
    | Raise e => (Some (ufam_of_exn e), l)      (* a failing merge_with: the glue never looks at the state again *)
    | OutOfFuel => (Some (UCrash "OutOfFuel"), l)
    end.
End MergeLib.
