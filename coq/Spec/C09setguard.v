(* C09 (creation half, set mode) - the input condition of C09_create_set_composes.

   set_value(path, value, mustexist=False) hands the value OBJECT to the
   construction and to _update_node.  When the document already holds that very
   object (vo = Some o: an interned scalar), the identity-driven walk of
   _update_node would take every anchor-capable occurrence of it for an alias of
   the created node; [vo_ok] says that the value object is an object of the
   document's identity range that is neither a container nor an anchor-capable
   mapping key (true whenever the value is a bare Python scalar). *)
From Coq Require Import List ZArith NArith Bool.
From YP Require Import Outcome PyStr PyVal Doc Mutate C04spec.
Import ListNotations.

(* no mapping key of the document is an anchor-capable object with identity x *)
Fixpoint keys_avoid (x : N) (d : node) : bool :=
  match d with
  | NLeaf _ _ => true
  | NMap _ kvs =>
      forallb (fun kv => negb (N.eqb (node_oid (fst kv)) x && has_anchor_attr (node_info (fst kv))) &&
                         keys_avoid x (snd kv)) kvs
  | NSeq _ els => forallb (keys_avoid x) els
  | NSet _ _ => true
  end.

Definition vo_ok (d : node) (vo : option N) : bool :=
  match vo with
  | None => true
  | Some o => N.leb o (max_oid d) && negb (existsb (N.eqb o) (coids d)) && keys_avoid o d
  end.
