(* C16 -- declarative vocabulary of the property statements (no reference to
   how main() is written: these are the things the property text talks about). *)
From Coq Require Import List Ascii String ZArith Bool Arith.
From YP Require Import Outcome PyStr Cli.
Import ListNotations.
Open Scope string_scope.
Open Scope list_scope.

(* ---- what a run delivered ---- *)
Definition is_data_line (l : oline) : bool :=
  match l with OJson _ | OText _ | OEntry _ | OPath _ _ | ODump _ _ | ODumpPartial => true | _ => false end.
(* the data lines of stdout: everything except the usage hint, warnings, progress messages, separators *)
Definition data_lines (out : list oline) : list oline := filter is_data_line out.

(* documents a run wrote, to STDOUT or to the target file *)
Definition dumped (out : list oline) : list (bool * list nat) :=
  flat_map (fun l => match l with ODump j ds => [(j, ds)] | _ => [] end) out.
Definition written (fx : list effect) : list (bool * list nat) :=
  flat_map (fun e => match e with EWrite j ds => [(j, ds)] | _ => [] end) fx.
Definition delivered (r : crun) : list (bool * list nat) := dumped (r_out r) ++ written (r_fx r).

(* ---- yaml-get: "one line per matched node in query order (JSON for containers)" ---- *)
Definition render_node (o : pyobj) : oline :=
  if is_container o then OJson (po_id o) else OText (get_text o).
(* every matched container can be rendered as JSON (json.dumps raises nothing) *)
Definition json_ok (nodes : list pyobj) : bool :=
  forallb (fun o => negb (is_container o) || match po_json o with JOk => true | _ => false end) nodes.

(* ---- yaml-diff: "exits 0 exactly when data-equal, otherwise prints the differ's entries" ---- *)
Definition no_difference (entries : list daction) : Prop := forall e, In e entries -> e = DSame.
(* the positions of the entries the options select, in report order *)
Fixpoint selected_from (a : diff_args) (entries : list daction) (i : nat) : list nat :=
  match entries with
  | [] => []
  | e :: r => if diff_selected a e then i :: selected_from a r (S i) else selected_from a r (S i)
  end.
Definition printed_entries (out : list oline) : list nat :=
  flat_map (fun l => match l with OEntry i => [i] | _ => [] end) out.

(* ---- yaml-validate: "exits 0 exactly when every document of every file loads" ---- *)
Definition loads (s : source) : Prop := rl_fail (s_raw s) = None.
(* a waiting STDIN document is validated too *)
Definition stdin_waits (a : val_args) (tty : bool) (srcs : list source) : bool :=
  negb (existsb (fun s => is_dash (s_name s)) srcs) && negb (va_nostdin a) && negb tty.

(* ---- yaml-merge: the merge of the inputs, left to right ---- *)
Definition fold_merge (merge2 : nat -> nat -> option ufam * nat) (d : nat) (rs : list nat) : nat :=
  fold_left (fun acc r => snd (merge2 acc r)) rs d.
Definition merges_clean (merge2 : nat -> nat -> option ufam * nat) : Prop :=
  forall l r, fst (merge2 l r) = None.

(* ---- yaml-set: the library's post-state ---- *)
Definition set_post (a : set_args) (saveto : nat -> lres nat) (change : nat -> change_res) (d0 : nat) : nat :=
  let d1 := if sa_saveto a then match saveto d0 with LOk d => d | _ => d0 end else d0 in
  match set_change_kind a with
  | ChNothing => d1
  | _ => match change d1 with ChOk d2 => d2 | ChYpe _ d2 => d2 | _ => d1 end
  end.

(* what the written text reloads to: for YAML the post-state as far as ruamel's emitter is faithful
   ([yamlview], an oracle), for JSON its JSON view *)
Definition set_written (a : set_args) (flow : nat -> bool) (yamlview jsonview : nat -> nat) (d : nat) : nat :=
  if negb (flow d) && negb (sa_is_json_ext a) then yamlview d else jsonview d.
(* ruamel's YAML emitter round-trips every state *)
Definition dump_faithful (yamlview : nat -> nat) : Prop := forall d, yamlview d = d.

(* ---- yaml-paths: the search results ---- *)
Definition result_texts (xs : expr_results) : list string :=
  flat_map (fun x => match snd x with Some (LOk rs) => map pr_str rs | _ => [] end) xs.
Definition all_clean (xs : expr_results) : Prop :=
  forall x, In x xs -> exists rs, snd x = Some (LOk rs).
Definition entry_texts (es : list (string * pathrec)) : list string := map (fun e => pr_str (snd e)) es.

(* ---- file vs STDIN ---- *)
(* the stream holds a document, or fails to load: an empty stream is neither *)
Definition holds_a_document (r : rawload) : Prop := rl_docs r <> [] \/ rl_fail r <> None.
