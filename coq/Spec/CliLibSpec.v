(* C16 -- adapters between the GLUE model (Model/Cli.v, whose library results are abstract
   inputs) and the LIBRARY models (MultiDoc.v, Eval.v, Diff.v, PathsSearch.v / PathsPrint.v).
   Each adapter is a small total function that turns what a library model returns into the
   fact record the glue model takes.  Nothing here looks at how main() is written. *)
From Coq Require Import List Ascii String ZArith NArith Bool Arith.
From YP Require Import Outcome PyStr PyVal Doc Cli CliSpec MergeConfig MultiDoc.
Import ListNotations.
Open Scope string_scope.
Open Scope list_scope.

(* ------------------------------------------------------------------ *)
(* exception families *)

(* the family (what the glue's except clauses distinguish) of a library-model exception *)
Definition ufam_of_exn (e : exn) : ufam :=
  match e with
  | YPE _ => UYpe
  | MergeExc => UMerge
  | EyamlExc => UEyaml
  | PyCrash IndexError => UCrash "IndexError"
  | PyCrash TypeError => UCrash "TypeError"
  | PyCrash KeyError => UCrash "KeyError"
  | PyCrash ValueError => UCrash "ValueError"
  | PyCrash AttributeError => UCrash "AttributeError"
  | PyCrash ReError => UCrash "error"
  | PyCrash RecursionError => UCrash "RecursionError"
  | PyCrash NotImplemented => UCrash "NotImplementedError"
  | OracleMiss => UCrash "OracleMiss"
  end.

(* a representative library-model exception of a family (the drivers only test the family) *)
Definition exn_of_ufam (u : ufam) : exn :=
  match u with
  | UYpe => YPE Generic
  | UMerge => MergeExc
  | UEyaml => EyamlExc
  | UCrash _ => PyCrash TypeError
  end.

(* exception e of a library model belongs to family u *)
Definition fam_matches (u : ufam) (e : exn) : Prop :=
  match u with
  | UYpe => exists k, e = YPE k
  | UMerge => e = MergeExc
  | UEyaml => e = EyamlExc
  | UCrash _ => exists c, e = PyCrash c
  end.

(* ------------------------------------------------------------------ *)
(* yaml-merge: the glue's pairwise-merge oracle as MultiDoc.v's [merge2] *)

(* Cli.v: merge2 l r = (exception family if any, state left in l);
   MultiDoc.v: merge2 l r = (state left in l, exception if any) *)
Definition lib_merge2 (merge2 : nat -> nat -> option ufam * nat) (l r : nat) : nat * option exn :=
  (snd (merge2 l r), option_map exn_of_ufam (fst (merge2 l r))).

(* a driver of Cli.v returns (exit state, documents, number of log.error calls), the same driver
   of MultiDoc.v (documents, exit state): they agree, and a zero state means no error was logged *)
Definition same_drive (c : lres (nat * list nat * nat)) (l : outcome (list nat * nat)) : Prop :=
  match l with
  | Ok (out, st) => exists nh, c = LOk (st, out, nh) /\ (st = 0 -> nh = 0)
  | Raise e => exists u, c = LRaise u /\ fam_matches u e
  | OutOfFuel => False
  end.

Definition lib_mode (m : Cli.mdmode) : MergeConfig.mdmode :=
  match m with CondenseAll => MCondense | MergeAcross => MAcross | MatrixMerge => MMatrix end.

(* one YAML_FILE (or the waiting STDIN) worth of documents meets the documents merged so far:
   the first non-empty stream supplies the left-hand documents, every later stream goes
   through MultiDoc.merge_docs in the selected mode *)
Definition lib_stream_step (merge2 : nat -> nat -> option ufam * nat) (mode : Cli.mdmode)
           (acc rs : list nat) : outcome (list nat * nat) :=
  match acc with
  | [] => Ok (rs, 0)
  | _ => MultiDoc.merge_docs nat (lib_merge2 merge2) (Ok (lib_mode mode)) (Some rs) acc
  end.

(* the streams in command-line order; a non-zero exit state stops the run *)
Fixpoint lib_merge_streams (merge2 : nat -> nat -> option ufam * nat) (mode : Cli.mdmode)
         (acc : list nat) (streams : list (list nat)) : outcome (list nat * nat) :=
  match streams with
  | [] => Ok (acc, 0)
  | rs :: rest =>
      match lib_stream_step merge2 mode acc rs with
      | Ok (acc', 0) => lib_merge_streams merge2 mode acc' rest
      | other => other
      end
  end.

(* what C18 proves the two modes compute when no step fails *)
Definition lib_m2 (merge2 : nat -> nat -> option ufam * nat) : nat -> nat -> nat :=
  MultiDoc.m2 nat (lib_merge2 merge2).
Definition across_streams (merge2 : nat -> nat -> option ufam * nat) (streams : list (list nat)) : list nat :=
  fold_left (MultiDoc.across_spec nat (lib_merge2 merge2)) streams [].
Definition matrix_streams (merge2 : nat -> nat -> option ufam * nat) (streams : list (list nat)) : list nat :=
  fold_left (fun acc rs => match acc with
                           | [] => rs
                           | _ => map (fun l => fold_left (lib_m2 merge2) rs l) acc
                           end) streams [].

(* ------------------------------------------------------------------ *)
(* yaml-get: the query result of Model/Eval.v as the glue's [query] fact *)
From YP Require Import Generated PathParser PathPrinter Searches Eval.

(* Processor(log, None): the document of an empty file is Python's None *)
Definition null_document : node := NLeaf (mkinfo 0 None false None) PNone.

(* which branch of main()'s isinstance chain a result value takes *)
Definition kind_of (v : rval) : pykind :=
  match v with
  | RNode (NMap _ _) => KDict
  | RNode (NSeq _ _) => KList
  | RList _ => KList                     (* a list built by a collector *)
  | RNode (NSet _ _) => KCSet
  | RNode (NLeaf _ PNone) => KNone
  | _ => KOther
  end.

(* The remaining facts about a result value are oracles of the glue model (identity, the
   AnchoredDate / AnchoredTimeStamp tests, str(), the ISO texts, how json.dumps(jsonify(..)) ends).
   They are facts of decrypt_eyaml(node) - the node itself unless it is an EYAML value. *)
Record value_facts := mkfacts {
  vf_ident : rval -> nat;
  vf_adate : rval -> bool;
  vf_ats : rval -> bool;
  vf_str : rval -> string;
  vf_iso_date : rval -> string;
  vf_iso_ts : rval -> string;
  vf_json : rval -> jres
}.
Definition obj_of (F : value_facts) (v : rval) : pyobj :=
  mkobj (vf_ident F v) (kind_of v) (vf_adate F v) (vf_ats F v) (vf_str F v) (vf_iso_date F v)
        (vf_iso_ts F v) (vf_json F v).
(* one yielded NodeCoords -> its node, NodeCoords.unwrap_node_coords (Eval.unw) -> the facts *)
Definition result_obj (F : value_facts) (x : rval) : pyobj := obj_of F (unw x).

(* list(generator) inside main()'s try: the items when the generator ends normally, the exception
   otherwise (items yielded before it are dropped).  [None]: the library model itself has no answer
   (out of fuel, or a query that writes to the document). *)
Definition query_fact (F : value_facts) (g : gen rval) : option (lres (list pyobj)) :=
  match g with
  | (items, Done) => Some (LOk (map (result_obj F) items))
  | (_, Err e) => Some (LRaise (ufam_of_exn e))
  | (_, Fuel) => None
  | (_, Mut _ _) => None
  end.

Section GetTool.
  Variable lit : string -> outcome litres.
  Variable re_search : string -> string -> outcome reres.
  Variable nstr : node -> string.
  Variable vstr : list rval -> string.
  Variable kw_handler : bool -> keyword -> string -> rval -> ctx -> gen rval.
  Variable creator : list pseg -> nat -> rval -> ctx -> gen rval.
  Variable F : value_facts.
  Variable doc_of : nat -> node.          (* the loaded document behind the glue's identifier *)

  (* Processor.get_nodes(query, mustexist=True) on the loaded document *)
  Definition get_query (p : ppath) (od : option nat) : gen rval :=
    get_required lit re_search nstr vstr kw_handler creator p
      (match od with Some i => doc_of i | None => null_document end).

  (* yaml-get = the glue (Cli.get_main) around the library model (Eval.get_required) *)
  Definition get_tool (a : get_args) (tty : bool) (load : raw1) (qverb : nat) (p : ppath) : option crun :=
    match get_yaml_data load with
    | L1Ok od => option_map (get_main a tty load qverb) (query_fact F (get_query p od))
    | _ => Some (get_main a tty load qverb (LOk []))        (* the query is never evaluated *)
    end.
End GetTool.

(* ------------------------------------------------------------------ *)
(* yaml-diff: the report of Model/Diff.v as the glue's [report] fact *)
From YP Require Diff.

Definition daction_of (a : Diff.action) : daction :=
  match a with Diff.ASame => DSame | Diff.AChange => DChange | Diff.ADelete => DDelete | Diff.AAdd => DAdd end.
(* [renders e] = how str(e) ends (None = it renders) *)
Definition dentry_of (renders : Diff.entry -> option ufam) (e : Diff.entry) : dentry :=
  (daction_of (Diff.e_action e), renders e).

(* the documents a source yields, in order (none when a document fails to load) *)
Definition src_stream (estr : nat) (s : source) : list nat :=
  match yielded_docs (fst (multidoc_yields estr (src_is_stdin s) (s_raw s))) with
  | Some ds => ds
  | None => []
  end.

(* ------------------------------------------------------------------ *)
(* yaml-paths: the hits of Model/PathsSearch.v as the glue's per-document search facts *)
From YP Require PathsSearch PathsPrint.

Definition or_empty (o : outcome string) : string := match o with Ok s => s | _ => EmptyString end.
(* str(segment) of every escaped segment of a result path (--noescape) *)
Definition hit_segs (h : PathsSearch.hit) : list string :=
  match parse Auto true (PathsSearch.h_path h) with
  | Ok sg => map (fun s => attrs_str (snd s)) sg
  | _ => []
  end.
(* one search result as the record print_results reads (without --values) *)
Definition rec_of (h : PathsSearch.hit) : pathrec :=
  mkpr (or_empty (PathsPrint.hit_str h)) (hit_segs h) VNoNode.

Section PathsTool.
  Variable lit : string -> outcome litres.
  Variable re_search : string -> string -> outcome reres.
  Variable mt : PathsSearch.mtable.
  Variable sp : sep.
  Variable o : PathsSearch.opts.

  (* get_search_term + search_for_paths for every expression, on document d *)
  Definition results_of (exprs : list string) (d : node) : expr_results :=
    map (fun e =>
           (e, match PathsSearch.get_search_term e with
               | Ok None => None
               | Ok (Some tm) =>
                   match PathsSearch.search_doc lit re_search mt tm sp o d with
                   | Ok hs => Some (LOk (map rec_of hs))
                   | Raise x => Some (LRaise (ufam_of_exn x))
                   | OutOfFuel => Some (LRaise (UCrash "OutOfFuel"))
                   end
               | Raise x => Some (LRaise (ufam_of_exn x))
               | OutOfFuel => Some (LRaise (UCrash "OutOfFuel"))
               end)) exprs.

  (* every hit of every expression has a printable path (its text parses) *)
  Definition hits_printable (exprs : list string) (d : node) : Prop :=
    forall e tm hs h, In e exprs -> PathsSearch.get_search_term e = Ok (Some tm) ->
      PathsSearch.search_doc lit re_search mt tm sp o d = Ok hs -> In h hs ->
      exists s, PathsPrint.hit_str h = Ok s.
End PathsTool.

(* the option records of the two models describe the same command line *)
Definition same_print_options (a : paths_args) (fl : PathsPrint.pflags) (sp : sep) (exprs : list string) : Prop :=
  pa_search a = exprs /\
  pa_nofile a = PathsPrint.pf_nofile fl /\ pa_noexpression a = PathsPrint.pf_noexpression fl /\
  pa_noyamlpath a = PathsPrint.pf_noyamlpath fl /\ pa_values a = false /\ PathsPrint.pf_values fl = false /\
  pa_noescape a = PathsPrint.pf_noescape fl /\
  pa_fslash a = match sp with Slash => true | Dot => false end.
