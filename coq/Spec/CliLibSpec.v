(* C16 -- adapters between the GLUE model (Model/Cli.v, whose library results are abstract
   inputs) and the LIBRARY models (MultiDoc.v, Eval.v, Diff.v, PathsSearch.v / PathsPrint.v).
   Each adapter is a small total function that turns what a library model returns into the
   fact record the glue model takes.  Nothing here looks at how main() is written. *)
From Coq Require Import List Ascii String ZArith NArith Bool Arith.
From YP Require Import Outcome PyStr PyVal Doc Cli CliSpec MergeConfig MultiDoc.
Import ListNotations.
Open Scope string_scope.
Open Scope list_scope.

(* ------------------------------------------------------------------ *)
(* exception families *)

(* the family (what the glue's except clauses distinguish) of a library-model exception *)
Definition ufam_of_exn (e : exn) : ufam :=
  match e with
  | YPE _ => UYpe
  | MergeExc => UMerge
  | EyamlExc => UEyaml
  | PyCrash IndexError => UCrash "IndexError"
  | PyCrash TypeError => UCrash "TypeError"
  | PyCrash KeyError => UCrash "KeyError"
  | PyCrash ValueError => UCrash "ValueError"
  | PyCrash AttributeError => UCrash "AttributeError"
  | PyCrash ReError => UCrash "error"
  | PyCrash RecursionError => UCrash "RecursionError"
  | PyCrash NotImplemented => UCrash "NotImplementedError"
  | OracleMiss => UCrash "OracleMiss"
  end.

(* a representative library-model exception of a family (the drivers only test the family) *)
Definition exn_of_ufam (u : ufam) : exn :=
  match u with
  | UYpe => YPE Generic
  | UMerge => MergeExc
  | UEyaml => EyamlExc
  | UCrash _ => PyCrash TypeError
  end.

(* exception e of a library model belongs to family u *)
Definition fam_matches (u : ufam) (e : exn) : Prop :=
  match u with
  | UYpe => exists k, e = YPE k
  | UMerge => e = MergeExc
  | UEyaml => e = EyamlExc
  | UCrash _ => exists c, e = PyCrash c
  end.

(* ------------------------------------------------------------------ *)
(* yaml-merge: the glue's pairwise-merge oracle as MultiDoc.v's [merge2] *)

(* Cli.v: merge2 l r = (exception family if any, state left in l);
   MultiDoc.v: merge2 l r = (state left in l, exception if any) *)
Definition lib_merge2 (merge2 : nat -> nat -> option ufam * nat) (l r : nat) : nat * option exn :=
  (snd (merge2 l r), option_map exn_of_ufam (fst (merge2 l r))).

(* a driver of Cli.v returns (exit state, documents, number of log.error calls), the same driver
   of MultiDoc.v (documents, exit state): they agree, and a zero state means no error was logged *)
Definition same_drive (c : lres (nat * list nat * nat)) (l : outcome (list nat * nat)) : Prop :=
  match l with
  | Ok (out, st) => exists nh, c = LOk (st, out, nh) /\ (st = 0 -> nh = 0)
  | Raise e => exists u, c = LRaise u /\ fam_matches u e
  | OutOfFuel => False
  end.

Definition lib_mode (m : Cli.mdmode) : MergeConfig.mdmode :=
  match m with CondenseAll => MCondense | MergeAcross => MAcross | MatrixMerge => MMatrix end.

(* one YAML_FILE (or the waiting STDIN) worth of documents meets the documents merged so far:
   the first non-empty stream supplies the left-hand documents, every later stream goes
   through MultiDoc.merge_docs in the selected mode *)
Definition lib_stream_step (merge2 : nat -> nat -> option ufam * nat) (mode : Cli.mdmode)
           (acc rs : list nat) : outcome (list nat * nat) :=
  match acc with
  | [] => Ok (rs, 0)
  | _ => MultiDoc.merge_docs nat (lib_merge2 merge2) (Ok (lib_mode mode)) (Some rs) acc
  end.

(* the streams in command-line order; a non-zero exit state stops the run *)
Fixpoint lib_merge_streams (merge2 : nat -> nat -> option ufam * nat) (mode : Cli.mdmode)
         (acc : list nat) (streams : list (list nat)) : outcome (list nat * nat) :=
  match streams with
  | [] => Ok (acc, 0)
  | rs :: rest =>
      match lib_stream_step merge2 mode acc rs with
      | Ok (acc', 0) => lib_merge_streams merge2 mode acc' rest
      | other => other
      end
  end.

(* what C18 proves the two modes compute when no step fails *)
Definition lib_m2 (merge2 : nat -> nat -> option ufam * nat) : nat -> nat -> nat :=
  MultiDoc.m2 nat (lib_merge2 merge2).
Definition across_streams (merge2 : nat -> nat -> option ufam * nat) (streams : list (list nat)) : list nat :=
  fold_left (MultiDoc.across_spec nat (lib_merge2 merge2)) streams [].
Definition matrix_streams (merge2 : nat -> nat -> option ufam * nat) (streams : list (list nat)) : list nat :=
  fold_left (fun acc rs => match acc with
                           | [] => rs
                           | _ => map (fun l => fold_left (lib_m2 merge2) rs l) acc
                           end) streams [].
