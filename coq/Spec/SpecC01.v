(* C01 -- the documented meaning of a YAML Path on a document
   (README "Supported YAML Path Segments"; DESIGN Appendix C), written
   independently of the evaluator: plain list functions over Doc.node -- filters
   and flat_maps over children, no generators, no fuel, no coordinates.

     sem (s :: p) n = flat_map (sem p) (sel s n)          one [sel_*] per segment kind
     sem []       n = [n]

   harness/c01.py (ref_sel / ref_sem) is the same definition in Python; the
   extracted [sem_doc] is evaluated next to it on every run. *)
From Coq Require Import List Ascii String ZArith Bool Arith.
From YP Require Import Outcome PyStr PyVal Doc PathParser Searches Eval.
Import ListNotations.

(* zero-based element, negative from the end; nothing when out of range *)
Definition sel_element (els : list node) (i : Z) : list node :=
  let n := Z.of_nat (List.length els) in
  if ((- n <=? i)%Z && (i <? n)%Z)%bool then
    match nth_error els (Z.to_nat (if (i <? 0)%Z then (i + n)%Z else i)) with
    | Some e => [e]
    | None => []
    end
  else [].

(* `key` on a hash: the child under that key; `#` may name a numeric key *)
Definition sel_key_map (k : string) (kvs : list (node * node)) : list node :=
  match assoc_key (PStr k) kvs with
  | Some v => [v]
  | None =>
      match py_int k with
      | Some z => match assoc_key (PInt z) kvs with Some v => [v] | None => [] end
      | None => []
      end
  end.

(* `key` on a set: the member equal to it *)
Definition sel_key_set (k : string) (els : list node) : list node :=
  match find (fun e => match e with NLeaf _ v => py_eq v (PStr k) | _ => false end) els with
  | Some e => [e]
  | None => []
  end.

(* `*`: every immediate child *)
Definition sel_children (n : node) : list node :=
  match n with
  | NMap _ kvs => map snd kvs
  | NSeq _ els => els
  | NSet _ els => els
  | NLeaf _ _ => []
  end.

(* `&x` / `[&x]`: children whose anchor (key or value) is x, once per place *)
Definition has_anchor (x : string) (n : node) : bool :=
  has_anchor_attr (node_info n) &&
  match anchor (node_info n) with Some a => String.eqb x a | None => false end.
Definition sel_anchor (x : string) (n : node) : list node :=
  match n with
  | NMap _ kvs => map snd (filter (fun kv => has_anchor x (fst kv) || has_anchor x (snd kv)) kvs)
  | NSeq _ els => filter (has_anchor x) els
  | NSet _ els => filter (has_anchor x) els
  | NLeaf _ _ => []
  end.

(* `[a:b]` on a hash: the values whose key text lies key_between the terms *)
(* keys and set members are scalars *)
Definition key_txt (k : node) : string := py_str (match k with NLeaf _ v => v | _ => PNone end).
Definition sel_hash_slice (lo hi : string) (kvs : list (node * node)) : list node :=
  map snd (filter (fun kv => str_leb lo (key_txt (fst kv)) && str_leb (key_txt (fst kv)) hi) kvs).

(* ------------------------------------------------------------------------ *)
(* what a path selects: document nodes (the objects themselves: a Doc.node
   carries its identity), virtual lists (array slices: "one virtual list
   result", no identity of its own), or -- where the documentation says
   nothing, or says "error" -- the marker SOut *)
Inductive selres :=
  | SNode (n : node)
  | SVirt (els : list node)
  | SOut.

Definition is_spec (s : selres) : bool := match s with SOut => false | _ => true end.
Definition specified (l : list selres) : bool := forallb is_spec l.

(* `**` as last segment: every leaf below, document order (set members are leaves) *)
Fixpoint leaf_nodes (n : node) : list node :=
  match n with
  | NLeaf _ _ => [n]
  | NMap _ kvs => flat_map (fun kv => leaf_nodes (snd kv)) kvs
  | NSeq _ els => flat_map leaf_nodes els
  | NSet _ els => els
  end.

(* `**` before a filter: the node and everything below it, document order *)
Fixpoint desc_or_self (n : node) : list node :=
  n :: match n with
       | NMap _ kvs => flat_map (fun kv => desc_or_self (snd kv)) kvs
       | NSeq _ els => flat_map desc_or_self els
       | _ => []
       end.

(* `key` / `#`: hash child, set member, array element; Array-of-Hashes
   pass-through [tl]: every element's attribute, nested lists included *)
Fixpoint sel_key (tl : bool) (k : string) (n : node) : list node :=
  match n with
  | NMap _ kvs => sel_key_map k kvs
  | NSet _ els => sel_key_set k els
  | NSeq _ els =>
      match py_int k with
      | Some i => sel_element els i
      | None => if tl then flat_map (sel_key tl k) els else []
      end
  | NLeaf _ _ => []
  end.

(* `[a:b]` on an array: Python's els[a:b] *)
Definition slice_clamp (len i : Z) : nat :=
  Z.to_nat (if (i <? 0)%Z then Z.max 0 (i + len) else Z.min i len).
Definition py_slice (els : list node) (a b : Z) : list node :=
  let len := Z.of_nat (List.length els) in
  firstn (slice_clamp len b - slice_clamp len a) (skipn (slice_clamp len a) els).

Definition key_between (lo hi : string) (k : node) : bool :=
  str_leb lo (key_txt k) && str_leb (key_txt k) hi.

(* `[a:b]`: the text before and after the first colon *)
Definition sel_slice (s : string) (n : node) : list selres :=
  let lo := take (index_char ":"%char s) s in
  let hi := drop (S (index_char ":"%char s)) s in
  match n with
  | NMap _ kvs => map SNode (sel_hash_slice lo hi kvs)
  | NSet _ els => map SNode (filter (key_between lo hi) els)
  | NSeq _ els =>
      match py_int lo, py_int hi with
      | Some a, Some b =>
          (* "when start# and stop# are identical, it is the same as array[start#]" *)
          [SVirt (if (a =? b)%Z then match sel_element els a with [] => py_slice els a b | l => l end
                  else py_slice els a b)]
      | _, _ => [SOut]                      (* an array has no alphanumeric slice *)
      end
  | NLeaf _ _ => []
  end.

(* `[#]` *)
Definition sel_index (i : Z) (n : node) : list selres :=
  match n with
  | NSeq _ els => map SNode (sel_element els i)
  | NSet _ _ => [SOut]                      (* a set has no positions *)
  | _ => []
  end.

Definition is_null_node (n : node) : bool := match n with NLeaf _ PNone => true | _ => false end.
Definition attr_of (attr : string) (n : node) : option node :=
  match n with NMap _ kvs => assoc_key (PStr attr) kvs | _ => None end.
Definition is_snode (s : selres) : bool := match s with SNode _ => true | _ => false end.

Section Sem.
(* the oracles of the typed comparison (C12's subject) *)
Variable lit : string -> outcome litres.
Variable re_search : string -> string -> outcome reres.
Variable nstr : node -> string.
(* strict = true: the situations of the listed finding F12a (a search attribute
   path reaching several nodes below one candidate) are marked SOut instead of
   being given their documented meaning.  [sem] is the documented meaning
   (strict = false); [sem_strict] is the computable guard of the _partial
   theorem.  (F29 -- `*` before another segment over a set -- was marked too
   until the code was repaired; `*` now has its documented meaning on sets in
   both readings.) *)
Variable strict : bool.

(* what the comparison sees of a node *)
Definition hay_of_node (n : node) : hay :=
  match n with
  | NLeaf _ x => if is_sbool n then HSBool (match x with PInt z => negb (Z.eqb z 0) | _ => false end) else HVal x
  | _ => HVal (POther (nstr n))
  end.

(* [x] when `h OP term` holds (inverted: does not hold) *)
Definition keep_if (inv : bool) (m : smethod) (term : string) (h : node) (x : node) : list selres :=
  match search_matches_h lit re_search m term (hay_of_node h) with
  | Ok b => if xorb b inv then [SNode x] else []
  | _ => [SOut]                             (* the comparison itself fails: invalid regular expression *)
  end.
Definition verdict_of (inv b : bool) (x : node) : list selres := if xorb b inv then [SNode x] else [].

(* `[a.b.c OP term]`: x has a descendant at that path satisfying OP *)
Definition some_hit (inv : bool) (m : smethod) (term : string) (hits : list selres) (x : node) : list selres :=
  match hits with
  | [] => verdict_of inv false x
  | [SNode h] => keep_if inv m term h x
  | _ =>
      if strict || negb (forallb is_snode hits) then [SOut]
      else
        let tests := map (fun s => match s with
                                   | SNode h => search_matches_h lit re_search m term (hay_of_node h)
                                   | _ => Raise OracleMiss
                                   end) hits in
        if forallb (fun t => match t with Ok _ => true | _ => false end) tests
        then verdict_of inv (existsb (fun t => match t with Ok true => true | _ => false end) tests) x
        else [SOut]
  end.

(* `[attr OP term]`, `[. OP term]`, `[a.b OP term]` *)
Definition sel_search (attr_sem : node -> list selres) (tl inv : bool) (m : smethod) (attr term : string)
           (n : node) : list selres :=
  let by_attr (e : node) (x : node) : list selres :=
    match attr_of attr e with
    | Some v => keep_if inv m term v x
    | None => some_hit inv m term (attr_sem e) x
    end in
  match n with
  | NLeaf _ _ => keep_if inv m term n n
  | NSet _ els => flat_map (fun e => keep_if inv m term e e) els
  | NMap _ kvs =>
      if String.eqb attr "." then flat_map (fun kv => keep_if inv m term (fst kv) (snd kv)) kvs   (* key names, yielding values *)
      else match assoc_key (PStr attr) kvs with
           | Some v => keep_if inv m term v v
           | None => some_hit inv m term (attr_sem n) n
           end
  | NSeq _ els =>
      if negb tl then []
      else if String.eqb attr "." then
        (* elements by value; in an Array-of-Hashes a hash HAVING the key named
           by the term also matches (taken from the code: README is silent) *)
        let aoh := forallb (fun e => is_null_node e || is_map e) els in
        flat_map (fun e =>
          if aoh && match attr_of term e with Some _ => true | None => false end
          then verdict_of inv true e else keep_if inv m term e e) els
      else flat_map (fun e => by_attr e e) els
  end.

(* one segment [es] applied to n; [attr_sem] = meaning of its search attribute
   path, [last] = no segment follows, [k] = meaning of the rest of the path *)
Definition seg_sem (es : seg) (attr_sem : node -> list selres) (last : bool)
           (k : bool -> node -> list selres) (tl : bool) (n : node) : list selres :=
  let cont (s : selres) : list selres :=
    match s with
    | SNode c => k true c
    | SVirt _ => if last then [s] else [SOut]      (* segments applied to a slice result: not documented *)
    | SOut => [SOut]
    end in
  match es with
  | (Some TKey, AStr key) => flat_map cont (map SNode (sel_key tl key n))
  | (Some TIndex, AInt i) => flat_map cont (sel_index i n)
  | (Some TIndex, AStr s) => flat_map cont (sel_slice s n)
  | (Some TAnchor, AStr x) => flat_map cont (map SNode (sel_anchor x n))
  | (Some TSearch, ASearch inv m attr term) => flat_map cont (sel_search attr_sem tl inv m attr term n)
  | (Some TMatchAll, _) =>
      (* every immediate child; with a following segment, those on which it selects *)
      flat_map cont (map SNode (sel_children n))
  | (Some TTraverse, _) =>
      if last then map SNode (leaf_nodes n)
      else flat_map (k false) (desc_or_self n)       (* the filter applies without list pass-through *)
  | _ => [SOut]
  end.

Fixpoint sem_segs (sem_path : ppath -> bool -> node -> list selres) (l : list pseg) : bool -> node -> list selres :=
  match l with
  | [] => fun _ n => [SNode n]
  | PSeg es _ sub _ :: rest =>
      seg_sem es (sem_path sub true) (match rest with [] => true | _ => false end) (sem_segs sem_path rest)
  end.

Fixpoint sem_path (p : ppath) : bool -> node -> list selres :=
  match p with
  | PFail _ => fun _ _ => [SOut]
  | PPath segs =>
      (fix go (l : list pseg) : bool -> node -> list selres :=
         match l with
         | [] => fun _ n => [SNode n]
         | PSeg es _ sub _ :: rest =>
             seg_sem es (sem_path sub true) (match rest with [] => true | _ => false end) (go rest)
         end) segs
  end.

(* a query on a document; "Refusing to get nodes from a null document" *)
Definition sem_doc (p : ppath) (d : node) : list selres :=
  match d with
  | NLeaf _ PNone => []
  | _ => sem_path p true d
  end.

End Sem.

(* the C01 fragment of prepared paths: key, index, slice, anchor, search,
   `*`, `**` (not twice in a row: the parser's own refusal); no keyword
   segments, no collectors *)
Definition c01_seg (es us : seg) : bool :=
  (match es with
   | (Some TKey, AStr _) | (Some TAnchor, AStr _) | (Some TIndex, AInt _)
   | (Some TMatchAll, _) | (Some TTraverse, _) | (Some TSearch, ASearch _ _ _ _) => true
   | (Some TIndex, AStr s) => str_in ":"%char s
   | _ => false
   end) && negb (is_stype TCollector (fst us)).

Definition is_trav (ps : pseg) : bool := is_stype TTraverse (fst (seg_es ps)).
Fixpoint no_double_trav (l : list pseg) : bool :=
  match l with
  | a :: ((b :: _) as r) => negb (is_trav a && is_trav b) && no_double_trav r
  | _ => true
  end.

Fixpoint c01_segs (frag : ppath -> bool) (l : list pseg) : bool :=
  match l with
  | [] => true
  | PSeg es us s s2 :: r => c01_seg es us && frag s && frag s2 && c01_segs frag r
  end.

Fixpoint c01_frag (p : ppath) : bool :=
  match p with
  | PFail _ => true           (* its meaning is SOut: nothing is claimed *)
  | PPath segs =>
      no_double_trav segs &&
      (fix go (l : list pseg) : bool :=
         match l with
         | [] => true
         | PSeg es us s s2 :: r => c01_seg es us && c01_frag s && c01_frag s2 && go r
         end) segs
  end.
