(* C01 -- the documented meaning of one YAML Path segment on a document node
   (README "Supported YAML Path Segments"; DESIGN Appendix C), written
   independently of the evaluator: plain list functions over Doc.node.
   The path-level composition (sem (s :: p) = flat_map (sem p) . sel s, the
   look-ahead of * and **, descendant searches) is the reference the harness
   evaluates (harness/c01.py ref_sel / ref_sem); the Gallina part below is what
   the segment-level theorems of Properties/C01.v are stated against. *)
From Coq Require Import List Ascii String ZArith Bool Arith.
From YP Require Import Outcome PyStr PyVal Doc.
Import ListNotations.

(* zero-based element, negative from the end; nothing when out of range *)
Definition sel_element (els : list node) (i : Z) : list node :=
  let n := Z.of_nat (List.length els) in
  if ((- n <=? i)%Z && (i <? n)%Z)%bool then
    match nth_error els (Z.to_nat (if (i <? 0)%Z then (i + n)%Z else i)) with
    | Some e => [e]
    | None => []
    end
  else [].

(* `key` on a hash: the child under that key; `#` may name a numeric key *)
Definition sel_key_map (k : string) (kvs : list (node * node)) : list node :=
  match assoc_key (PStr k) kvs with
  | Some v => [v]
  | None =>
      match py_int k with
      | Some z => match assoc_key (PInt z) kvs with Some v => [v] | None => [] end
      | None => []
      end
  end.

(* `key` on a set: the member equal to it *)
Definition sel_key_set (k : string) (els : list node) : list node :=
  match find (fun e => match e with NLeaf _ v => py_eq v (PStr k) | _ => false end) els with
  | Some e => [e]
  | None => []
  end.

(* `*`: every immediate child *)
Definition sel_children (n : node) : list node :=
  match n with
  | NMap _ kvs => map snd kvs
  | NSeq _ els => els
  | NSet _ els => els
  | NLeaf _ _ => []
  end.

(* `&x` / `[&x]`: children whose anchor (key or value) is x, once per place *)
Definition has_anchor (x : string) (n : node) : bool :=
  has_anchor_attr (node_info n) &&
  match anchor (node_info n) with Some a => String.eqb x a | None => false end.
Definition sel_anchor (x : string) (n : node) : list node :=
  match n with
  | NMap _ kvs => map snd (filter (fun kv => has_anchor x (fst kv) || has_anchor x (snd kv)) kvs)
  | NSeq _ els => filter (has_anchor x) els
  | NSet _ els => filter (has_anchor x) els
  | NLeaf _ _ => []
  end.

(* `[a:b]` on a hash: the values whose key text lies between the terms *)
Definition key_text (k : node) : string := match k with NLeaf _ v => py_str v | _ => ""%string end.
Definition sel_hash_slice (lo hi : string) (kvs : list (node * node)) : list node :=
  map snd (filter (fun kv => str_leb lo (key_text (fst kv)) && str_leb (key_text (fst kv)) hi) kvs).
