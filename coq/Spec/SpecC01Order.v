(* C01 -- "in document order, each once": the order of locations.  No proofs.

   [ref_pos n r]       the position of the child that reference r names among
                       the children of n (pairs of a mapping, elements of a
                       sequence, members of a set, in document order);
   [loc_before d a b]  location a comes before location b in the document d AND
                       neither is above the other: at the first step where the
                       two ways from d part, a takes the earlier child.  A list of
                       results whose locations are pairwise [loc_before] (each
                       before all later ones) is in document order, names every
                       node at most once, and never a node together with one of
                       its descendants.
   [trav_only_last]    the sub-fragment: `**` only as the last segment (a `**`
                       followed by another segment gathers a node twice or
                       against document order: C04_end_to_end_dup_and_disorder). *)
From Coq Require Import List Ascii String ZArith Bool Arith.
From YP Require Import Outcome PyStr PyVal Doc PathParser Eval C04spec SpecC01 SpecC02.
Import ListNotations.

Definition ref_pos (n : node) (r : ref) : option nat :=
  match n, r with
  | NMap _ kvs, RKey k => first_idx (fun kv => leaf_eq k (fst kv)) kvs
  | NSeq _ els, RIdx i => if i <? List.length els then Some i else None
  | NSet _ els, RMember k => first_idx (leaf_eq k) els
  | _, _ => None
  end.

Fixpoint loc_before (n : node) (a b : loc) : bool :=
  match a, b with
  | r1 :: t1, r2 :: t2 =>
      match ref_pos n r1, ref_pos n r2 with
      | Some i, Some j =>
          if i <? j then true
          else if i =? j then match child n r1 with Some c => loc_before c t1 t2 | None => false end
          else false
      | _, _ => false
      end
  | _, _ => false
  end.

(* the location a NodeCoords designates, read off its ancestry *)
Definition res_locn (x : rval) : loc :=
  match x with RCoords _ _ _ _ anc => anc_loc anc | _ => [] end.

Fixpoint trav_only_last (l : list pseg) : bool :=
  match l with
  | [] => true
  | a :: r => match r with [] => true | _ => negb (is_trav a) && trav_only_last r end
  end.
