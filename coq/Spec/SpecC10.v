(* C10 -- declarative vocabulary for "anchor conflicts follow the chosen policy".
   Nothing here mentions dictionaries, walks or loops of the code. *)
From Coq Require Import List Ascii String ZArith NArith Bool.
From YP Require Import Outcome PyStr PyVal Doc MergeConfig.
Import ListNotations.
Open Scope string_scope.
Open Scope list_scope.

(* the anchor name a node carries *)
Definition c10_name (n : node) : option string :=
  if has_anchor_attr (node_info n) then anchor (node_info n) else None.

(* The scalar places of a document: hash keys, and the Scalars found as hash
   values and array elements at any depth (set members are not places of
   anchors in this property, see docs/C10.md). *)
Fixpoint places (d : node) : list node :=
  match d with
  | NMap _ kvs => flat_map (fun kv => fst kv :: match snd kv with
                                                | NLeaf _ _ => [snd kv]
                                                | _ => places (snd kv)
                                                end) kvs
  | NSeq _ els => flat_map (fun e => match e with NLeaf _ _ => [e] | _ => places e end) els
  | _ => []
  end.

(* the places that carry the name [a]: its definition and its aliases *)
Definition uses (a : string) (d : node) : list node :=
  filter (fun n => match c10_name n with Some b => String.eqb b a | None => false end) (places d).

(* "every alias of that name reads x": every use of the name IS the node x
   (same object, same value) *)
Definition all_read (a : string) (x : node) (d : node) : Prop :=
  forall n, In n (uses a d) -> n = x.

(* The invariant the serializer needs: one object per anchor name (no
   duplicate anchor: a second object of the same name would be written as a
   second definition; no undefined alias: an alias is a further place of the
   SAME object, whose first place is written as the definition). *)
Definition one_object_per_name (d : node) : Prop :=
  forall n m a, In n (places d) -> In m (places d) ->
    c10_name n = Some a -> c10_name m = Some a -> node_oid n = node_oid m.

(* two anchored Scalars hold the same value: equal data of the same YAML type *)
Definition same_value (x y : node) : Prop :=
  match x, y with
  | NLeaf ix vx, NLeaf iy vy => py_eq vx vy = true /\ tag ix = tag iy
  | _, _ => False
  end.

(* The structural side conditions of the theorems (computable): no hash key
   carries an anchor ... *)
Fixpoint keys_plain (d : node) : bool :=
  match d with
  | NMap _ kvs =>
      forallb (fun kv => match c10_name (fst kv) with None => true | Some _ => false end && keys_plain (snd kv)) kvs
  | NSeq _ els => forallb keys_plain els
  | _ => true
  end.

(* the document a replacement policy defines: every hash value / array element
   carrying the name is the given node *)
Fixpoint subst_named (name : string) (repl : node) (d : node) : node :=
  let hit n := match c10_name n with Some b => String.eqb b name | None => false end in
  match d with
  | NMap i kvs =>
      NMap i (map (fun kv => (fst kv, if hit (snd kv) then repl else subst_named name repl (snd kv))) kvs)
  | NSeq i els => NSeq i (map (fun e => if hit e then repl else subst_named name repl e) els)
  | _ => d
  end.

(* ---- well-formed inputs (round 3: C10_unique_names, C10_rename) ---- *)
(* every node of the tree, the root included *)
Fixpoint an_all (d : node) : list node :=
  d :: match d with
       | NMap _ kvs => flat_map (fun kv => an_all (fst kv) ++ an_all (snd kv)) kvs
       | NSeq _ els => flat_map an_all els
       | NSet _ els => flat_map an_all els
       | NLeaf _ _ => []
       end.

(* the tree is a faithful picture of a heap: one identity, one object *)
Definition an_heap_ok (d : node) : Prop :=
  forall n m, In n (an_all d) -> In m (an_all d) -> node_oid n = node_oid m -> n = m.

(* anchors sit on Scalars (computable): no Hash / Array / Set carries an
   anchor name, keys are Scalars *)
Definition an_noname (n : node) : bool := match c10_name n with None => true | Some _ => false end.
Fixpoint an_scalars_only (d : node) : bool :=
  match d with
  | NLeaf _ _ => true
  | NMap _ kvs => an_noname d && forallb (fun kv => is_leaf (fst kv) && an_scalars_only (snd kv)) kvs
  | NSeq _ els => an_noname d && forallb an_scalars_only els
  | NSet _ _ => an_noname d
  end.

(* a document of the property's quantifier: a container whose anchors sit on
   Scalars that are hash values or array elements *)
Definition an_doc_ok (d : node) : bool := negb (is_leaf d) && keys_plain d && an_scalars_only d.

(* one anchored object per name (a loaded document may re-define a name:
   `[&x 1, &x 2]`; such inputs are outside the statement) *)
Definition one_node_per_name (d : node) : Prop :=
  forall n m a, In n (places d) -> In m (places d) -> c10_name n = Some a -> c10_name m = Some a -> n = m.

(* ... across the two documents handed to the merge proper *)
Definition an_pair_unique (l r : node) : Prop :=
  forall n m a, In n (places l ++ places r) -> In m (places l ++ places r) ->
    c10_name n = Some a -> c10_name m = Some a -> n = m.

(* the node with its anchor renamed *)
Definition an_with_name (nn : string) (n : node) : node :=
  let upd i := mkinfo (oid i) (Some nn) (has_anchor_attr i) (tag i) in
  match n with
  | NLeaf i v => NLeaf (upd i) v
  | NMap i kvs => NMap (upd i) kvs
  | NSeq i els => NSeq (upd i) els
  | NSet i els => NSet (upd i) els
  end.

(* ---- round 4: statements about the FINAL merged document, and computable guards ---- *)
(* A document of the property's quantifier, set members included (computable; implies
   an_doc_ok): no container, hash key or set member carries an anchor name; keys and set
   members are Scalars.  Anchored nodes are then exactly Scalars that are hash values or
   array elements (the places). *)
Fixpoint an_tidy (d : node) : bool :=
  match d with
  | NLeaf _ _ => true
  | NMap _ kvs =>
      an_noname d && forallb (fun kv => is_leaf (fst kv) && an_noname (fst kv) && an_tidy (snd kv)) kvs
  | NSeq _ els => an_noname d && forallb an_tidy els
  | NSet _ els => an_noname d && forallb (fun e => is_leaf e && an_noname e) els
  end.
Definition an_doc_tidy (d : node) : bool := negb (is_leaf d) && an_tidy d.

(* every Scalar of the document (key, value, element, set member, a scalar root) that carries
   the name a IS the node x *)
Definition all_scalars_read (a : string) (x : node) (d : node) : Prop :=
  forall p, In p (an_all d) -> is_leaf p = true -> c10_name p = Some a -> p = x.

(* no Scalar of the document carries the name a *)
Definition no_scalar_named (a : string) (d : node) : Prop :=
  forall p, In p (an_all d) -> is_leaf p = true -> c10_name p <> Some a.

(* one anchored Scalar per name in the whole document *)
Definition an_doc_unique (d : node) : Prop :=
  forall n k a, In n (an_all d) -> In k (an_all d) -> is_leaf n = true -> is_leaf k = true ->
    c10_name n = Some a -> c10_name k = Some a -> n = k.

(* structural equality of trees, computable *)
Definition c10_opt_eqb (a b : option string) : bool :=
  match a, b with
  | None, None => true
  | Some x, Some y => String.eqb x y
  | _, _ => false
  end.
Definition c10_info_eqb (a b : info) : bool :=
  N.eqb (oid a) (oid b) && c10_opt_eqb (anchor a) (anchor b) &&
  Bool.eqb (has_anchor_attr a) (has_anchor_attr b) && c10_opt_eqb (tag a) (tag b).
Definition c10_pyval_eqb (a b : pyval) : bool :=
  match a, b with
  | PNone, PNone => true
  | PBool x, PBool y => Bool.eqb x y
  | PInt x, PInt y => Z.eqb x y
  | PFloat q r, PFloat q' r' =>
      Z.eqb (QArith_base.Qnum q) (QArith_base.Qnum q') && Pos.eqb (QArith_base.Qden q) (QArith_base.Qden q') &&
      String.eqb r r'
  | PStr x, PStr y => String.eqb x y
  | POther x, POther y => String.eqb x y
  | _, _ => false
  end.
Fixpoint c10_node_eqb (a b : node) {struct a} : bool :=
  match a, b with
  | NLeaf i v, NLeaf j w => c10_info_eqb i j && c10_pyval_eqb v w
  | NMap i ka, NMap j kb =>
      c10_info_eqb i j &&
      (fix go (l m : list (node * node)) : bool :=
         match l, m with
         | [], [] => true
         | (k, v) :: l', (k', v') :: m' => c10_node_eqb k k' && c10_node_eqb v v' && go l' m'
         | _, _ => false
         end) ka kb
  | NSeq i ea, NSeq j eb =>
      c10_info_eqb i j &&
      (fix go (l m : list node) : bool :=
         match l, m with
         | [], [] => true
         | x :: l', y :: m' => c10_node_eqb x y && go l' m'
         | _, _ => false
         end) ea eb
  | NSet i ea, NSet j eb =>
      c10_info_eqb i j &&
      (fix go (l m : list node) : bool :=
         match l, m with
         | [], [] => true
         | x :: l', y :: m' => c10_node_eqb x y && go l' m'
         | _, _ => false
         end) ea eb
  | _, _ => false
  end.

(* the boolean form of one_node_per_name ... *)
Definition c10_named_same (n m : node) : bool :=
  match c10_name n, c10_name m with
  | Some a, Some b => negb (String.eqb a b) || c10_node_eqb n m
  | _, _ => true
  end.
Definition one_node_per_name_b (d : node) : bool :=
  forallb (fun n => forallb (c10_named_same n) (places d)) (places d).

(* ... and of an_heap_ok *)
Definition c10_oid_same (n m : node) : bool :=
  negb (N.eqb (node_oid n) (node_oid m)) || c10_node_eqb n m.
Definition an_heap_ok_b (d : node) : bool :=
  forallb (fun n => forallb (c10_oid_same n) (an_all d)) (an_all d).

(* the guard of the rename / unique-names theorems, one computable test per pair *)
Definition c10_pair_guard (l r : node) : bool :=
  an_doc_tidy l && an_doc_tidy r && one_node_per_name_b l && one_node_per_name_b r && an_heap_ok_b r.
