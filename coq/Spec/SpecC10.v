(* C10 -- declarative vocabulary for "anchor conflicts follow the chosen policy".
   Nothing here mentions dictionaries, walks or loops of the code. *)
From Coq Require Import List Ascii String ZArith NArith Bool.
From YP Require Import Outcome PyStr PyVal Doc MergeConfig.
Import ListNotations.
Open Scope string_scope.
Open Scope list_scope.

(* the anchor name a node carries *)
Definition c10_name (n : node) : option string :=
  if has_anchor_attr (node_info n) then anchor (node_info n) else None.

(* The scalar places of a document: hash keys, and the Scalars found as hash
   values and array elements at any depth (set members are not places of
   anchors in this property, see docs/C10.md). *)
Fixpoint places (d : node) : list node :=
  match d with
  | NMap _ kvs => flat_map (fun kv => fst kv :: match snd kv with
                                                | NLeaf _ _ => [snd kv]
                                                | _ => places (snd kv)
                                                end) kvs
  | NSeq _ els => flat_map (fun e => match e with NLeaf _ _ => [e] | _ => places e end) els
  | _ => []
  end.

(* the places that carry the name [a]: its definition and its aliases *)
Definition uses (a : string) (d : node) : list node :=
  filter (fun n => match c10_name n with Some b => String.eqb b a | None => false end) (places d).

(* "every alias of that name reads x": every use of the name IS the node x
   (same object, same value) *)
Definition all_read (a : string) (x : node) (d : node) : Prop :=
  forall n, In n (uses a d) -> n = x.

(* The invariant the serializer needs: one object per anchor name (no
   duplicate anchor: a second object of the same name would be written as a
   second definition; no undefined alias: an alias is a further place of the
   SAME object, whose first place is written as the definition). *)
Definition one_object_per_name (d : node) : Prop :=
  forall n m a, In n (places d) -> In m (places d) ->
    c10_name n = Some a -> c10_name m = Some a -> node_oid n = node_oid m.

(* two anchored Scalars hold the same value: equal data of the same YAML type *)
Definition same_value (x y : node) : Prop :=
  match x, y with
  | NLeaf ix vx, NLeaf iy vy => py_eq vx vy = true /\ tag ix = tag iy
  | _, _ => False
  end.

(* The structural side conditions of the theorems (computable): no hash key
   carries an anchor ... *)
Fixpoint keys_plain (d : node) : bool :=
  match d with
  | NMap _ kvs =>
      forallb (fun kv => match c10_name (fst kv) with None => true | Some _ => false end && keys_plain (snd kv)) kvs
  | NSeq _ els => forallb keys_plain els
  | _ => true
  end.

(* the document a replacement policy defines: every hash value / array element
   carrying the name is the given node *)
Fixpoint subst_named (name : string) (repl : node) (d : node) : node :=
  let hit n := match c10_name n with Some b => String.eqb b name | None => false end in
  match d with
  | NMap i kvs =>
      NMap i (map (fun kv => (fst kv, if hit (snd kv) then repl else subst_named name repl (snd kv))) kvs)
  | NSeq i els => NSeq i (map (fun e => if hit e then repl else subst_named name repl e) els)
  | _ => d
  end.
