(* C03 (histories) - the PLAIN-DATA model the edit histories are compared with.

   Plain data = Doc.data = the document with identities, anchors and tags
   erased (Doc.erase).  The plain-data model knows nothing about objects: an
   edit addresses LOCATIONS.  A set of locations is given as a [mask]: a tree
   that lists, child by child in order, whether that child is selected and the
   selection below it (a trie of child positions; children beyond the listed
   ones are not selected).

     dsubst m v x   the data x with every selected child replaced by v
     drekey m k x   the data x with the KEY of every selected mapping entry replaced by k (entries keep place and value)
     dprune m x     the data x without the selected children (order of the rest kept)
     dembeds x x'   x' is x with children appended to some containers (a null may have become a container), nothing else changed

   The abstraction functions [mask_subst] / [mask_prune] compute, from the
   document WITH identities, which locations an identity-based edit designates:
   the matched position and the positions of the true aliases (C03spec.designated),
   resp. the gathered children (C04spec.targets). *)
From Coq Require Import List ZArith NArith Bool.
From YP Require Import Outcome PyStr PyVal Doc C03spec C04spec.
Import ListNotations.

Inductive mask := MNode (sel : list (bool * mask)).
Definition msel (m : mask) : list (bool * mask) := match m with MNode s => s end.

Section Zip.
  Context {A B C : Type} (f : A -> B -> list C) (g : B -> list C).
  Fixpoint zipflat (la : list A) (lb : list B) : list C :=
    match lb with
    | [] => []
    | b :: rb =>
        match la with
        | [] => g b ++ zipflat [] rb
        | a :: ra => f a b ++ zipflat ra rb
        end
    end.
End Zip.

(* replace the selected children by v *)
Fixpoint dsubst (m : mask) (v : data) (x : data) {struct x} : data :=
  match x with
  | DLeaf _ => x
  | DMap kvs =>
      DMap (zipflat (fun (sm : bool * mask) (kv : pyval * data) =>
                       [(fst kv, if fst sm then v else dsubst (snd sm) v (snd kv))])
                    (fun kv => [kv]) (msel m) kvs)
  | DSeq els =>
      DSeq (zipflat (fun (sm : bool * mask) (e : data) => [if fst sm then v else dsubst (snd sm) v e])
                    (fun e => [e]) (msel m) els)
  | DSet _ => x
  end.

(* replace the KEYS of the selected mapping entries by k (an alias of the changed node used as a key) *)
Fixpoint drekey (m : mask) (k : pyval) (x : data) {struct x} : data :=
  match x with
  | DLeaf _ => x
  | DMap kvs =>
      DMap (zipflat (fun (sm : bool * mask) (kv : pyval * data) =>
                       [(if fst sm then k else fst kv, drekey (snd sm) k (snd kv))])
                    (fun kv => [kv]) (msel m) kvs)
  | DSeq els =>
      DSeq (zipflat (fun (sm : bool * mask) (e : data) => [drekey (snd sm) k e]) (fun e => [e]) (msel m) els)
  | DSet _ => x
  end.

(* remove the selected children *)
Fixpoint dprune (m : mask) (x : data) {struct x} : data :=
  match x with
  | DLeaf _ => x
  | DMap kvs =>
      DMap (zipflat (fun (sm : bool * mask) (kv : pyval * data) =>
                       if fst sm then [] else [(fst kv, dprune (snd sm) (snd kv))])
                    (fun kv => [kv]) (msel m) kvs)
  | DSeq els =>
      DSeq (zipflat (fun (sm : bool * mask) (e : data) => if fst sm then [] else [dprune (snd sm) e])
                    (fun e => [e]) (msel m) els)
  | DSet els =>
      DSet (zipflat (fun (sm : bool * mask) (e : pyval) => if fst sm then [] else [e]) (fun e => [e]) (msel m) els)
  end.

(* children appended, nothing else changed *)
Inductive dembeds : data -> data -> Prop :=
  | demb_leaf : forall v, dembeds (DLeaf v) (DLeaf v)
  | demb_map : forall kvs kvs' new,
      Forall2 (fun kv kv' => fst kv' = fst kv /\ dembeds (snd kv) (snd kv')) kvs kvs' ->
      dembeds (DMap kvs) (DMap (kvs' ++ new))
  | demb_seq : forall els els' new, Forall2 dembeds els els' -> dembeds (DSeq els) (DSeq (els' ++ new))
  | demb_set : forall els new, dembeds (DSet els) (DSet (els ++ new))
  (* a null is "no value yet": the creation of a tail beneath it puts the container holding the tail in
     its place (fix 09e1e7a; C09_create_frame says where: at the end of the path's existing prefix) *)
  | demb_null : forall x, (match x with DLeaf _ => False | _ => True end) -> dembeds (DLeaf PNone) x.

(* ---- abstraction: which locations does an identity-based edit designate ---- *)
Fixpoint mask_subst (P : N -> cref -> node -> bool) (d : node) : mask :=
  match d with
  | NLeaf _ _ => MNode []
  | NMap i kvs => MNode (map (fun kv => (P (oid i) (CKey (fst kv)) (snd kv), mask_subst P (snd kv))) kvs)
  | NSeq i els => MNode (imap (fun idx x => (P (oid i) (CIdx idx) x, mask_subst P x)) 0 els)
  | NSet _ _ => MNode []
  end.

(* the mapping entries whose KEY is designated *)
Fixpoint mask_keys (K : node -> bool) (d : node) : mask :=
  match d with
  | NLeaf _ _ => MNode []
  | NMap _ kvs => MNode (map (fun kv => (K (fst kv), mask_keys K (snd kv))) kvs)
  | NSeq _ els => MNode (map (fun x => (false, mask_keys K x)) els)
  | NSet _ _ => MNode []
  end.

Fixpoint mask_prune (T : N -> nat -> bool) (d : node) : mask :=
  match d with
  | NLeaf _ _ => MNode []
  | NMap i kvs => MNode (imap (fun k kv => (T (oid i) k, mask_prune T (snd kv))) 0 kvs)
  | NSeq i els => MNode (imap (fun k x => (T (oid i) k, mask_prune T x)) 0 els)
  | NSet i els => MNode (imap (fun k (_ : node) => (T (oid i) k, MNode [])) 0 els)
  end.

(* ---- the plain-data edit operations and their runs ---- *)
Inductive pop :=
  | PReplace (m : mask) (v : data)     (* set: the selected locations now hold v *)
  | PRekey (m : mask) (k : pyval)      (* set: the selected mapping entries are now filed under the key k *)
  | PRemove (m : mask)                 (* delete: the selected children are gone *)
  | PExtend.                           (* create: containers gained children, a null became a container (dembeds); followed by a PReplace *)

Inductive pstep : pop -> data -> data -> Prop :=
  | ps_replace : forall m v x, pstep (PReplace m v) x (dsubst m v x)
  | ps_rekey : forall m k x, pstep (PRekey m k) x (drekey m k x)
  | ps_remove : forall m x, pstep (PRemove m) x (dprune m x)
  | ps_extend : forall x x', dembeds x x' -> pstep PExtend x x'.

Inductive psteps : list pop -> data -> data -> Prop :=
  | pss_nil : forall x, psteps [] x x
  | pss_cons : forall p ps x y z, pstep p x y -> psteps ps y z -> psteps (p :: ps) x z.

(* ======== guards and abstraction of a model history (computable, along the model's own run) ======== *)
From Coq Require String.
From YP Require Import Searches Mutate Create History.

Section HistSpec.
Variable lit : String.string -> outcome litres.
Variable fl : String.string -> outcome flres.

(* set_value's first lines: the identity of the caller's value object *)
Definition sv_start (vo : option N) (st : state) : N * state :=
  match vo with
  | Some o => (o, st)
  | None => (snd st, (fst st, N.succ (snd st)))
  end.

(* the node one change addresses: parent object, normalised reference, the node there *)
Definition act_target (a : action) (st : state) : option (N * pyval * node) :=
  match pc_parent (a_pc a) with
  | Some o =>
      match find_obj o (fst st) with
      | Some pn =>
          let r := norm_ref pn (pc_ref (a_pc a)) in
          match get_change pn r with
          | ROk (Some c) => Some (o, r, c)
          | _ => None
          end
      | None => None
      end
  | None => None
  end.

(* GUARD of one change = the hypotheses of C03_set_exact: a plain change (not a
   [name()] key rename) that addresses a node of the document which is not
   also a set member; the mappings of the document have pairwise different keys
   (true of every loaded document).  A matched node that is also used as a
   mapping KEY is inside the guard since fix 7612ed9 (formerly excluded: known
   finding F24). *)
Definition act_ok (a : action) (st : state) : bool :=
  negb (a_name a) && mkeys_distinct (fst st) &&
  match act_target a st with
  | Some (o, _, c) => alias_clean o (node_oid c) (fst st)
  | None => false
  end.

Fixpoint acts_ok (value : pyval) (vo : N) (acts : list action) (st : state) : bool :=
  match acts with
  | [] => true
  | a :: r =>
      act_ok a st &&
      match apply_action lit fl value vo a st with
      | ROk st' => acts_ok value vo r st'
      | RErr _ => true
      end
  end.

(* the plain-data operations a list of changes amounts to *)
Fixpoint abs_actions (value : pyval) (vo : N) (acts : list action) (st : state) : list pop :=
  match acts with
  | [] => []
  | a :: r =>
      match act_target a st with
      | Some (o, rf, c) =>
          match make_new_node lit fl (Some (node_info c)) value (a_fmt a) (snd st) vo with
          | ROk new =>
              PReplace (mask_subst (designated o rf (node_oid c)) (fst st)) (erase new) ::
              PRekey (mask_keys (kdesignated (node_oid c)) (subst (designated o rf (node_oid c)) new (fst st)))
                     (match new with NLeaf _ v => v | _ => PNone end) ::
              match apply_action lit fl value vo a st with
              | ROk st' => abs_actions value vo r st'
              | RErr _ => []
              end
          | RErr _ => []
          end
      | None => []
      end
  end.

Definition pairs_of (cs : list coord) : list (option N * pyval) :=
  map (fun p => (pc_parent p, pc_ref p)) (leaf_coords cs).

Definition create_walk (segs : list seg) (value : pyval) (vo : option N) (d : node) :=
  let s := sv_start vo (init_state d) in
  (fst s, walk lit segs d (mkpc None PNone) d (snd (snd s)) (fst s) value).

(* GUARD of one operation: the invariants (ruamel containers carry the anchor
   attribute; every container object is held once) hold of the document the
   operation starts from, and the operation stays inside the proved fragment
   (C03_set_exact's hypotheses for every change; the coordinates of a delete each
   locate a node - no condition on their number or order since fix 17f9ea8) *)
Definition op_ok (op : hop) (d : node) : bool :=
  wf_attr d &&
  match op with
  | HSet cs v f vo =>
      let s := sv_start vo (init_state d) in
      acts_ok v (fst s) (flat_map (set_actions f) cs) (snd s)
  | HDelete cs => wf_docb d && del_all_located d (pairs_of cs)
  | HCreate segs v f vo =>
      wf_docb d &&
      match create_walk segs v vo d with
      | (vo', ROk (d1, pc, next1)) => wf_attr d1 && acts_ok v vo' [mkact pc false f] (d1, next1)
      | (_, RErr _) => true
      end
  end.

Definition abs_op (op : hop) (d : node) : list pop :=
  match op with
  | HSet cs v f vo =>
      let s := sv_start vo (init_state d) in
      abs_actions v (fst s) (flat_map (set_actions f) cs) (snd s)
  | HDelete cs => [PRemove (mask_prune (inT (targets d (pairs_of cs))) d)]
  | HCreate segs v f vo =>
      match create_walk segs v vo d with
      | (vo', ROk (d1, pc, next1)) => PExtend :: abs_actions v vo' [mkact pc false f] (d1, next1)
      | (_, RErr _) => []
      end
  end.

Fixpoint hist_ok (ops : list hop) (d : node) : bool :=
  match ops with
  | [] => true
  | op :: r =>
      op_ok op d &&
      match run_op lit fl op d with
      | MDone d' => hist_ok r d'
      | Failed _ _ => true
      end
  end.

Fixpoint abs_ops (ops : list hop) (d : node) : list pop :=
  match ops with
  | [] => []
  | op :: r =>
      abs_op op d ++
      match run_op lit fl op d with
      | MDone d' => abs_ops r d'
      | Failed _ _ => []
      end
  end.
End HistSpec.
