(* C08 -- specification: the DOCUMENTED writer of YAML Path text and the
   well-formedness of segment sequences.

   Source of every clause: README.md "Supported YAML Path Segments".
     key                      hash.child.key   /hash/child/key
     escapes                  hash.dotted\.child\.key  /hash/whacked\/child\/key  keys_with_\\slashes
                              (escape_path_section's docstring lists the symbols:
                               back-slash, separator, parentheses, brackets, ^ $ %, space, both quotes)
     demarcation              hash.'dotted.child.key'   hash."dotted.child.key"
     element / slice          [#]  array[#]  array[start#:stop#]  hash[min:max]
     anchor                   &anchor_name (top level)   array[&anchor_name]
     search                   hash[name=admin] ^ $ % < > <= >= =~/re/ (any delimiter but white-space)
     inversion                hash[name!=admin]  or  hash[!name=admin]
     operand demarcation      hash[full\ name="Some User\'s Name"] (back-slashed blank, quoted term)
     wildcards                *   **
     keywords                 [KEYWORD(PARAMETERS)]   (inversion: [!KEYWORD(...)])
     collectors               (YAML Path)  with + - & between collectors, nesting allowed

   This file is independent of the printer model (PathPrinter.v): it does not
   use ensure_escaped, the generated symbol tables or the enums' str(). *)
From Coq Require Import List Ascii String ZArith Bool Arith.
From YP Require Import Outcome PyStr PathParser.
Import ListNotations.
Open Scope string_scope.
Open Scope nat_scope.

Inductive quote := SQ | DQ.
Definition qchar (q : quote) : ascii := match q with SQ => "'"%char | DQ => """"%char end.

(* The writer's free choices, per segment (fields a segment kind does not use
   are ignored). *)
Record style := mkstyle {
  st_quote : option quote;   (* KEY: quote demarcation; SEARCH: demarcation of the term *)
  st_bracket : bool;         (* ANCHOR: [&name] instead of &name *)
  st_prefix : bool;          (* SEARCH: inversion as [!attr OP term] instead of [attr!OP term] *)
  st_delim : ascii;          (* SEARCH by =~ : the delimiter *)
  st_nest : bool             (* SEARCH, quote-demarcated term: the OTHER quote character is written
                                bare, in pairs (a nested demarcation: [b="'x'"]) *)
}.
Definition plain_style : style := mkstyle None false false "/"%char false.
Definition sseg : Type := (seg * style)%type.

(* back-slash every occurrence of a special symbol, left to right *)
Fixpoint esc_with (specials : list ascii) (s : string) : string :=
  match s with
  | EmptyString => EmptyString
  | String c r =>
      if mem_ascii c specials then String "\"%char (String c (esc_with specials r))
      else String c (esc_with specials r)
  end.

Definition key_specials (sepc : ascii) : list ascii :=
  ["\"; sepc; "("; ")"; "["; "]"; "^"; "$"; "%"; " "; "'"; """"]%char.
(* inside a quote pair only these need the back-slash *)
Definition quoted_specials : list ascii :=
  ["\"; "'"; """"; "("; ")"; "["; "]"]%char.
(* attribute and term of a search expression: the key symbols (a separator has
   no meaning inside [...]) and the operator symbols *)
Definition operand_specials : list ascii :=
  ["\"; "("; ")"; "["; "]"; "^"; "$"; "%"; " "; "'"; """"; "="; "!"; ">"; "<"; "~"]%char.
(* README: embedded, SINGLE quote characters must be escaped lest they be
   deemed unmatched demarcation pairings -- inside a quote pair the OTHER
   quote character opens a nested pair; written in pairs it needs no
   back-slash *)
Definition other_quote (q : quote) : quote := match q with SQ => DQ | DQ => SQ end.
Definition nest_specials (q : quote) : list ascii :=
  ["\"; qchar q; "("; ")"; "["; "]"]%char.
(* what the writer back-slashes in the term of a search *)
Definition term_specials (st : style) : list ascii :=
  match st_quote st with
  | None => operand_specials
  | Some q => if st_nest st then nest_specials q else quoted_specials
  end.
Definition param_specials : list ascii :=
  ["\"; "("; ")"; "["; "]"; " "; "'"; """"]%char.

Definition op_text (m : smethod) : string :=
  match m with
  | MContains => "%" | MEndsWith => "$" | MEquals => "=" | MStartsWith => "^"
  | MGt => ">" | MLt => "<" | MGe => ">=" | MLe => "<=" | MRegex => "=~"
  end.
Definition kw_text (k : keyword) : string :=
  match k with
  | KDistinct => "distinct" | KHasChild => "has_child" | KName => "name" | KMax => "max"
  | KMin => "min" | KParent => "parent" | KUnique => "unique"
  end.
Definition cop_text (c : cop) : string :=
  match c with CNone => "" | CAdd => "+" | CSub => "-" | CAnd => "&" end.

Definition c1 (c : ascii) : string := String c EmptyString.

(* does the segment need a separator before it (when it is not the first)? *)
Definition needs_sep (x : sseg) : bool :=
  match x with
  | ((Some TKey, _), _) => true
  | ((Some TAnchor, _), st) => negb (st_bracket st)
  | ((Some TMatchAll, _), _) => true
  | ((Some TTraverse, _), _) => true
  | _ => false
  end.

Definition body (sepc : ascii) (x : sseg) : string :=
  let '(sg, st) := x in
  match sg with
  | (Some TKey, AStr k) =>
      match st_quote st with
      | None => esc_with (key_specials sepc) k
      | Some q => c1 (qchar q) ++ esc_with quoted_specials k ++ c1 (qchar q)
      end
  | (Some TIndex, AInt z) => "[" ++ str_of_Z z ++ "]"
  | (Some TIndex, AStr slice) => "[" ++ slice ++ "]"
  | (Some TAnchor, AStr n) => if st_bracket st then "[&" ++ n ++ "]" else "&" ++ n
  | (Some TMatchAll, ANone) => "*"
  | (Some TTraverse, ANone) => "**"
  | (Some TSearch, ASearch inv m attr term) =>
      "[" ++ (if inv && st_prefix st then "!" else "")
          ++ esc_with operand_specials attr
          ++ (if inv && negb (st_prefix st) then "!" else "")
          ++ op_text m
          ++ match m with
             | MRegex => c1 (st_delim st) ++ term ++ c1 (st_delim st)
             | _ => match st_quote st with
                    | None => esc_with (term_specials st) term
                    | Some q => c1 (qchar q) ++ esc_with (term_specials st) term ++ c1 (qchar q)
                    end
             end
          ++ "]"
  | (Some TKeywordSearch, AKeyword inv k params) =>
      "[" ++ (if inv then "!" else "") ++ kw_text k ++ "(" ++ esc_with param_specials params ++ ")]"
  | (Some TCollector, ACollector op expr) => cop_text op ++ "(" ++ expr ++ ")"
  | _ => ""
  end.

Fixpoint render_go (sepc : ascii) (first : bool) (l : list sseg) : string :=
  match l with
  | [] => ""
  | x :: r =>
      (if needs_sep x && negb first then c1 sepc else "") ++ body sepc x ++ render_go sepc false r
  end.

(* the documented writer *)
Definition render_ref (sp : sep) (l : list sseg) : string :=
  (match sp with Slash => "/" | Dot => "" end) ++ render_go (sep_char sp) true l.

(* ---------------------------------------------------------------------- *)
(* Well-formedness.  Every clause names what the notation cannot express.  *)

Definition first_not_in (bad : list ascii) (s : string) : bool :=
  match s with EmptyString => true | String c _ => negb (mem_ascii c bad) end.

Fixpoint all_chars (p : ascii -> bool) (s : string) : bool :=
  match s with EmptyString => true | String c r => p c && all_chars p r end.

Definition is_alnum (c : ascii) : bool :=
  let n := nat_of_ascii c in
  ((48 <=? n) && (n <=? 57)) || ((65 <=? n) && (n <=? 90)) || ((97 <=? n) && (n <=? 122)).
Definition is_word (c : ascii) : bool := is_alnum c || Ascii.eqb c "_"%char.
Definition is_name_char (c : ascii) : bool := is_word c || Ascii.eqb c "-"%char.
Definition is_slice_char (c : ascii) : bool := is_name_char c || Ascii.eqb c ":"%char.

(* a term that starts and ends with the same quote character.  The parser
   used to strip such a term even when its quotes were escaped, and
   SearchTerms.__str__ wrote it without escaping the quotes (finding F21, both
   halves repaired): no guard uses it any more; the proofs use it to say when
   the parser's undemarcation is the identity *)
Definition quote_wrapped (s : string) : bool :=
  match first_char s, last_char s with
  | Some a, Some b => (Ascii.eqb a "'"%char || Ascii.eqb a """"%char) && Ascii.eqb a b
  | _, _ => false
  end.

(* the occurrences of [c] pair up (a nested demarcation is closed again) *)
Fixpoint pairs_close (c : ascii) (open : bool) (s : string) : bool :=
  match s with
  | EmptyString => negb open
  | String d r => pairs_close c (if Ascii.eqb d c then negb open else open) r
  end.

(* inner expression of a collector: opaque text whose parentheses balance;
   no back-slash, blank, quote or bracket (they are consumed or tracked by the
   outer parse), and not starting with the anchor mark *)
Fixpoint balanced (depth : nat) (s : string) : bool :=
  match s with
  | EmptyString => depth =? 0
  | String c r =>
      if Ascii.eqb c "("%char then balanced (S depth) r
      else if Ascii.eqb c ")"%char then
        match depth with O => false | S d => balanced d r end
      else balanced depth r
  end.
Definition expr_char_ok (c : ascii) : bool :=
  negb (mem_ascii c ["\"; " "; "'"; """"; "["; "]"]%char).
Definition wf_expr (e : string) : bool :=
  nonempty e && balanced 0 e && all_chars expr_char_ok e && first_not_in ["&"%char] e.

(* after a collector the parser is looking for a collector operator *)
Definition after_coll_bad : list ascii := ["+"; "-"; "&"]%char.

Definition wf_seg (prev_coll : bool) (x : sseg) : bool :=
  let '(sg, st) := x in
  match sg with
  | (Some TKey, AStr k) =>
      nonempty k
      && first_not_in ["&"%char] k                       (* a leading & is the anchor mark *)
      && (negb prev_coll || first_not_in after_coll_bad k)
      && match st_quote st with
         | None => negb (str_in "*"%char k)             (* * is the wildcard *)
         | Some _ => true
         end
  | (Some TIndex, AInt _) => true
  | (Some TIndex, AStr slice) => str_in ":"%char slice && all_chars is_slice_char slice
  | (Some TAnchor, AStr n) =>
      nonempty n && all_chars is_name_char n
      && (st_bracket st || negb prev_coll || first_not_in after_coll_bad n)
  | (Some TMatchAll, ANone) => true
  | (Some TTraverse, ANone) => true
  | (Some TSearch, ASearch inv m attr term) =>
      nonempty attr && first_not_in ["&"%char] attr
      && match m with
         | MRegex =>
             negb (str_in (st_delim st) term)
             && negb (Ascii.eqb (st_delim st) " "%char) && negb (Ascii.eqb (st_delim st) "\"%char)
         | _ => match st_quote st with
                | Some q => negb (st_nest st) || pairs_close (qchar (other_quote q)) false term
                | None => true
                end
         end
  | (Some TKeywordSearch, AKeyword inv k params) => true
  | (Some TCollector, ACollector op expr) =>
      wf_expr expr && match op with CNone => true | _ => prev_coll end
  | _ => false
  end.

Definition is_collector (x : sseg) : bool :=
  match x with ((Some TCollector, _), _) => true | _ => false end.

Fixpoint wf_go (prev_coll : bool) (l : list sseg) : bool :=
  match l with
  | [] => true
  | x :: r => wf_seg prev_coll x && wf_go (is_collector x) r
  end.

Definition is_nil {A} (l : list A) : bool := match l with [] => true | _ => false end.

(* a text that is blank to Python's str.strip() is the empty path *)
Definition wf (sp : sep) (l : list sseg) : bool :=
  wf_go false l && (is_nil l || nonempty (strip_py (render_ref sp l))).

(* ---- stronger guard for the clauses that go through str() ---- *)

(* no back-slash immediately before one of [syms]: ensure_escaped takes such a
   pair for an already escaped symbol *)
Fixpoint no_bs_before (syms : list ascii) (s : string) : bool :=
  match s with
  | EmptyString => true
  | String c r =>
      (if Ascii.eqb c "\"%char
       then match r with String d _ => negb (mem_ascii d syms) | EmptyString => true end
       else true) && no_bs_before syms r
  end.

Definition both_key_syms : list ascii :=
  ["."; "/"; "("; ")"; "["; "]"; "^"; "$"; "%"; " "; "'"; """"]%char.
Definition term_syms : list ascii := [" "; "="; "^"; "$"; "%"; "!"; ">"; "<"; "~"; "'"; """"]%char.
Definition canon_delims : list ascii := ["/"; "|"; "#"; "@"; ","; ";"; ":"; "_"; "-"; "+"]%char.

Definition wfc_seg (x : sseg) : bool :=
  let '(sg, st) := x in
  match sg with
  | (Some TKey, AStr k) => negb (str_in "*"%char k) && no_bs_before both_key_syms k
  | (Some TSearch, ASearch inv m attr term) =>
      match m with
      | MRegex => existsb (fun d => negb (str_in d term)) canon_delims
      | _ => no_bs_before term_syms term
      end
  | _ => true
  end.

Definition wfc (sp : sep) (l : list sseg) : bool := wf sp l && forallb wfc_seg l.

(* the segments a styled sequence denotes *)
Definition segs_of (l : list sseg) : list seg := map fst l.

(* the property's own exclusion: a dot-notation text whose first character is
   "/" (such a text is forward-slash notation by the notation's definition) *)
Definition dot_text_ok (sp : sep) (text : string) : bool :=
  match sp with Dot => first_not_in ["/"%char] text | Slash => true end.
