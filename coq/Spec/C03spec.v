(* C03 - declarative statement of "a set changes exactly the matched nodes (and
   their aliases), nothing else".

   [subst P repl d] is the document in which every mapping value / sequence
   element designated by P is replaced by [repl] and NOTHING else is touched:
   keys, order, anchors, sets and all other values are rebuilt unchanged by
   construction.  [designated] says which children a change of the node held
   by object [roid] at (parent [poid], reference [pref]) designates: the child
   must BE the matched node object, and be either at the addressed position or
   an alias of it (an anchor-capable ruamel object that occurs elsewhere;
   interned ints / one-character strings / None have no anchor attribute and
   are never aliases). *)
From Coq Require Import List ZArith NArith Bool.
From YP Require Import Outcome PyStr PyVal Doc.
Import ListNotations.

Inductive cref := CKey (k : node) | CIdx (n : nat).

Definition cref_is (pref : pyval) (c : cref) : bool :=
  match c with
  | CKey (NLeaf _ v) => py_eq v pref           (* key == parentref *)
  | CKey _ => false
  | CIdx n => py_eq (PInt (Z.of_nat n)) pref   (* idx == parentref *)
  end.

Definition designated (poid : N) (pref : pyval) (roid : N) (o : N) (c : cref) (x : node) : bool :=
  N.eqb (node_oid x) roid &&
  (has_anchor_attr (node_info x) || (N.eqb o poid && cref_is pref c)).

Section Subst.
  Variable P : N -> cref -> node -> bool.
  Variable repl : node.

  Section IMap.
    Context {A B : Type} (f : nat -> A -> B).
    Fixpoint imap (k : nat) (l : list A) : list B :=
      match l with [] => [] | x :: r => f k x :: imap (S k) r end.
  End IMap.

  Fixpoint subst (d : node) : node :=
    match d with
    | NLeaf _ _ => d
    | NMap i kvs =>
        NMap i (map (fun kv => if P (oid i) (CKey (fst kv)) (snd kv) then (fst kv, repl)
                               else (fst kv, subst (snd kv))) kvs)
    | NSeq i els => NSeq i (imap (fun idx x => if P (oid i) (CIdx idx) x then repl else subst x) 0 els)
    | NSet _ _ => d
    end.
End Subst.

(* ---- side conditions ---- *)
(* ruamel containers always carry the anchor attribute *)
Fixpoint wf_attr (d : node) : bool :=
  match d with
  | NLeaf _ _ => true
  | NMap i kvs => has_anchor_attr i && forallb (fun kv => wf_attr (snd kv)) kvs
  | NSeq i els => has_anchor_attr i && forallb wf_attr els
  | NSet i _ => has_anchor_attr i
  end.

(* ---- aliases used as mapping KEYS (YAML allows `? *alias`) ----
   A key that IS the matched node object and is anchor-capable is a true alias
   of the changed node: it is replaced by the new node like every other alias
   ([ksubst]); entries keep their places and values.  (The code refuses the
   change when the new key already exists in that mapping: fix 7612ed9,
   formerly known finding F24.) *)
Definition kdesignated (roid : N) (k : node) : bool :=
  N.eqb (node_oid k) roid && has_anchor_attr (node_info k).

Section KSubst.
  Variable K : node -> bool.
  Variable repl : node.
  Fixpoint ksubst (d : node) : node :=
    match d with
    | NLeaf _ _ => d
    | NMap i kvs => NMap i (map (fun kv => (if K (fst kv) then repl else fst kv, ksubst (snd kv))) kvs)
    | NSeq i els => NSeq i (map ksubst els)
    | NSet _ _ => d
    end.
End KSubst.

(* the keys of every mapping are pairwise different (==): true of every loaded
   document (ruamel rejects duplicate keys) *)
Definition mkey_eq (a b : node) : bool :=
  match a, b with NLeaf _ x, NLeaf _ y => py_eq x y | _, _ => false end.
Fixpoint mkeys_nodup (ks : list node) : bool :=
  match ks with
  | [] => true
  | k :: r => forallb (fun k' => negb (mkey_eq k k')) r && mkeys_nodup r
  end.
Fixpoint mkeys_distinct (d : node) : bool :=
  match d with
  | NLeaf _ _ => true
  | NMap _ kvs => mkeys_nodup (map fst kvs) && forallb (fun kv => mkeys_distinct (snd kv)) kvs
  | NSeq _ els => forallb mkeys_distinct els
  | NSet _ _ => true
  end.

(* the matched node object is not a member of a set (the code then re-adds the
   member, which a substitution cannot express), and it is ONE object: at most
   one key of a mapping, and of one class (where it is a renamed key and also
   that entry's value, the value is anchor-capable too) *)
Fixpoint alias_clean (poid roid : N) (d : node) : bool :=
  match d with
  | NLeaf _ _ => true
  | NMap i kvs =>
      Nat.leb (length (filter (fun kv => N.eqb (node_oid (fst kv)) roid) kvs)) 1 &&
      forallb (fun kv => (negb (kdesignated roid (fst kv)) || negb (N.eqb (node_oid (snd kv)) roid)
                          || has_anchor_attr (node_info (snd kv)))
                         && alias_clean poid roid (snd kv)) kvs
  | NSeq i els => forallb (alias_clean poid roid) els
  | NSet i els =>
      forallb (fun e => negb (N.eqb (node_oid e) roid && (N.eqb (oid i) poid || has_anchor_attr (node_info e)))) els
  end.
