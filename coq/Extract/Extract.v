(* Extraction of the executable models to OCaml (one file, build/ocaml/model.ml).
   Directives used: ExtrOcamlBasic (bool, option, unit, prod, list, sumbool ->
   OCaml's own), ExtrOcamlString (ascii -> char, string -> char list).
   Z / N / positive / nat stay Coq's inductive numbers: no Extract Constant. *)
From Coq Require Import Extraction ExtrOcamlBasic ExtrOcamlString.
From YP Require Import Outcome PyStr Generated PathParser PathPrinter.
Extraction Language OCaml.
Set Extraction KeepSingleton.
Extraction "model.ml"
  PathParser.parse PathParser.which_rule PathParser.keyword_parameters
  PathParser.run PathParser.init_pst PathParser.normalize_original
  PathPrinter.path_str PathPrinter.stringify PathPrinter.escape_path_section
  PathPrinter.ensure_escaped PyStr.py_int PyStr.str_of_Z.
