(* C18 -- Multi-document merges combine documents as the selected mode defines.
   Statements only; proofs in Proofs/MultiDocProofs.v.  [merge2] is ANY pairwise
   merge (document after the call, exception if any): the theorems hold for
   C05's model (MultiDocRun.merge2_model) and for every other instance. *)
From Coq Require Import List ZArith Bool.
From YP Require Import Outcome MergeConfig MultiDoc MultiDocProofs.
(* obligations tying the models' literal tables to the tables regenerated from the source *)
From YP Require Import GenTables.
Import ListNotations.

Section C18.
Variable doc : Type.
Variable merge2 : doc -> doc -> doc * option exn.
Notation m2 := (m2 doc merge2).
Notation all_succeed := (all_succeed doc merge2).

(* condense-all folds every document of both streams, in order, into the first *)
Theorem C18_condense :
  forall l0 rest rs, all_succeed ->
    merge_condense_all doc merge2 (l0 :: rest) rs = Ok ([fold_left m2 (rest ++ rs) l0], 0).
Proof. exact (condense_all_is_fold doc merge2). Qed.

(* ... and yields exactly one document, whatever fails *)
Theorem C18_condense_one_output :
  forall ls rs out st, merge_condense_all doc merge2 ls rs = Ok (out, st) -> length out = 1.
Proof. exact (condense_all_one_output doc merge2). Qed.

(* merge-across: i-th right into i-th left, surplus right documents appended *)
Theorem C18_across :
  forall ls rs, all_succeed -> merge_across doc merge2 ls rs = Ok (across_spec doc merge2 ls rs, 0).
Proof. exact (across_is_spec doc merge2). Qed.
Theorem C18_across_count :
  forall ls rs, length (across_spec doc merge2 ls rs) = Nat.max (length ls) (length rs).
Proof. exact (across_spec_length doc merge2). Qed.
Theorem C18_across_ith :
  forall ls rs i l r d, nth_error ls i = Some l -> nth_error rs i = Some r ->
    nth i (across_spec doc merge2 ls rs) d = m2 l r.
Proof. exact (across_spec_nth doc merge2). Qed.
Theorem C18_across_surplus :
  forall ls rs i r d, length ls <= i -> nth_error rs i = Some r ->
    nth i (across_spec doc merge2 ls rs) d = r.
Proof. exact (across_spec_surplus doc merge2). Qed.
Theorem C18_across_error_stops :
  forall l ls r rs l' x c, merge2 l r = (l', Some x) -> catch x = Some c ->
    merge_across doc merge2 (l :: ls) (r :: rs) = Ok (l' :: ls, st_across c).
Proof. exact (across_error_stops doc merge2). Qed.

(* matrix: every right into every left *)
Theorem C18_matrix :
  forall ls rs, all_succeed ->
    merge_matrix doc merge2 ls rs = Ok (map (fun l => fold_left m2 rs l) ls, 0).
Proof. exact (matrix_is_map_fold doc merge2). Qed.
Theorem C18_matrix_count :
  forall ls rs st0 out st, merge_matrix_from doc merge2 ls rs st0 = Ok (out, st) -> length out = length ls.
Proof. exact (matrix_output_count doc merge2). Qed.

(* merge_docs, the dispatcher above the three drivers: the stream loaded from the
   right-hand file reaches the driver of the selected mode whole and in order
   (no document -- an empty one included -- is dropped before the dispatch); an
   unloadable file is exit state 3 with the left documents untouched *)
Theorem C18_docs_dispatch :
  forall m ls rs,
    merge_docs doc merge2 (Ok m) (Some rs) ls =
    match m with
    | MCondense => merge_condense_all doc merge2 ls rs
    | MAcross => merge_across doc merge2 ls rs
    | MMatrix => merge_matrix doc merge2 ls rs
    end.
Proof. exact (merge_docs_dispatch doc merge2). Qed.
Theorem C18_docs_unloaded :
  forall m ls, merge_docs doc merge2 (Ok m) None ls = Ok (ls, 3).
Proof. exact (merge_docs_unloaded doc merge2). Qed.
Theorem C18_docs_across_count :
  forall ls rs out, all_succeed -> merge_docs doc merge2 (Ok MAcross) (Some rs) ls = Ok (out, 0) ->
    length out = Nat.max (length ls) (length rs).
Proof. exact (merge_docs_across_count doc merge2). Qed.
End C18.

Print Assumptions C18_condense.
Print Assumptions C18_across.
Print Assumptions C18_matrix.
Print Assumptions C18_matrix_count.
Print Assumptions C18_docs_dispatch.
Print Assumptions C18_docs_across_count.

(* Non-vacuity: documents = lists of numbers, merge = append, failing on a right
   document that starts with 0 *)
Definition toy (l r : list nat) : list nat * option exn :=
  match r with 0 :: _ => (l, Some MergeExc) | _ => (l ++ r, None) end.

Example C18_condense_example :
  merge_condense_all _ toy [[1]; [2]] [[3]; [4]] = Ok ([[1; 2; 3; 4]], 0).
Proof. reflexivity. Qed.
Example C18_across_example :
  merge_across _ toy [[1]; [2]] [[3]; [4]; [5]] = Ok ([[1; 3]; [2; 4]; [5]], 0).
Proof. reflexivity. Qed.
Example C18_matrix_example :
  merge_matrix _ toy [[1]; [2]] [[3]; [4]] = Ok ([[1; 3; 4]; [2; 3; 4]], 0).
Proof. reflexivity. Qed.
Example C18_error_states :
  merge_condense_all _ toy [[1]; [0]] [[3]] = Ok ([[1; 3]], 11) /\
  merge_condense_all _ toy [[1]] [[0]; [3]] = Ok ([[1; 3]], 13) /\
  merge_across _ toy [[1]; [2]; [9]] [[3]; [0]; [5]] = Ok ([[1; 3]; [2]; [9]], 31) /\
  merge_matrix _ toy [[1]; [2]] [[3]; [0]; [4]] = Ok ([[1; 3]; [2; 3]], 41).
Proof. repeat split; reflexivity. Qed.

From Coq Require Import String.
(* merge_docs: an empty right-hand document (here []) keeps its place in the stream *)
Example C18_docs_example :
  merge_docs _ toy (get_multidoc_mode (Some "merge_across"%string)) (Some [[3]; []; [5]]) [[1]; [2]; [9]]
    = Ok ([[1; 3]; [2]; [9; 5]], 0) /\
  merge_docs _ toy (get_multidoc_mode None) (Some [[3]; []]) [[1]; [2]] = Ok ([[1; 2; 3]], 0) /\
  merge_docs _ toy (get_multidoc_mode (Some "matrix_merge"%string)) None [[1]] = Ok ([[1]], 3).
Proof. repeat split; reflexivity. Qed.

(* ======================================================================================== *)
(* At the command line: how main() of yaml-merge builds the streams the drivers above see, and
   which exit state wins.  Model of main(): Model/Cli.v (C16's glue model, tied to the real
   main() by ./check C16); notions: Spec/C18CliSpec.v; proofs: Proofs/MultiDocCli.v.
   [merge2] is any pairwise merge over document identifiers (as in C16). *)
From YP Require Import PyStr Cli CliSpec CliMerge CliLibSpec CliMergeModes C18CliSpec MultiDocCli.
Open Scope string_scope.

(* the loop over the YAML_FILEs, sources that do not load included: it is [run_streams] - the first
   source that yields documents supplies the left-hand documents, every later source goes through
   MultiDoc.merge_docs as the stream it loads to (None = not loadable: state 3); the loop is left
   at the first non-zero state *)
Theorem C18_cli_loop_is_streams :
  forall merge2 estr mode srcs mergers count consumed nh,
    Forall (src_clean estr) srcs ->
    loop_like (merge_loop merge2 estr mode srcs mergers count consumed nh)
              (run_streams merge2 mode mergers (map (src_stream estr) srcs))
              (consumed || existsb (fun s => is_dash (s_name s)) srcs) nh.
Proof. exact merge_loop_streams. Qed.
Print Assumptions C18_cli_loop_is_streams.

(* one later source, loadable or not, through the glue's merge_docs = the model of C18 on its stream *)
Theorem C18_cli_merge_docs_is_library :
  forall merge2 estr mode lhs s,
    src_clean estr s ->
    same_drive (Cli.merge_docs merge2 estr mode lhs s)
               (MultiDoc.merge_docs nat (lib_merge2 merge2) (Ok (lib_mode mode)) (src_stream estr s) lhs).
Proof. exact merge_docs_stream. Qed.
Print Assumptions C18_cli_merge_docs_is_library.

(* exit_state precedence: the FIRST non-zero state in command-line order is the result - the streams
   after it are not looked at (so an unloadable file after a failed merge step does not turn 31 into 3,
   nor the other way round) *)
Theorem C18_cli_first_error_wins :
  forall merge2 mode xs ys acc out n,
    run_streams merge2 mode acc xs = Ok (out, S n) -> run_streams merge2 mode acc (xs ++ ys) = Ok (out, S n).
Proof. exact run_streams_stops. Qed.
Print Assumptions C18_cli_first_error_wins.

Theorem C18_cli_streams_compose :
  forall merge2 mode xs ys acc,
    run_streams merge2 mode acc (xs ++ ys) =
    match run_streams merge2 mode acc xs with
    | Ok (acc', 0) => run_streams merge2 mode acc' ys
    | other => other
    end.
Proof. exact run_streams_app. Qed.
Print Assumptions C18_cli_streams_compose.

(* a source that does not load: 4 when it should have supplied the left-hand documents, 3 later -
   and the documents merged so far are handed back untouched *)
Theorem C18_cli_unloadable_source :
  forall merge2 mode acc rest,
    run_streams merge2 mode acc (None :: rest) = Ok (acc, match acc with [] => 4 | _ => 3 end).
Proof. exact run_streams_unloadable. Qed.
Print Assumptions C18_cli_unloadable_source.

(* when every source loads, [run_streams] is the notion C16's merge theorems are stated with *)
Theorem C18_cli_streams_all_load :
  forall merge2 mode streams acc,
    run_streams merge2 mode acc (map Some streams) = lib_merge_streams merge2 mode acc streams.
Proof. exact run_streams_all_load. Qed.
Print Assumptions C18_cli_streams_all_load.

(* main() under -M merge_across / matrix_merge, ANY mix of loadable and unloadable sources, named
   files in command-line order and then a waiting STDIN: state 0 -> the documents of [run_streams]
   go to write_output_document; a non-zero state IS the exit status and nothing is delivered; an
   escaping exception of the drivers escapes main() *)
Theorem C18_cli_main_is_streams :
  forall merge2 flow jview estr a tty srcs stdin_src nerr vl n',
    ma_mode a <> CondenseAll ->
    merge_validate a (List.length srcs) (map s_name srcs) tty = (nerr, vl, n') -> nerr = 0 -> ma_config_err a = None ->
    Forall (src_clean estr) srcs ->
    (stdin_waits_m a tty srcs = true -> src_clean estr stdin_src) ->
    match run_streams merge2 (ma_mode a) [] (cli_streams estr a tty srcs stdin_src) with
    | Ok (out, 0) =>
        exists nh, cli_merge_main merge2 flow jview estr a tty srcs stdin_src =
          let w := merge_write flow jview a n' (nonempty (ma_overwrite a) || nonempty (ma_output a)) out in
          mkrun (r_status w) (vl ++ hints nh ++ r_out w) (r_fx w)
    | Ok (_, S n) => r_status (cli_merge_main merge2 flow jview estr a tty srcs stdin_src) = Exit (S n) /\
                     delivered (cli_merge_main merge2 flow jview estr a tty srcs stdin_src) = []
    | Raise e => exists u, r_status (cli_merge_main merge2 flow jview estr a tty srcs stdin_src) = Uncaught u /\
                           fam_matches u e
    | OutOfFuel => False
    end.
Proof. exact cli_streams_run. Qed.
Print Assumptions C18_cli_main_is_streams.

(* non-vacuity: three files under -M merge_across; b.yaml's second pair raises MergeException, c.yaml
   is not a file: 31 (the first error) - and with the two swapped: 3 *)
Definition c18_m2 (l r : nat) : option ufam * nat := if Nat.eqb r 4 then (Some UMerge, l) else (None, 10 * l + r).
Definition c18_args := mkmerge true (mknoise false false false) false false "" false "" false false FAuto MergeAcross "" None.
Definition c18_src (name : string) (docs : list nat) := mksrc name true (mkraw docs None).
Definition c18_missing (name : string) := mksrc name false (mkraw [] None).

Example C18_cli_ex_first_error_wins :
  let srcs := [c18_src "a.yaml" [1; 2]; c18_src "b.yaml" [3; 4; 5]; c18_missing "c.yaml"] in
  cli_streams 9 c18_args true srcs (c18_src "-" []) = [Some [1; 2]; Some [3; 4; 5]; None] /\
  run_streams c18_m2 MergeAcross [] [Some [1; 2]; Some [3; 4; 5]; None] = Ok ([13; 2], 31) /\
  r_status (cli_merge_main c18_m2 (fun _ => false) (fun d => d) 9 c18_args true srcs (c18_src "-" [])) = Exit 31.
Proof. repeat split; vm_compute; reflexivity. Qed.

Example C18_cli_ex_unloadable_first :
  let srcs := [c18_src "a.yaml" [1; 2]; c18_missing "c.yaml"; c18_src "b.yaml" [3; 4; 5]] in
  run_streams c18_m2 MergeAcross [] (cli_streams 9 c18_args true srcs (c18_src "-" [])) = Ok ([1; 2], 3) /\
  r_status (cli_merge_main c18_m2 (fun _ => false) (fun d => d) 9 c18_args true srcs (c18_src "-" [])) = Exit 3 /\
  r_status (cli_merge_main c18_m2 (fun _ => false) (fun d => d) 9 c18_args true
              [c18_missing "c.yaml"; c18_src "a.yaml" [1; 2]] (c18_src "-" [])) = Exit 4.
Proof. repeat split; vm_compute; reflexivity. Qed.

(* a waiting STDIN (no `-` named, --nostdin absent, not a terminal) is the LAST stream; the
   hypotheses of C18_cli_main_is_streams hold of this run *)
Definition c18_args_stdin := mkmerge false (mknoise false false false) false false "" false "" false false FAuto MergeAcross "" None.
Example C18_cli_ex_stdin_last :
  let srcs := [c18_src "a.yaml" [1; 2]] in
  cli_streams 9 c18_args_stdin false srcs (c18_src "-" [7; 8; 6]) = [Some [1; 2]; Some [7; 8; 6]] /\
  run_streams c18_m2 MergeAcross [] [Some [1; 2]; Some [7; 8; 6]] = Ok ([17; 28; 6], 0) /\
  cli_merge_main c18_m2 (fun _ => false) (fun d => d) 9 c18_args_stdin false srcs (c18_src "-" [7; 8; 6])
    = mkrun (Exit 0) [ODump false [17; 28; 6]] [] /\
  fst (fst (merge_validate c18_args_stdin 1 ["a.yaml"] false)) = 0 /\
  Forall (src_clean 9) srcs.
Proof.
  cbv zeta. repeat split; try (vm_compute; reflexivity).
  repeat constructor. intros c H. vm_compute in H. discriminate H.
Qed.

(* Every remaining statement of this file, so that none is left unaudited. *)
Print Assumptions C18_condense_one_output.
Print Assumptions C18_across_count.
Print Assumptions C18_across_ith.
Print Assumptions C18_across_surplus.
Print Assumptions C18_across_error_stops.
Print Assumptions C18_docs_unloaded.
