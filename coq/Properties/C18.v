(* C18 -- Multi-document merges combine documents as the selected mode defines.
   Statements only; proofs in Proofs/MultiDocProofs.v.  [merge2] is ANY pairwise
   merge (document after the call, exception if any): the theorems hold for
   C05's model (MultiDocRun.merge2_model) and for every other instance. *)
From Coq Require Import List ZArith Bool.
From YP Require Import Outcome MergeConfig MultiDoc MultiDocProofs.
(* obligations tying the models' literal tables to the tables regenerated from the source *)
From YP Require Import GenTables.
Import ListNotations.

Section C18.
Variable doc : Type.
Variable merge2 : doc -> doc -> doc * option exn.
Notation m2 := (m2 doc merge2).
Notation all_succeed := (all_succeed doc merge2).

(* condense-all folds every document of both streams, in order, into the first *)
Theorem C18_condense :
  forall l0 rest rs, all_succeed ->
    merge_condense_all doc merge2 (l0 :: rest) rs = Ok ([fold_left m2 (rest ++ rs) l0], 0).
Proof. exact (condense_all_is_fold doc merge2). Qed.

(* ... and yields exactly one document, whatever fails *)
Theorem C18_condense_one_output :
  forall ls rs out st, merge_condense_all doc merge2 ls rs = Ok (out, st) -> length out = 1.
Proof. exact (condense_all_one_output doc merge2). Qed.

(* merge-across: i-th right into i-th left, surplus right documents appended *)
Theorem C18_across :
  forall ls rs, all_succeed -> merge_across doc merge2 ls rs = Ok (across_spec doc merge2 ls rs, 0).
Proof. exact (across_is_spec doc merge2). Qed.
Theorem C18_across_count :
  forall ls rs, length (across_spec doc merge2 ls rs) = Nat.max (length ls) (length rs).
Proof. exact (across_spec_length doc merge2). Qed.
Theorem C18_across_ith :
  forall ls rs i l r d, nth_error ls i = Some l -> nth_error rs i = Some r ->
    nth i (across_spec doc merge2 ls rs) d = m2 l r.
Proof. exact (across_spec_nth doc merge2). Qed.
Theorem C18_across_surplus :
  forall ls rs i r d, length ls <= i -> nth_error rs i = Some r ->
    nth i (across_spec doc merge2 ls rs) d = r.
Proof. exact (across_spec_surplus doc merge2). Qed.
Theorem C18_across_error_stops :
  forall l ls r rs l' x c, merge2 l r = (l', Some x) -> catch x = Some c ->
    merge_across doc merge2 (l :: ls) (r :: rs) = Ok (l' :: ls, st_across c).
Proof. exact (across_error_stops doc merge2). Qed.

(* matrix: every right into every left *)
Theorem C18_matrix :
  forall ls rs, all_succeed ->
    merge_matrix doc merge2 ls rs = Ok (map (fun l => fold_left m2 rs l) ls, 0).
Proof. exact (matrix_is_map_fold doc merge2). Qed.
Theorem C18_matrix_count :
  forall ls rs st0 out st, merge_matrix_from doc merge2 ls rs st0 = Ok (out, st) -> length out = length ls.
Proof. exact (matrix_output_count doc merge2). Qed.

(* merge_docs, the dispatcher above the three drivers: the stream loaded from the
   right-hand file reaches the driver of the selected mode whole and in order
   (no document -- an empty one included -- is dropped before the dispatch); an
   unloadable file is exit state 3 with the left documents untouched *)
Theorem C18_docs_dispatch :
  forall m ls rs,
    merge_docs doc merge2 (Ok m) (Some rs) ls =
    match m with
    | MCondense => merge_condense_all doc merge2 ls rs
    | MAcross => merge_across doc merge2 ls rs
    | MMatrix => merge_matrix doc merge2 ls rs
    end.
Proof. exact (merge_docs_dispatch doc merge2). Qed.
Theorem C18_docs_unloaded :
  forall m ls, merge_docs doc merge2 (Ok m) None ls = Ok (ls, 3).
Proof. exact (merge_docs_unloaded doc merge2). Qed.
Theorem C18_docs_across_count :
  forall ls rs out, all_succeed -> merge_docs doc merge2 (Ok MAcross) (Some rs) ls = Ok (out, 0) ->
    length out = Nat.max (length ls) (length rs).
Proof. exact (merge_docs_across_count doc merge2). Qed.
End C18.

Print Assumptions C18_condense.
Print Assumptions C18_across.
Print Assumptions C18_matrix.
Print Assumptions C18_matrix_count.
Print Assumptions C18_docs_dispatch.
Print Assumptions C18_docs_across_count.

(* Non-vacuity: documents = lists of numbers, merge = append, failing on a right
   document that starts with 0 *)
Definition toy (l r : list nat) : list nat * option exn :=
  match r with 0 :: _ => (l, Some MergeExc) | _ => (l ++ r, None) end.

Example C18_condense_example :
  merge_condense_all _ toy [[1]; [2]] [[3]; [4]] = Ok ([[1; 2; 3; 4]], 0).
Proof. reflexivity. Qed.
Example C18_across_example :
  merge_across _ toy [[1]; [2]] [[3]; [4]; [5]] = Ok ([[1; 3]; [2; 4]; [5]], 0).
Proof. reflexivity. Qed.
Example C18_matrix_example :
  merge_matrix _ toy [[1]; [2]] [[3]; [4]] = Ok ([[1; 3; 4]; [2; 3; 4]], 0).
Proof. reflexivity. Qed.
Example C18_error_states :
  merge_condense_all _ toy [[1]; [0]] [[3]] = Ok ([[1; 3]], 11) /\
  merge_condense_all _ toy [[1]] [[0]; [3]] = Ok ([[1; 3]], 13) /\
  merge_across _ toy [[1]; [2]; [9]] [[3]; [0]; [5]] = Ok ([[1; 3]; [2]; [9]], 31) /\
  merge_matrix _ toy [[1]; [2]] [[3]; [0]; [4]] = Ok ([[1; 3]; [2; 3]], 41).
Proof. repeat split; reflexivity. Qed.

From Coq Require Import String.
(* merge_docs: an empty right-hand document (here []) keeps its place in the stream *)
Example C18_docs_example :
  merge_docs _ toy (get_multidoc_mode (Some "merge_across"%string)) (Some [[3]; []; [5]]) [[1]; [2]; [9]]
    = Ok ([[1; 3]; [2]; [9; 5]], 0) /\
  merge_docs _ toy (get_multidoc_mode None) (Some [[3]; []]) [[1]; [2]] = Ok ([[1; 2; 3]], 0) /\
  merge_docs _ toy (get_multidoc_mode (Some "matrix_merge"%string)) None [[1]] = Ok ([[1]], 3).
Proof. repeat split; reflexivity. Qed.
