(* C03 - A set changes exactly the matched nodes (and their aliases), nothing
   else.  Statements only; proofs in Proofs/C03set.v.

   Model: Mutate.update_node / recurse / make_new_node / set_value =
   Processor._update_node, its recurse(), Nodes.make_new_node, set_value +
   _apply_change (processor.py / nodes.py after the fix: commits of branch mutate
   and 7612ed9 of branch fixer2).
   Spec:  C03spec.subst (designated ...) = exactly the designated mapping values /
   sequence elements replaced, then C03spec.ksubst (kdesignated ...) = exactly the
   mapping keys that are true aliases of the matched node replaced; everything
   else rebuilt untouched. *)
From Coq Require Import List ZArith NArith Bool String.
From YP Require Import Outcome PyStr PyVal Doc Searches Mutate Create History C04spec C03spec C03hist C03set C03erase C03history.
Import ListNotations.
Open Scope string_scope.
Open Scope list_scope.

(* The whole-document walk of _update_node IS the pointwise substitution: the
   matched node (object roid at parent poid / reference pref) and every alias of
   it are replaced - as a mapping value, as a sequence element AND as a mapping
   key (`? *alias`); no other key, no other value, no order, no anchor, no set
   changes.  Side conditions: ruamel containers carry the anchor attribute
   (wf_attr); the keys of every mapping are pairwise different (mkeys_distinct,
   true of every loaded document); the matched object is not a set member and is
   ONE object (alias_clean); the new node is a scalar; and the change is not one
   the code refuses (key_conflict: an alias key would land on an existing key -
   see C03_key_collision_refused). *)
Theorem C03_recurse_is_substitution : forall poid pref roid repl d,
  (exists ri rv, repl = NLeaf ri rv) ->
  wf_attr d = true -> alias_clean poid roid d = true -> mkeys_distinct d = true ->
  key_conflict roid repl d = false ->
  recurse poid pref roid repl d
  = ksubst (kdesignated roid) repl (subst (designated poid pref roid) repl d).
Proof. exact recurse_subst. Qed.
Print Assumptions C03_recurse_is_substitution.

(* One change (_update_node) for every oracle (literal_eval, float), value,
   format: the new document is the old one with the matched node c and its
   aliases - those used as mapping keys included - replaced by the ONE new
   node make_new_node built from c.  (Before fix 7612ed9 the hypothesis was
   keys_sets_clean, which excluded every alias used as a key: known finding F24.) *)
Theorem C03_set_exact : forall lit fl p value fmt vo d next d' next' o pn c,
  wf_attr d = true ->
  pc_parent p = Some o -> find_obj o d = Some pn ->
  get_change pn (norm_ref pn (pc_ref p)) = ROk (Some c) ->
  alias_clean o (node_oid c) d = true -> mkeys_distinct d = true ->
  update_node lit fl p value fmt vo (d, next) = ROk (d', next') ->
  exists new, make_new_node lit fl (Some (node_info c)) value fmt next vo = ROk new /\
              d' = ksubst (kdesignated (node_oid c)) new
                     (subst (designated o (norm_ref pn (pc_ref p)) (node_oid c)) new d) /\
              next' = N.succ next.
Proof. exact update_exact. Qed.
Print Assumptions C03_set_exact.

(* The repaired behaviour, for every document: when an alias of the changed node
   is a mapping key and the new node equals another key of that mapping, the
   change is refused with the DuplicateKey YAML Path error (run_actions keeps the
   state it had: C03_failure_is_clean - nothing is modified). *)
Theorem C03_key_collision_refused : forall lit fl p value fmt vo d next o pn c new,
  pc_parent p = Some o -> find_obj o d = Some pn ->
  get_change pn (norm_ref pn (pc_ref p)) = ROk (Some c) ->
  make_new_node lit fl (Some (node_info c)) value fmt next vo = ROk new ->
  key_conflict (node_oid c) new d = true ->
  update_node lit fl p value fmt vo (d, next) = RErr (YPE DuplicateKey).
Proof. exact update_conflict_refused. Qed.
Print Assumptions C03_key_collision_refused.

(* ... and that new node holds the converted new value, no tag other than the
   ScalarBoolean marker of Doc.is_sbool, and - when a ruamel wrapper was built -
   a fresh identity and the anchor of the old node (so aliases keep following
   it), whatever the class of the old node (ScalarBoolean `&x true` included). *)
Theorem C03_new_node_value : forall lit fl src value fmt fresh vo new,
  make_new_node lit fl src value fmt fresh vo = ROk new ->
  exists nn, conv lit fl fmt value = ROk nn /\
    exists i, new = NLeaf i (nn_val nn) /\
      tag i = (if nn_wrapped nn then nn_tag nn else None) /\
      (nn_wrapped nn = true ->
         oid i = fresh /\ has_anchor_attr i = true /\
         anchor i = match src with Some s => nonempty_anchor s | None => None end).
Proof. exact make_new_node_shape. Qed.
Print Assumptions C03_new_node_value.

(* The new node is a ScalarBoolean (the int subclass, Doc.is_sbool) exactly when
   a boolean conversion built it (format BOOLEAN, or DEFAULT with a value that
   literal_eval reads as a bool); every other new node carries no tag. *)
Theorem C03_new_node_sbool : forall lit fl src value fmt fresh vo new nn,
  make_new_node lit fl src value fmt fresh vo = ROk new ->
  conv lit fl fmt value = ROk nn ->
  is_sbool new = nn_sbool nn.
Proof. exact make_new_node_sbool. Qed.
Print Assumptions C03_new_node_sbool.

(* What the spec means, pointwise. *)
Theorem C03_subst_seq_pointwise : forall P repl i els n x,
  nth_error els n = Some x ->
  exists els', subst P repl (NSeq i els) = NSeq i els' /\ List.length els' = List.length els /\
    nth_error els' n = Some (if P (oid i) (CIdx n) x then repl else subst P repl x).
Proof. exact subst_seq_nth. Qed.
Print Assumptions C03_subst_seq_pointwise.

Theorem C03_subst_map_pointwise : forall P repl i kvs n k v,
  nth_error kvs n = Some (k, v) ->
  exists kvs', subst P repl (NMap i kvs) = NMap i kvs' /\ List.length kvs' = List.length kvs /\
    nth_error kvs' n = Some (k, if P (oid i) (CKey k) v then repl else subst P repl v).
Proof. exact subst_map_nth. Qed.
Print Assumptions C03_subst_map_pointwise.

Theorem C03_frame : forall P repl d, (forall o c x, P o c x = false) -> subst P repl d = d.
Proof. exact subst_frame. Qed.
Print Assumptions C03_frame.

(* ... and the key replacement: an entry keeps its place and its value; its key is replaced iff designated *)
Theorem C03_ksubst_map_pointwise : forall K repl i kvs n k v,
  nth_error kvs n = Some (k, v) ->
  exists kvs', ksubst K repl (NMap i kvs) = NMap i kvs' /\ List.length kvs' = List.length kvs /\
    nth_error kvs' n = Some (if K k then repl else k, ksubst K repl v).
Proof. exact ksubst_map_nth. Qed.
Print Assumptions C03_ksubst_map_pointwise.

Theorem C03_key_frame : forall K repl d, (forall k, K k = false) -> ksubst K repl d = d.
Proof. exact ksubst_frame. Qed.
Print Assumptions C03_key_frame.

(* The invariant the next edit needs survives (sequences of edits). *)
Theorem C03_wf_preserved : forall P repl d,
  wf_attr d = true -> wf_attr repl = true -> wf_attr (subst P repl d) = true.
Proof. exact subst_wf_attr. Qed.
Print Assumptions C03_wf_preserved.

Theorem C03_wf_preserved_keys : forall K repl d, wf_attr d = true -> wf_attr (ksubst K repl d) = true.
Proof. exact ksubst_wf_attr. Qed.
Print Assumptions C03_wf_preserved_keys.

(* A set_value that fails (type mismatch, ...) stops at the failing change:
   every earlier change of the same call is complete, the failing one changed
   nothing. *)
Theorem C03_failure_is_clean : forall lit fl value vo acts st st' e,
  run_actions lit fl value vo acts st = SFailed st' e ->
  exists done rest a, acts = done ++ a :: rest /\
    run_actions lit fl value vo done st = SDone st' /\ apply_action lit fl value vo a st' = RErr e.
Proof. exact run_actions_failed_state. Qed.
Print Assumptions C03_failure_is_clean.

(* ======== sequences of edits: chains of changes and whole histories ======== *)

(* Doc.erase (identities, anchors, tags forgotten) turns the identity-based
   substitution into a replacement AT LOCATIONS of plain data: the locations
   are the matched position and the positions of its true aliases
   (C03hist.mask_subst (designated ...)). *)
Theorem C03_erase_subst : forall P repl d,
  erase (subst P repl d) = dsubst (mask_subst P d) (erase repl) (erase d).
Proof. exact erase_subst. Qed.
Print Assumptions C03_erase_subst.

(* ... and the replacement of alias keys into a re-filing of the selected entries under the new key *)
Theorem C03_erase_ksubst : forall K ri rv d,
  erase (ksubst K (NLeaf ri rv) d) = drekey (mask_keys K d) rv (erase d).
Proof. exact erase_ksubst. Qed.
Print Assumptions C03_erase_ksubst.

(* THE CHAIN (composition of C03_set_exact + C03_wf_preserved): after any
   sequence of changes of one set_value call - every change under the hypotheses
   of C03_set_exact, evaluated on the document that change meets (acts_ok,
   computable) - the document is the successive substitution: every matched node
   and every alias of a matched anchored node holds the new value, everything
   else is as before; on plain data per change one replacement-at-locations
   (PReplace) and one re-filing of the entries whose key is an alias (PRekey);
   and the invariant still holds for the next edit.  Guard acts_ok (computable
   along the run) no longer excludes aliases used as keys (F24 repaired by fix
   7612ed9); what it still asks: no [name()] rename, the matched node is not a
   set member, mappings have pairwise different keys (hence still _partial). *)
Theorem C03_chain_partial : forall lit fl value vo acts st st',
  wf_attr (fst st) = true -> acts_ok lit fl value vo acts st = true ->
  run_actions lit fl value vo acts st = SDone st' ->
  psteps (abs_actions lit fl value vo acts st) (erase (fst st)) (erase (fst st')) /\ wf_attr (fst st') = true.
Proof. exact actions_refine. Qed.
Print Assumptions C03_chain_partial.

(* THE HISTORY THEOREM.  For every list of operations (History.hop: Set /
   Create / Delete, each the model of the corresponding Processor call run on the
   document the previous one left) that completes, each operation under its
   guard (hist_ok, computable along the model's own run: the invariants wf_attr /
   wf_doc hold where the operation starts, C03_set_exact's hypotheses for every
   change, every coordinate of a delete locates a node), the model's run REFINES the plain-data
   model over Doc.erase: Set = replacements at locations (dsubst), Delete = a
   removal at locations (dprune), Create = children appended (dembeds) followed by
   a replacement at the yielded location.  Guards exclude [name()] renames and
   matched set members (hence _partial); aliases used as keys are inside (F24
   repaired by fix 7612ed9) and a Delete step is no longer restricted (C04 F15
   repaired by fix 17f9ea8: C04_delete_exact is full). *)
Theorem C03_history_partial : forall lit fl ops d k d',
  hist_ok lit fl ops d = true -> run_ops lit fl ops d k = HDone d' ->
  psteps (abs_ops lit fl ops d) (erase d) (erase d').
Proof. exact history_refines. Qed.
Print Assumptions C03_history_partial.

(* ... and a history that fails stops at the failing operation; what was done before refines the plain-data run *)
Theorem C03_history_failed_prefix : forall lit fl ops d k d' e n,
  hist_ok lit fl ops d = true -> run_ops lit fl ops d k = HFailed d' e n ->
  exists done rest op d0, ops = done ++ op :: rest /\ n = (k + List.length done)%nat /\
    run_ops lit fl done d k = HDone d0 /\ psteps (abs_ops lit fl done d) (erase d) (erase d0) /\
    run_op lit fl op d0 = Failed d' e.
Proof. exact history_failed_prefix. Qed.
Print Assumptions C03_history_failed_prefix.

(* ---- concrete documents ---- *)
Definition pl (o : N) : info := mkinfo o None false None.
Definition ct (o : N) : info := mkinfo o None true None.
Definition an (o : N) (a : string) : info := mkinfo o (Some a) true None.
Definition sk (o : N) (s : string) : node := NLeaf (pl o) (PStr s).
Definition iv (o : N) (z : Z) : node := NLeaf (pl o) (PInt z).
Definition no_lit (s : string) : outcome litres := Ok LFail.
Definition no_fl (s : string) : outcome flres := Ok FFail.

(* [1, 1, 2]: the two 1s are ONE CPython object (oid 1) - DESIGN #13 *)
Definition doc13 : node := NSeq (ct 0) [iv 1 1; iv 1 1; iv 2 2].
Example C03_shared_int_nonvacuous :
  wf_attr doc13 = true /\ alias_clean 0 1 doc13 = true /\ mkeys_distinct doc13 = true /\
  update_node no_lit no_fl (mkpc (Some 0%N) (PInt 1)) (PStr "new") FBare 9 (doc13, 3%N)
  = ROk (NSeq (ct 0) [iv 1 1; NLeaf (mkinfo 3 None true None) (PStr "new"); iv 2 2], 4%N).
Proof. vm_compute. repeat split. Qed.

(* {k: &a x, l: [*a], m: *a}: the alias inside another sequence and under another key follow *)
Definition xa : node := NLeaf (an 2 "a") (PStr "x").
Definition doc23 : node :=
  NMap (ct 0) [ (sk 1 "k", xa); (sk 3 "l", NSeq (ct 4) [xa]); (sk 5 "m", xa) ].
Example C03_aliases_follow_nonvacuous :
  wf_attr doc23 = true /\ alias_clean 0 2 doc23 = true /\ mkeys_distinct doc23 = true /\
  update_node no_lit no_fl (mkpc (Some 0%N) (PStr "k")) (PStr "new") FBare 9 (doc23, 6%N)
  = ROk (let n := NLeaf (an 6 "a") (PStr "new") in
         NMap (ct 0) [ (sk 1 "k", n); (sk 3 "l", NSeq (ct 4) [n]); (sk 5 "m", n) ], 7%N).
Proof. vm_compute. repeat split. Qed.

(* {a: b, b: x}: key b is the same interned object (oid 2) as the old value; it is NOT renamed *)
Definition doc13b : node := NMap (ct 0) [ (sk 1 "a", sk 2 "b"); (sk 2 "b", sk 3 "x") ].
Example C03_key_spelled_like_value_nonvacuous :
  alias_clean 0 2 doc13b = true /\ mkeys_distinct doc13b = true /\
  update_node no_lit no_fl (mkpc (Some 0%N) (PStr "a")) (PStr "q") FBare 9 (doc13b, 4%N)
  = ROk (NMap (ct 0) [ (sk 1 "a", NLeaf (mkinfo 4 None true None) (PStr "q")); (sk 2 "b", sk 3 "x") ], 5%N).
Proof. vm_compute. repeat split. Qed.

(* non-vacuity of the history theorem: on {k: &a x, l: [*a], m: *a}
   set k := new (three locations change), delete l[0], create l[1].z := 7 (pads l[0], builds {z: 7}), set m := 5 *)
Definition hist23 : list hop :=
  [ HSet [CNode (mkpc (Some 0%N) (PStr "k")) false] (PStr "new") FBare None;
    HDelete [CNode (mkpc (Some 4%N) (PInt 0)) false];
    HCreate [SKey "l" (Some 3%N); SIdx 1; SKey "z" None] (PInt 7) FInt None;
    HSet [CNode (mkpc (Some 0%N) (PStr "m")) false] (PInt 5) FInt None ].
Example C03_history_nonvacuous :
  hist_ok no_lit no_fl hist23 doc23 = true /\
  match run_ops no_lit no_fl hist23 doc23 0 with
  | HDone d' =>
      erase d' = DMap [ (PStr "k", DLeaf (PInt 5));
                        (PStr "l", DSeq [DMap []; DMap [ (PStr "z", DLeaf (PInt 7)) ]]);
                        (PStr "m", DLeaf (PInt 5)) ]
  | HFailed _ _ _ => False
  end /\
  List.length (abs_ops no_lit no_fl hist23 doc23) = 8%nat.
Proof. vm_compute. repeat split. Qed.

(* ---- former known finding F24, repaired by fix 7612ed9 ----
   {m: {foo: bar, &n x: a}, c: *n}: the alias of the changed node is used as a
   KEY of m.
   set c := foo - the renamed key would land on the existing key foo (the old
   code dropped an entry of m: the former C03_alias_key_refuted / C03_history_refuted
   witness): refused with DuplicateKey, the document is unchanged.
   set c := new - inside the guard now: the value at c AND the key of m follow. *)
Definition nx : node := NLeaf (an 5 "n") (PStr "x").
Definition doc24 : node :=
  NMap (ct 0) [ (sk 1 "m", NMap (ct 2) [ (sk 3 "foo", sk 4 "bar"); (nx, sk 6 "a") ]);
                (sk 7 "c", nx) ].
Definition hist24 : list hop := [ HSet [CNode (mkpc (Some 0%N) (PStr "c")) false] (PStr "foo") FBare None ].
Definition hist24b : list hop := [ HSet [CNode (mkpc (Some 0%N) (PStr "c")) false] (PStr "new") FBare None ].

Example C03_alias_key_collision_repaired :
  key_conflict 5 (NLeaf (an 8 "n") (PStr "foo")) doc24 = true /\
  update_node no_lit no_fl (mkpc (Some 0%N) (PStr "c")) (PStr "foo") FBare 99 (doc24, 8%N) = RErr (YPE DuplicateKey) /\
  run_ops no_lit no_fl hist24 doc24 0 = HFailed doc24 (YPE DuplicateKey) 0.
Proof. vm_compute. repeat split. Qed.

Example C03_alias_key_follows_nonvacuous :
  wf_attr doc24 = true /\ alias_clean 0 5 doc24 = true /\ mkeys_distinct doc24 = true /\
  hist_ok no_lit no_fl hist24b doc24 = true /\
  run_ops no_lit no_fl hist24b doc24 0
  = HDone (let n := NLeaf (an 9 "n") (PStr "new") in
           NMap (ct 0) [ (sk 1 "m", NMap (ct 2) [ (sk 3 "foo", sk 4 "bar"); (n, sk 6 "a") ]); (sk 7 "c", n) ]) /\
  List.length (abs_ops no_lit no_fl hist24b doc24) = 2%nat.
Proof. vm_compute. repeat split. Qed.
