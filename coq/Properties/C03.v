(* C03 - A set changes exactly the matched nodes (and their aliases), nothing
   else.  Statements only; proofs in Proofs/C03set.v.

   Model: Mutate.update_node / recurse / make_new_node / set_value =
   Processor._update_node, its recurse(), Nodes.make_new_node, set_value +
   _apply_change (processor.py / nodes.py after the fix: commits of branch mutate
   and 7612ed9 of branch fixer2).
   Spec:  C03spec.subst (designated ...) = exactly the designated mapping values /
   sequence elements replaced, then C03spec.ksubst (kdesignated ...) = exactly the
   mapping keys that are true aliases of the matched node replaced; everything
   else rebuilt untouched. *)
From Coq Require Import List ZArith NArith Bool String.
From YP Require Import Outcome PyStr PyVal Doc Searches Mutate Create History C04spec C03spec C03hist C03set C03erase C03history.
Import ListNotations.
Open Scope string_scope.
Open Scope list_scope.

(* The whole-document walk of _update_node IS the pointwise substitution: the
   matched node (object roid at parent poid / reference pref) and every alias of
   it are replaced - as a mapping value, as a sequence element AND as a mapping
   key (`? *alias`); no other key, no other value, no order, no anchor, no set
   changes.  Side conditions: ruamel containers carry the anchor attribute
   (wf_attr); the keys of every mapping are pairwise different (mkeys_distinct,
   true of every loaded document); the matched object is not a set member and is
   ONE object (alias_clean); the new node is a scalar; and the change is not one
   the code refuses (key_conflict: an alias key would land on an existing key -
   see C03_key_collision_refused). *)
Theorem C03_recurse_is_substitution : forall poid pref roid repl d,
  (exists ri rv, repl = NLeaf ri rv) ->
  wf_attr d = true -> alias_clean poid roid d = true -> mkeys_distinct d = true ->
  key_conflict roid repl d = false ->
  recurse poid pref roid repl d
  = ksubst (kdesignated roid) repl (subst (designated poid pref roid) repl d).
Proof. exact recurse_subst. Qed.
Print Assumptions C03_recurse_is_substitution.

(* One change (_update_node) for every oracle (literal_eval, float), value,
   format: the new document is the old one with the matched node c and its
   aliases - those used as mapping keys included - replaced by the ONE new
   node make_new_node built from c.  (Before fix 7612ed9 the hypothesis was
   keys_sets_clean, which excluded every alias used as a key: known finding F24.) *)
Theorem C03_set_exact : forall lit fl p value fmt vo d next d' next' o pn c,
  wf_attr d = true ->
  pc_parent p = Some o -> find_obj o d = Some pn ->
  get_change pn (norm_ref pn (pc_ref p)) = ROk (Some c) ->
  alias_clean o (node_oid c) d = true -> mkeys_distinct d = true ->
  update_node lit fl p value fmt vo (d, next) = ROk (d', next') ->
  exists new, make_new_node lit fl (Some (node_info c)) value fmt next vo = ROk new /\
              d' = ksubst (kdesignated (node_oid c)) new
                     (subst (designated o (norm_ref pn (pc_ref p)) (node_oid c)) new d) /\
              next' = N.succ next.
Proof. exact update_exact. Qed.
Print Assumptions C03_set_exact.

(* The repaired behaviour, for every document: when an alias of the changed node
   is a mapping key and the new node equals another key of that mapping, the
   change is refused with the DuplicateKey YAML Path error (run_actions keeps the
   state it had: C03_failure_is_clean - nothing is modified). *)
Theorem C03_key_collision_refused : forall lit fl p value fmt vo d next o pn c new,
  pc_parent p = Some o -> find_obj o d = Some pn ->
  get_change pn (norm_ref pn (pc_ref p)) = ROk (Some c) ->
  make_new_node lit fl (Some (node_info c)) value fmt next vo = ROk new ->
  key_conflict (node_oid c) new d = true ->
  update_node lit fl p value fmt vo (d, next) = RErr (YPE DuplicateKey).
Proof. exact update_conflict_refused. Qed.
Print Assumptions C03_key_collision_refused.

(* ... and that new node holds the converted new value, no tag other than the
   ScalarBoolean marker of Doc.is_sbool, and - when a ruamel wrapper was built -
   a fresh identity and the anchor of the old node (so aliases keep following
   it), whatever the class of the old node (ScalarBoolean `&x true` included). *)
Theorem C03_new_node_value : forall lit fl src value fmt fresh vo new,
  make_new_node lit fl src value fmt fresh vo = ROk new ->
  exists nn, conv lit fl fmt value = ROk nn /\
    exists i, new = NLeaf i (nn_val nn) /\
      tag i = (if nn_wrapped nn then nn_tag nn else None) /\
      (nn_wrapped nn = true ->
         oid i = fresh /\ has_anchor_attr i = true /\
         anchor i = match src with Some s => nonempty_anchor s | None => None end).
Proof. exact make_new_node_shape. Qed.
Print Assumptions C03_new_node_value.

(* The new node is a ScalarBoolean (the int subclass, Doc.is_sbool) exactly when
   a boolean conversion built it (format BOOLEAN, or DEFAULT with a value that
   literal_eval reads as a bool); every other new node carries no tag. *)
Theorem C03_new_node_sbool : forall lit fl src value fmt fresh vo new nn,
  make_new_node lit fl src value fmt fresh vo = ROk new ->
  conv lit fl fmt value = ROk nn ->
  is_sbool new = nn_sbool nn.
Proof. exact make_new_node_sbool. Qed.
Print Assumptions C03_new_node_sbool.

(* What the spec means, pointwise. *)
Theorem C03_subst_seq_pointwise : forall P repl i els n x,
  nth_error els n = Some x ->
  exists els', subst P repl (NSeq i els) = NSeq i els' /\ List.length els' = List.length els /\
    nth_error els' n = Some (if P (oid i) (CIdx n) x then repl else subst P repl x).
Proof. exact subst_seq_nth. Qed.
Print Assumptions C03_subst_seq_pointwise.

Theorem C03_subst_map_pointwise : forall P repl i kvs n k v,
  nth_error kvs n = Some (k, v) ->
  exists kvs', subst P repl (NMap i kvs) = NMap i kvs' /\ List.length kvs' = List.length kvs /\
    nth_error kvs' n = Some (k, if P (oid i) (CKey k) v then repl else subst P repl v).
Proof. exact subst_map_nth. Qed.
Print Assumptions C03_subst_map_pointwise.

Theorem C03_frame : forall P repl d, (forall o c x, P o c x = false) -> subst P repl d = d.
Proof. exact subst_frame. Qed.
Print Assumptions C03_frame.

(* ... and the key replacement: an entry keeps its place and its value; its key is replaced iff designated *)
Theorem C03_ksubst_map_pointwise : forall K repl i kvs n k v,
  nth_error kvs n = Some (k, v) ->
  exists kvs', ksubst K repl (NMap i kvs) = NMap i kvs' /\ List.length kvs' = List.length kvs /\
    nth_error kvs' n = Some (if K k then repl else k, ksubst K repl v).
Proof. exact ksubst_map_nth. Qed.
Print Assumptions C03_ksubst_map_pointwise.

Theorem C03_key_frame : forall K repl d, (forall k, K k = false) -> ksubst K repl d = d.
Proof. exact ksubst_frame. Qed.
Print Assumptions C03_key_frame.

(* The invariant the next edit needs survives (sequences of edits). *)
Theorem C03_wf_preserved : forall P repl d,
  wf_attr d = true -> wf_attr repl = true -> wf_attr (subst P repl d) = true.
Proof. exact subst_wf_attr. Qed.
Print Assumptions C03_wf_preserved.

Theorem C03_wf_preserved_keys : forall K repl d, wf_attr d = true -> wf_attr (ksubst K repl d) = true.
Proof. exact ksubst_wf_attr. Qed.
Print Assumptions C03_wf_preserved_keys.

(* A set_value that fails (type mismatch, ...) stops at the failing change:
   every earlier change of the same call is complete, the failing one changed
   nothing. *)
Theorem C03_failure_is_clean : forall lit fl value vo acts st st' e,
  run_actions lit fl value vo acts st = SFailed st' e ->
  exists done rest a, acts = done ++ a :: rest /\
    run_actions lit fl value vo done st = SDone st' /\ apply_action lit fl value vo a st' = RErr e.
Proof. exact run_actions_failed_state. Qed.
Print Assumptions C03_failure_is_clean.

(* ======== sequences of edits: chains of changes and whole histories ======== *)

(* Doc.erase (identities, anchors, tags forgotten) turns the identity-based
   substitution into a replacement AT LOCATIONS of plain data: the locations
   are the matched position and the positions of its true aliases
   (C03hist.mask_subst (designated ...)). *)
Theorem C03_erase_subst : forall P repl d,
  erase (subst P repl d) = dsubst (mask_subst P d) (erase repl) (erase d).
Proof. exact erase_subst. Qed.
Print Assumptions C03_erase_subst.

(* ... and the replacement of alias keys into a re-filing of the selected entries under the new key *)
Theorem C03_erase_ksubst : forall K ri rv d,
  erase (ksubst K (NLeaf ri rv) d) = drekey (mask_keys K d) rv (erase d).
Proof. exact erase_ksubst. Qed.
Print Assumptions C03_erase_ksubst.

(* THE CHAIN (composition of C03_set_exact + C03_wf_preserved): after any
   sequence of changes of one set_value call - every change under the hypotheses
   of C03_set_exact, evaluated on the document that change meets (acts_ok,
   computable) - the document is the successive substitution: every matched node
   and every alias of a matched anchored node holds the new value, everything
   else is as before; on plain data per change one replacement-at-locations
   (PReplace) and one re-filing of the entries whose key is an alias (PRekey);
   and the invariant still holds for the next edit.  Guard acts_ok (computable
   along the run) no longer excludes aliases used as keys (F24 repaired by fix
   7612ed9); what it still asks: no [name()] rename, the matched node is not a
   set member, mappings have pairwise different keys (hence still _partial). *)
Theorem C03_chain_partial : forall lit fl value vo acts st st',
  wf_attr (fst st) = true -> acts_ok lit fl value vo acts st = true ->
  run_actions lit fl value vo acts st = SDone st' ->
  psteps (abs_actions lit fl value vo acts st) (erase (fst st)) (erase (fst st')) /\ wf_attr (fst st') = true.
Proof. exact actions_refine. Qed.
Print Assumptions C03_chain_partial.

(* THE HISTORY THEOREM.  For every list of operations (History.hop: Set /
   Create / Delete, each the model of the corresponding Processor call run on the
   document the previous one left) that completes, each operation under its
   guard (hist_ok, computable along the model's own run: the invariants wf_attr /
   wf_doc hold where the operation starts, C03_set_exact's hypotheses for every
   change, every coordinate of a delete locates a node), the model's run REFINES the plain-data
   model over Doc.erase: Set = replacements at locations (dsubst), Delete = a
   removal at locations (dprune), Create = children appended (dembeds) followed by
   a replacement at the yielded location.  Guards exclude [name()] renames and
   matched set members (hence _partial); aliases used as keys are inside (F24
   repaired by fix 7612ed9) and a Delete step is no longer restricted (C04 F15
   repaired by fix 17f9ea8: C04_delete_exact is full). *)
Theorem C03_history_partial : forall lit fl ops d k d',
  hist_ok lit fl ops d = true -> run_ops lit fl ops d k = HDone d' ->
  psteps (abs_ops lit fl ops d) (erase d) (erase d').
Proof. exact history_refines. Qed.
Print Assumptions C03_history_partial.

(* ... and a history that fails stops at the failing operation; what was done before refines the plain-data run *)
Theorem C03_history_failed_prefix : forall lit fl ops d k d' e n,
  hist_ok lit fl ops d = true -> run_ops lit fl ops d k = HFailed d' e n ->
  exists done rest op d0, ops = done ++ op :: rest /\ n = (k + List.length done)%nat /\
    run_ops lit fl done d k = HDone d0 /\ psteps (abs_ops lit fl done d) (erase d) (erase d0) /\
    run_op lit fl op d0 = Failed d' e.
Proof. exact history_failed_prefix. Qed.
Print Assumptions C03_history_failed_prefix.

(* ---- concrete documents ---- *)
Definition pl (o : N) : info := mkinfo o None false None.
Definition ct (o : N) : info := mkinfo o None true None.
Definition an (o : N) (a : string) : info := mkinfo o (Some a) true None.
Definition sk (o : N) (s : string) : node := NLeaf (pl o) (PStr s).
Definition iv (o : N) (z : Z) : node := NLeaf (pl o) (PInt z).
Definition no_lit (s : string) : outcome litres := Ok LFail.
Definition no_fl (s : string) : outcome flres := Ok FFail.

(* [1, 1, 2]: the two 1s are ONE CPython object (oid 1) - DESIGN #13 *)
Definition doc13 : node := NSeq (ct 0) [iv 1 1; iv 1 1; iv 2 2].
Example C03_shared_int_nonvacuous :
  wf_attr doc13 = true /\ alias_clean 0 1 doc13 = true /\ mkeys_distinct doc13 = true /\
  update_node no_lit no_fl (mkpc (Some 0%N) (PInt 1)) (PStr "new") FBare 9 (doc13, 3%N)
  = ROk (NSeq (ct 0) [iv 1 1; NLeaf (mkinfo 3 None true None) (PStr "new"); iv 2 2], 4%N).
Proof. vm_compute. repeat split. Qed.

(* {k: &a x, l: [*a], m: *a}: the alias inside another sequence and under another key follow *)
Definition xa : node := NLeaf (an 2 "a") (PStr "x").
Definition doc23 : node :=
  NMap (ct 0) [ (sk 1 "k", xa); (sk 3 "l", NSeq (ct 4) [xa]); (sk 5 "m", xa) ].
Example C03_aliases_follow_nonvacuous :
  wf_attr doc23 = true /\ alias_clean 0 2 doc23 = true /\ mkeys_distinct doc23 = true /\
  update_node no_lit no_fl (mkpc (Some 0%N) (PStr "k")) (PStr "new") FBare 9 (doc23, 6%N)
  = ROk (let n := NLeaf (an 6 "a") (PStr "new") in
         NMap (ct 0) [ (sk 1 "k", n); (sk 3 "l", NSeq (ct 4) [n]); (sk 5 "m", n) ], 7%N).
Proof. vm_compute. repeat split. Qed.

(* {a: b, b: x}: key b is the same interned object (oid 2) as the old value; it is NOT renamed *)
Definition doc13b : node := NMap (ct 0) [ (sk 1 "a", sk 2 "b"); (sk 2 "b", sk 3 "x") ].
Example C03_key_spelled_like_value_nonvacuous :
  alias_clean 0 2 doc13b = true /\ mkeys_distinct doc13b = true /\
  update_node no_lit no_fl (mkpc (Some 0%N) (PStr "a")) (PStr "q") FBare 9 (doc13b, 4%N)
  = ROk (NMap (ct 0) [ (sk 1 "a", NLeaf (mkinfo 4 None true None) (PStr "q")); (sk 2 "b", sk 3 "x") ], 5%N).
Proof. vm_compute. repeat split. Qed.

(* non-vacuity of the history theorem: on {k: &a x, l: [*a], m: *a}
   set k := new (three locations change), delete l[0], create l[1].z := 7 (pads l[0], builds {z: 7}), set m := 5 *)
Definition hist23 : list hop :=
  [ HSet [CNode (mkpc (Some 0%N) (PStr "k")) false] (PStr "new") FBare None;
    HDelete [CNode (mkpc (Some 4%N) (PInt 0)) false];
    HCreate [SKey "l" (Some 3%N); SIdx 1; SKey "z" None] (PInt 7) FInt None;
    HSet [CNode (mkpc (Some 0%N) (PStr "m")) false] (PInt 5) FInt None ].
Example C03_history_nonvacuous :
  hist_ok no_lit no_fl hist23 doc23 = true /\
  match run_ops no_lit no_fl hist23 doc23 0 with
  | HDone d' =>
      erase d' = DMap [ (PStr "k", DLeaf (PInt 5));
                        (PStr "l", DSeq [DMap []; DMap [ (PStr "z", DLeaf (PInt 7)) ]]);
                        (PStr "m", DLeaf (PInt 5)) ]
  | HFailed _ _ _ => False
  end /\
  List.length (abs_ops no_lit no_fl hist23 doc23) = 8%nat.
Proof. vm_compute. repeat split. Qed.

(* ---- former known finding F24, repaired by fix 7612ed9 ----
   {m: {foo: bar, &n x: a}, c: *n}: the alias of the changed node is used as a
   KEY of m.
   set c := foo - the renamed key would land on the existing key foo (the old
   code dropped an entry of m: the former C03_alias_key_refuted / C03_history_refuted
   witness): refused with DuplicateKey, the document is unchanged.
   set c := new - inside the guard now: the value at c AND the key of m follow. *)
Definition nx : node := NLeaf (an 5 "n") (PStr "x").
Definition doc24 : node :=
  NMap (ct 0) [ (sk 1 "m", NMap (ct 2) [ (sk 3 "foo", sk 4 "bar"); (nx, sk 6 "a") ]);
                (sk 7 "c", nx) ].
Definition hist24 : list hop := [ HSet [CNode (mkpc (Some 0%N) (PStr "c")) false] (PStr "foo") FBare None ].
Definition hist24b : list hop := [ HSet [CNode (mkpc (Some 0%N) (PStr "c")) false] (PStr "new") FBare None ].

Example C03_alias_key_collision_repaired :
  key_conflict 5 (NLeaf (an 8 "n") (PStr "foo")) doc24 = true /\
  update_node no_lit no_fl (mkpc (Some 0%N) (PStr "c")) (PStr "foo") FBare 99 (doc24, 8%N) = RErr (YPE DuplicateKey) /\
  run_ops no_lit no_fl hist24 doc24 0 = HFailed doc24 (YPE DuplicateKey) 0.
Proof. vm_compute. repeat split. Qed.

Example C03_alias_key_follows_nonvacuous :
  wf_attr doc24 = true /\ alias_clean 0 5 doc24 = true /\ mkeys_distinct doc24 = true /\
  hist_ok no_lit no_fl hist24b doc24 = true /\
  run_ops no_lit no_fl hist24b doc24 0
  = HDone (let n := NLeaf (an 9 "n") (PStr "new") in
           NMap (ct 0) [ (sk 1 "m", NMap (ct 2) [ (sk 3 "foo", sk 4 "bar"); (n, sk 6 "a") ]); (sk 7 "c", n) ]) /\
  List.length (abs_ops no_lit no_fl hist24b doc24) = 2%nat.
Proof. vm_compute. repeat split. Qed.

(* ======================================================================== *)
(* END TO END with the read-side model (Model/Compose.v [ce_set] = the evaluator
   of Model/Eval.v gathering, Mutate.set_value changing; Proofs/EvalSet.v).
   The coordinates are no longer an input taken from the real library: they are
   what the required / optional query of the evaluator model yields.

   [ce_holds d loc s]      (Spec/C03e2e.v) the location loc = (identity of a
                            container object of d, reference) holds the node s
                            that the path semantics of Spec/SpecC01.v selects:
                            indexing that object by the reference gives the node
   [ce_set_spec .. locs st] the document C03's specification describes after
                            changing the children at the locations locs one
                            after the other: per location subst (designated ..)
                            then ksubst (kdesignated ..) with the one node
                            make_new_node built (the statement of C03_set_exact)
   Guards, all computable, all inherited:
     C01  c01_frag p (key, index, slice, anchor, search, *, **; no keyword, no
          collector), the document is not null, the strict reading of the
          specification marks nothing (F12a: descendant searches reaching
          several nodes; places where the documentation is silent);
     C02  slices_last (an array slice, whose result is a virtual list, may only
          stand last) - and here ce_plain: no virtual result at all, every
          selected result is a node of the document; ce_name_kw p = false (the
          last segment is no [name()]: true of every parsed path of the fragment);
     document  ce_doc_ok: every container object once (wf_docb), keys and set
          members are leaves (ce_flat) and identities small (ce_small) - what
          harness/docenc.py produces -, keys pairwise different (mkeys_distinct),
          ruamel containers carry the anchor attribute (wf_attr);
     C03  acts_ok along the run: every change addresses a node that is not a set
          member and is ONE object (alias_clean) - no root, no [name()] rename. *)
From YP Require Import PathParser Eval Compose SpecC01 EvalLocAll EvalSemTop C04delete EvalDelete C03e2e EvalSet.

Theorem C03_set_end_to_end :
  forall lit re_search nstr vstr kw_handler creator fl segs d value fmt vo,
    let p := PPath segs in
    let pcs := gathered lit re_search nstr vstr kw_handler creator p d in
    let s0 := sv_start vo (init_state d) in
    c01_frag p = true -> is_null_node d = false -> specified (sem_doc lit re_search nstr true p d) = true ->
    slices_last segs = true -> ce_name_kw p = false -> ce_plain (sem_doc lit re_search nstr false p d) = true ->
    ce_doc_ok d = true ->
    (* the coordinates handed to _apply_change are the locations of exactly the selected nodes, in order *)
    Forall2 (ce_holds d) (map pc_pair pcs) (sem_doc lit re_search nstr false p d) /\
    (* nothing selected: the Unmatched YAML Path error; no change was applied *)
    (sem_doc lit re_search nstr false p d = [] ->
     ce_set lit re_search nstr vstr kw_handler creator fl true p d value fmt vo = CeRead (Err (YPE Unmatched))) /\
    (* a completed call under C03's guard: the successive substitution at those locations; on plain data
       one replacement-at-locations and one re-filing of alias keys per selected node *)
    (acts_ok lit fl value (fst s0) (ce_acts fmt pcs) (snd s0) = true ->
     forall st', ce_set lit re_search nstr vstr kw_handler creator fl true p d value fmt vo = CeDone st' ->
       ce_set_spec lit fl value fmt (fst s0) (map pc_pair pcs) (snd s0) = Some st' /\
       psteps (abs_actions lit fl value (fst s0) (ce_acts fmt pcs) (snd s0)) (erase d) (erase (fst st')) /\
       wf_attr (fst st') = true).
Proof. exact set_required_e2e. Qed.
Print Assumptions C03_set_end_to_end.

(* the read half alone (no guard of C03 needed): which coordinates set_value / _apply_change receive *)
Theorem C03_gathered_locations_end_to_end :
  forall lit re_search nstr vstr kw_handler creator segs d,
    c01_frag (PPath segs) = true -> is_null_node d = false ->
    specified (sem_doc lit re_search nstr true (PPath segs) d) = true ->
    slices_last segs = true -> ce_plain (sem_doc lit re_search nstr false (PPath segs) d) = true ->
    wf_doc d -> ce_flat d = true -> ce_small d = true -> mkeys_distinct d = true ->
    Forall2 (ce_holds d) (map pc_pair (gathered lit re_search nstr vstr kw_handler creator (PPath segs) d))
            (sem_doc lit re_search nstr false (PPath segs) d) /\
    ce_coords false (fst (get_required lit re_search nstr vstr kw_handler creator (PPath segs) d))
    = Some (map (fun c => CNode c false) (gathered lit re_search nstr vstr kw_handler creator (PPath segs) d)) /\
    snd (get_required lit re_search nstr vstr kw_handler creator (PPath segs) d)
    = match sem_doc lit re_search nstr false (PPath segs) d with [] => Err (YPE Unmatched) | _ => Done end.
Proof. exact gathered_holds_sem. Qed.
Print Assumptions C03_gathered_locations_end_to_end.

(* set_value WITHOUT mustexist on a path that exists in every branch (opt_ok: at
   no reached node does a creatable segment find nothing - C09's F16b) is the
   mustexist=True call: same gather, same changes, no node created.  Any path. *)
Theorem C03_set_optional_end_to_end :
  forall lit re_search nstr vstr kw_handler creator fl segs d value fmt vo,
    let p := PPath segs in
    opt_ok lit re_search nstr vstr kw_handler creator (fuel_for p) segs 0 (RNode d) root_ctx = true ->
    fst (get_required lit re_search nstr vstr kw_handler creator p d) <> [] ->
    ce_set lit re_search nstr vstr kw_handler creator fl false p d value fmt vo
    = ce_set lit re_search nstr vstr kw_handler creator fl true p d value fmt vo.
Proof. exact set_optional_is_required. Qed.
Print Assumptions C03_set_optional_end_to_end.

(* a failing call (either route, any path): the changes before the failing one are complete, the failing one
   changed nothing (C03_failure_is_clean through the composition) *)
Theorem C03_set_failure_end_to_end :
  forall lit re_search nstr vstr kw_handler creator fl mustexist p d value fmt vo st e,
    ce_set lit re_search nstr vstr kw_handler creator fl mustexist p d value fmt vo = CeFailed st e ->
    exists cs done rest a,
      ce_coords (ce_name_kw p) (fst (ce_gather lit re_search nstr vstr kw_handler creator mustexist p d)) = Some cs /\
      flat_map (set_actions fmt) cs = (done ++ a :: rest)%list /\
      run_actions lit fl value (fst (sv_start vo (init_state d))) done (snd (sv_start vo (init_state d))) = SDone st /\
      apply_action lit fl value (fst (sv_start vo (init_state d))) a st = RErr e.
Proof. exact set_failed_clean. Qed.
Print Assumptions C03_set_failure_end_to_end.

(* ---- non-vacuity: {k: &a x, l: [*a, 1, 1], m: {k: y, z: *a}}; the two 1s are ONE object (oid 5) ---- *)
Definition e3_re (_ _ : string) : outcome reres := Ok (RMatch false).
Definition e3_kw (_ : bool) (_ : keyword) (_ : string) (_ : rval) (_ : ctx) : gen rval := gnil.
Definition e3_cr (_ : list pseg) (_ : nat) (_ : rval) (_ : ctx) : gen rval := ([], Mut 0 PNone).
Definition e3_nstr (_ : node) : string := "".
Definition e3_vstr (_ : list rval) : string := "".
Definition doc_e3 : node :=
  NMap (ct 0) [ (sk 1 "k", xa); (sk 3 "l", NSeq (ct 4) [xa; iv 5 1; iv 5 1]);
                (sk 6 "m", NMap (ct 7) [ (sk 1 "k", sk 8 "y"); (sk 9 "z", xa) ]) ].
(* every hypothesis of C03_set_end_to_end on (path text, value, format); the gathered locations; the result *)
Definition e3_check (text : string) (must : bool) (v : pyval) (fmt : vformat)
                    (locs : list (option N * pyval)) (want : data) : Prop :=
  match prepare 20 text with
  | Ok (PPath segs) =>
      let p := PPath segs in
      let pcs := gathered no_lit e3_re e3_nstr e3_vstr e3_kw e3_cr p doc_e3 in
      let s0 := sv_start None (init_state doc_e3) in
      c01_frag p = true /\ specified (sem_doc no_lit e3_re e3_nstr true p doc_e3) = true /\
      slices_last segs = true /\ ce_name_kw p = false /\
      ce_plain (sem_doc no_lit e3_re e3_nstr false p doc_e3) = true /\ ce_doc_ok doc_e3 = true /\
      acts_ok no_lit no_fl v (fst s0) (ce_acts fmt pcs) (snd s0) = true /\
      opt_ok no_lit e3_re e3_nstr e3_vstr e3_kw e3_cr (fuel_for p) segs 0 (RNode doc_e3) root_ctx = true /\
      map pc_pair pcs = locs /\
      match ce_set no_lit e3_re e3_nstr e3_vstr e3_kw e3_cr no_fl must p doc_e3 v fmt None with
      | CeDone st => erase (fst st) = want
      | _ => False
      end
  | _ => False
  end.

(* l[1]: the shared int at l[1] and l[2] - only the addressed position changes (DESIGN #13) *)
Example C03_end_to_end_nonvacuous_shared :
  e3_check "l[1]" true (PStr "new") FBare [(Some 4%N, PInt 1)]
    (DMap [ (PStr "k", DLeaf (PStr "x")); (PStr "l", DSeq [DLeaf (PStr "x"); DLeaf (PStr "new"); DLeaf (PInt 1)]);
            (PStr "m", DMap [ (PStr "k", DLeaf (PStr "y")); (PStr "z", DLeaf (PStr "x")) ]) ]).
Proof. vm_compute. repeat split. Qed.

(* /m/z = 5 as INT (forward-slash notation, optional route): one location gathered, all three aliases of &a follow *)
Example C03_end_to_end_nonvacuous_alias :
  e3_check "/m/z" false (PInt 5) FInt [(Some 7%N, PStr "z")]
    (DMap [ (PStr "k", DLeaf (PInt 5)); (PStr "l", DSeq [DLeaf (PInt 5); DLeaf (PInt 1); DLeaf (PInt 1)]);
            (PStr "m", DMap [ (PStr "k", DLeaf (PStr "y")); (PStr "z", DLeaf (PInt 5)) ]) ]).
Proof. vm_compute. repeat split. Qed.

(* **[.=x]: a deep traversal with a search gathers the anchored node at its three places, in document order;
   m.*: two locations of one mapping, the second an alias of a node outside it *)
Example C03_end_to_end_nonvacuous_many :
  e3_check "**[.=x]" true (PStr "new") FBare [(Some 0%N, PStr "k"); (Some 4%N, PInt 0); (Some 7%N, PStr "z")]
    (DMap [ (PStr "k", DLeaf (PStr "new")); (PStr "l", DSeq [DLeaf (PStr "new"); DLeaf (PInt 1); DLeaf (PInt 1)]);
            (PStr "m", DMap [ (PStr "k", DLeaf (PStr "y")); (PStr "z", DLeaf (PStr "new")) ]) ]) /\
  e3_check "m.*" false (PStr "new") FBare [(Some 7%N, PStr "k"); (Some 7%N, PStr "z")]
    (DMap [ (PStr "k", DLeaf (PStr "new")); (PStr "l", DSeq [DLeaf (PStr "new"); DLeaf (PInt 1); DLeaf (PInt 1)]);
            (PStr "m", DMap [ (PStr "k", DLeaf (PStr "new")); (PStr "z", DLeaf (PStr "new")) ]) ]).
Proof. vm_compute. repeat split. Qed.

(* nothing selected: the Unmatched YAML Path error with mustexist; without it the creating query (Mut: C09) *)
Example C03_end_to_end_unmatched :
  match prepare 20 "nokey" with
  | Ok p => ce_set no_lit e3_re e3_nstr e3_vstr e3_kw e3_cr no_fl true p doc_e3 (PInt 5) FInt None
            = CeRead (Err (YPE Unmatched)) /\
            ce_set no_lit e3_re e3_nstr e3_vstr e3_kw e3_cr no_fl false p doc_e3 (PInt 5) FInt None
            = CeRead (Mut 0 PNone)
  | _ => False
  end.
Proof. vm_compute. split; reflexivity. Qed.

(* ---- the Array slice that selects nothing (fix f20b613; Proofs/C03slice.v) ----
   a[5:9], a[2:1], a[-9:-7] on a three-element Array, [0:2] on an empty one: the read side gathers ONE NodeCoords
   whose node is an empty list of the evaluator and whose parent / parentref are the sliced Array and the START
   of the slice.  Before the fix _apply_change handed these to _update_node: `parent[start]` raised a bare
   IndexError past the end (yaml-set ended in a traceback) and, with the start within range, the element there -
   which the slice does NOT select - was replaced (a violation of the frame: a node the path did not match
   changed).  Now Processor._is_empty_slice recognises it (Compose.ce_coord: the coordinate CList []) and it
   contributes no change; both routes of set_value complete with the document they started with. *)
From YP Require Import C03slice.

Theorem C03_empty_slice_coordinate :
  forall nk i els z path anc, is_copy (NSeq i els) = false ->
    ce_coord nk (RCoords (RList []) (Some (RNode (NSeq i els))) (Some (PInt z)) path anc)
    = Some (CList [] (mkpc (Some (oid i)) (PInt z)) nk).
Proof. exact empty_slice_coord. Qed.
Print Assumptions C03_empty_slice_coordinate.

(* among any other gathered coordinates it adds no change ... *)
Theorem C03_empty_slice_changes_nothing :
  forall lit fl cs1 cs2 pc nk value fmt vo st,
    set_value lit fl (cs1 ++ CList [] pc nk :: cs2) value fmt vo st = set_value lit fl (cs1 ++ cs2) value fmt vo st.
Proof. exact set_empty_slice_skipped. Qed.
Print Assumptions C03_empty_slice_changes_nothing.

(* ... and a call whose gather is such slices only (either route, any value and format) completes, document unchanged *)
Theorem C03_empty_slice_end_to_end :
  forall lit re_search nstr vstr kw_handler creator fl mustexist p d value fmt vo items,
    ce_gather lit re_search nstr vstr kw_handler creator mustexist p d = (items, Done) ->
    forallb empty_slice_itemb items = true ->
    ce_set lit re_search nstr vstr kw_handler creator fl mustexist p d value fmt vo
    = CeDone (snd (sv_start vo (init_state d))).
Proof. exact set_empty_slices_e2e. Qed.
Print Assumptions C03_empty_slice_end_to_end.

(* non-vacuity and the repaired behaviour on doc_e3 (l = [*a, 1, 1]): l[5:9] (was: IndexError), l[2:1] (was: l[2]
   replaced), l[-9:-7]; the hypotheses of C03_empty_slice_end_to_end hold for them; a real empty sequence is
   still an ordinary node *)
Definition e3_slice_check (text : string) (must : bool) : Prop :=
  match prepare 20 text with
  | Ok p =>
      let g := ce_gather no_lit e3_re e3_nstr e3_vstr e3_kw e3_cr must p doc_e3 in
      snd g = Done /\ List.length (fst g) = 1 /\ forallb empty_slice_itemb (fst g) = true /\
      ce_set no_lit e3_re e3_nstr e3_vstr e3_kw e3_cr no_fl must p doc_e3 (PStr "new") FBare None
      = CeDone (snd (sv_start None (init_state doc_e3)))
  | _ => False
  end.
Example C03_empty_slice_repaired :
  e3_slice_check "l[5:9]" true /\ e3_slice_check "l[5:9]" false /\ e3_slice_check "l[2:1]" true /\
  e3_slice_check "l[2:1]" false /\ e3_slice_check "l[-9:-7]" true /\
  fst (snd (sv_start None (init_state doc_e3))) = doc_e3.
Proof. vm_compute. repeat split. Qed.

(* ======================================================================== *)
(* HISTORIES given as PATHS (Model/Compose.v [ce_hop] / [ce_run_ops]; Proofs/EvalHistory.v): a step is
   set_value(path, value, mustexist) / set_value on a missing straight path / delete_nodes(path), and every
   Set / Delete step gathers its coordinates with the evaluator model on the document the previous step LEFT.

   (1) REFINEMENT, no guard: a completed run is the run of History.run_ops (the subject of
       C03_history_partial) over the plain history [ce_trace ops d], whose coordinates are the evaluator's own
       answers, step by step.
   (2) Hence, under C03's guard hist_ok evaluated on that trace (wf_attr / wf_docb where an operation starts;
       acts_ok for every change; every coordinate of a delete locates a node), the run refines the plain-data
       run: C03_history_partial.
   (3) Under the per-step guards of C03_set_end_to_end, evaluated on the document of that moment
       (ce_hist_guard, computable: C01's fragment and strict reading, slices last, no virtual result, ce_doc_ok;
       for a step without mustexist: opt_ok and the path selects something), the coordinates of every Set /
       Delete step are the locations of exactly the nodes sem_doc selects THERE, in order (ce_hist_sem).
   What remains a guard and is not derived: that ce_doc_ok / wf_attr / wf_docb survive a step (they are
   evaluated at every step, as in C03_history_partial), and del_all_located for Delete steps (C04's hypothesis). *)
From YP Require Import EvalHistory.

Theorem C03_history_end_to_end :
  forall lit re_search nstr vstr kw_handler creator fl ops d k d',
    ce_run_ops lit re_search nstr vstr kw_handler creator fl ops d k = ChDone d' ->
    exists hops,
      ce_trace lit re_search nstr vstr kw_handler creator fl ops d = Some hops /\
      List.length hops = List.length ops /\
      run_ops lit fl hops d k = HDone d' /\
      (hist_ok lit fl hops d = true -> psteps (abs_ops lit fl hops d) (erase d) (erase d')) /\
      (ce_hist_guard lit re_search nstr vstr kw_handler creator fl ops d = true ->
       ce_hist_sem lit re_search nstr vstr kw_handler creator fl ops d).
Proof. exact history_e2e. Qed.
Print Assumptions C03_history_end_to_end.

(* one step: what [ce_hist_sem] says at each position *)
Theorem C03_history_step_end_to_end :
  forall lit re_search nstr vstr kw_handler creator fl op d d',
    ce_step_guard lit re_search nstr vstr kw_handler creator op d = true ->
    ce_run_op lit re_search nstr vstr kw_handler creator fl op d = CsDone d' ->
    ce_step_sem lit re_search nstr vstr kw_handler creator op d.
Proof. exact step_sem. Qed.
Print Assumptions C03_history_step_end_to_end.

(* a failing history: the completed prefix is a run of History.run_ops over its trace (C03_history_failed_prefix
   applies to it); the failing step is the model of the failing call on the document then *)
Theorem C03_history_failed_end_to_end :
  forall lit re_search nstr vstr kw_handler creator fl ops d k d' e n,
    ce_run_ops lit re_search nstr vstr kw_handler creator fl ops d k = ChFailed d' e n ->
    exists done op rest d0 hops,
      ops = (done ++ op :: rest)%list /\ n = (k + List.length done)%nat /\
      ce_trace lit re_search nstr vstr kw_handler creator fl done d = Some hops /\
      run_ops lit fl hops d k = HDone d0 /\
      ce_run_op lit re_search nstr vstr kw_handler creator fl op d0 = CsFailed d' e.
Proof. exact run_ops_trace_failed. Qed.
Print Assumptions C03_history_failed_end_to_end.

(* non-vacuity on {k: &a x, l: [*a, 1, 1], m: {k: y, z: *a}}:
   set l[1] := new (mustexist) / delete **[.=x] (the anchored node at its three places) /
   create m.q[1] := 7 / set /m/k := 5 without mustexist.  Both guards hold along the run; the trace carries
   the coordinates the evaluator gathered on the document of each moment; 8 plain-data steps. *)
Definition e3_pp (t : string) : ppath := match prepare 20 t with Ok p => p | _ => PFail (YPE Generic) end.
Definition hist_e3 : list ce_hop :=
  [ CeSet true (e3_pp "l[1]") (PStr "new") FBare None;
    CeDelete (e3_pp "**[.=x]");
    CeCreate [SKey "m" (Some 6%N); SKey "q" None; SIdx 1] (PInt 7) FInt None;
    CeSet false (e3_pp "/m/k") (PInt 5) FInt None ].
Example C03_history_end_to_end_nonvacuous :
  ce_hist_guard no_lit e3_re e3_nstr e3_vstr e3_kw e3_cr no_fl hist_e3 doc_e3 = true /\
  match ce_run_ops no_lit e3_re e3_nstr e3_vstr e3_kw e3_cr no_fl hist_e3 doc_e3 0,
        ce_trace no_lit e3_re e3_nstr e3_vstr e3_kw e3_cr no_fl hist_e3 doc_e3 with
  | ChDone d', Some hops =>
      hist_ok no_lit no_fl hops doc_e3 = true /\
      hops = [ HSet [CNode (mkpc (Some 4%N) (PInt 1)) false] (PStr "new") FBare None;
               HDelete [CNode (mkpc (Some 0%N) (PStr "k")) false; CNode (mkpc (Some 4%N) (PInt 0)) false;
                        CNode (mkpc (Some 7%N) (PStr "z")) false];
               HCreate [SKey "m" (Some 6%N); SKey "q" None; SIdx 1] (PInt 7) FInt None;
               HSet [CNode (mkpc (Some 7%N) (PStr "k")) false] (PInt 5) FInt None ] /\
      erase d' = DMap [ (PStr "l", DSeq [DLeaf (PStr "new"); DLeaf (PInt 1)]);
                        (PStr "m", DMap [ (PStr "k", DLeaf (PInt 5));
                                          (PStr "q", DSeq [DLeaf (PInt 7); DLeaf (PInt 7)]) ]) ] /\
      List.length (abs_ops no_lit no_fl hops doc_e3) = 8%nat
  | _, _ => False
  end.
Proof. vm_compute. repeat split. Qed.

(* ======================================================================== *)
(* ROUND gapE: the document invariants are DERIVED, key renames are INSIDE.

   doc_inv d (Spec/C03guard.v) = wf_attr (ruamel containers carry the anchor attribute) &&
   wf_docb (every container object sits at one place) && mkeys_distinct (the keys of a mapping are
   pairwise different) && ce_flat (keys and set members are scalars): what every loaded document
   satisfies.  It is proved to survive every kind of change a history is made of, so the history
   theorems ask it of the FIRST document only; the guards that remain (act_ok2 / hist_ok2) speak about
   the matched node alone (alias_clean: it is no set member and it is one object) and, for a Delete, ask
   that every gathered coordinate locates a node. *)
From YP Require Import C03inv C03invCreate C03guard C03rename C03history2 EvalHistory2.

(* Delete: the document without the designated children (C04's prune, any designation) *)
Theorem C03_wf_preserved_prune : forall T d, doc_inv d = true -> doc_inv (prune T d) = true.
Proof. exact prune_doc_inv. Qed.
Print Assumptions C03_wf_preserved_prune.

(* ... hence every completed delete_nodes call (the repaired delete plan = prune: C04_delete_exact) *)
Theorem C03_wf_preserved_delete : forall cs d d',
  doc_inv d = true -> del_all_located d (pairs_of cs) = true ->
  delete_nodes cs d = MDone d' -> doc_inv d' = true.
Proof. exact delete_doc_inv. Qed.
Print Assumptions C03_wf_preserved_delete.

(* Create: the construction branch of _get_optional_nodes on a straight path (Create.walk, run from the
   first identity the document does not use).  The new document satisfies the invariants - every
   container it built has an identity of its own - and a container identity of the new document is
   either one of the old document or a fresh one below the counter the walk returns. *)
Theorem C03_wf_preserved_create : forall lit segs value vo d vo' d1 pc next1,
  doc_inv d = true ->
  create_walk lit segs value vo d = (vo', ROk (d1, pc, next1)) ->
  doc_inv d1 = true /\
  (forall x, In x (coids d1) -> In x (coids d) \/ (N.succ (max_oid d) <= x < next1)%N).
Proof. exact create_walk_inv. Qed.
Print Assumptions C03_wf_preserved_create.

(* THE KEY RENAME ([name()] branch of _apply_change, CommentedMap), every case: a parent that is None
   or no mapping is refused; a new name that is already a key of the parent (`value in parent`) is
   refused with DuplicateKey and nothing changes; otherwise the entry at the FIRST key == parentref is
   filed under the new name - krename: same place, same value, every other entry untouched - and a
   parentref that is no key of the parent changes nothing.  (ruamel's ordereddict.insert(i, value,
   pop(k)) is the positional replacement because the keys are pairwise different: od_insert_replace.) *)
Theorem C03_rename_exact : forall p value vo d,
  wf_doc d -> mkeys_distinct d = true ->
  match pc_parent p with
  | None => rename_key p value vo d = RErr (YPE Generic)
  | Some o =>
      match find_obj o d with
      | None => rename_key p value vo d = ROk d
      | Some (NMap i kvs) =>
          if existsb (key_is value) kvs then rename_key p value vo d = RErr (YPE DuplicateKey)
          else match find_idx (key_is (pc_ref p)) kvs with
               | Some idx => rename_key p value vo d = ROk (krename o idx (NLeaf (mkinfo vo None false None) value) d)
               | None => rename_key p value vo d = ROk d
               end
      | Some _ => rename_key p value vo d = RErr (YPE Generic)
      end
  end.
Proof. exact rename_exact. Qed.
Print Assumptions C03_rename_exact.

(* ... and on plain data it is the re-filing of that one entry *)
Theorem C03_rename_erase : forall o idx vi value d,
  erase (krename o idx (NLeaf vi value) d) = drekey (mask_entry o idx d) value (erase d).
Proof. exact erase_krename. Qed.
Print Assumptions C03_rename_erase.

(* THE CHAIN, renames included: every change of one set_value call is either a key rename (one PRekey at
   the renamed entry) or the substitution of C03_set_exact (one PReplace + one PRekey of the alias keys);
   a change that addresses nothing leaves the document alone; the invariants survive, and no container
   identity is new.  Hypotheses: doc_inv of the document the call starts from; guard acts_ok2 =
   alias_clean of every matched node (the node is no set member, it is one object). *)
Theorem C03_chain : forall lit fl value vo acts st st',
  doc_inv (fst st) = true -> acts_ok2 lit fl value vo acts st = true ->
  run_actions lit fl value vo acts st = SDone st' ->
  psteps (abs_actions2 lit fl value vo acts st) (erase (fst st)) (erase (fst st')) /\ doc_inv (fst st') = true /\
  incl (coids (fst st')) (coids (fst st)).
Proof. exact actions_refine2. Qed.
Print Assumptions C03_chain.

(* THE HISTORY THEOREM: for every list of Set (renames included) / Create / Delete operations that
   completes, the invariants asked of the FIRST document only, the run refines the plain-data run and
   the last document satisfies the invariants again. *)
Theorem C03_history : forall lit fl ops d k d',
  doc_inv d = true -> hist_ok2 lit fl ops d = true -> run_ops lit fl ops d k = HDone d' ->
  psteps (abs_ops2 lit fl ops d) (erase d) (erase d') /\ doc_inv d' = true.
Proof. exact history_refines2. Qed.
Print Assumptions C03_history.

Theorem C03_history_failed_prefix_inv : forall lit fl ops d k d' e n,
  doc_inv d = true -> hist_ok2 lit fl ops d = true -> run_ops lit fl ops d k = HFailed d' e n ->
  exists done rest op d0, ops = (done ++ op :: rest)%list /\ n = (k + List.length done)%nat /\
    run_ops lit fl done d k = HDone d0 /\ psteps (abs_ops2 lit fl done d) (erase d) (erase d0) /\
    doc_inv d0 = true /\ run_op lit fl op d0 = Failed d' e.
Proof. exact history_failed_prefix2. Qed.
Print Assumptions C03_history_failed_prefix_inv.

(* PATH histories: ce_doc_ok (= doc_inv && identities below the evaluator model's private range) of the
   FIRST document; the per-step guards are the read-side guards of C03_set_end_to_end WITHOUT their
   document clause (ce_hist_guard2; for a Create step: the counter the walk returns stays below
   Eval.copy_base = 2^32, a bound of the MODEL) and hist_ok2 of the trace. *)
Theorem C03_history_end_to_end_inv :
  forall lit re_search nstr vstr kw_handler creator fl ops d k d',
    ce_doc_ok d = true ->
    ce_run_ops lit re_search nstr vstr kw_handler creator fl ops d k = ChDone d' ->
    exists hops,
      ce_trace lit re_search nstr vstr kw_handler creator fl ops d = Some hops /\
      List.length hops = List.length ops /\
      run_ops lit fl hops d k = HDone d' /\
      (hist_ok2 lit fl hops d = true ->
         psteps (abs_ops2 lit fl hops d) (erase d) (erase d') /\ doc_inv d' = true /\
         (ce_hist_guard2 lit re_search nstr vstr kw_handler creator fl ops d = true ->
          ce_hist_sem lit re_search nstr vstr kw_handler creator fl ops d)).
Proof. exact history_e2e2. Qed.
Print Assumptions C03_history_end_to_end_inv.

(* non-vacuity: on {k: &a x, l: [*a], m: *a}
   rename k -> kk ([name()]) / set kk := new (three locations) / delete l[0] / create l[1].z := 7 / rename m -> n:
   doc_inv holds of the first document, the guard hist_ok2 along the run; 8 plain-data steps. *)
Definition hist23r : list hop :=
  [ HSet [CNode (mkpc (Some 0%N) (PStr "k")) true] (PStr "kk") FDefault None;
    HSet [CNode (mkpc (Some 0%N) (PStr "kk")) false] (PStr "new") FBare None;
    HDelete [CNode (mkpc (Some 4%N) (PInt 0)) false];
    HCreate [SKey "l" (Some 3%N); SIdx 1; SKey "z" None] (PInt 7) FInt None;
    HSet [CNode (mkpc (Some 0%N) (PStr "m")) true] (PStr "n") FDefault None ].
Example C03_history_rename_nonvacuous :
  doc_inv doc23 = true /\ hist_ok2 no_lit no_fl hist23r doc23 = true /\
  match run_ops no_lit no_fl hist23r doc23 0 with
  | HDone d' =>
      erase d' = DMap [ (PStr "kk", DLeaf (PStr "new"));
                        (PStr "l", DSeq [DMap []; DMap [ (PStr "z", DLeaf (PInt 7)) ]]);
                        (PStr "n", DLeaf (PStr "new")) ]
  | HFailed _ _ _ => False
  end /\
  List.length (abs_ops2 no_lit no_fl hist23r doc23) = 8%nat.
Proof. vm_compute. repeat split. Qed.

(* a rename onto an existing key is refused and nothing changes; a rename in a sequence is refused *)
Example C03_rename_refused :
  run_ops no_lit no_fl [HSet [CNode (mkpc (Some 0%N) (PStr "k")) true] (PStr "m") FDefault None] doc23 0
  = HFailed doc23 (YPE DuplicateKey) 0 /\
  run_ops no_lit no_fl [HSet [CNode (mkpc (Some 4%N) (PInt 0)) true] (PStr "q") FDefault None] doc23 0
  = HFailed doc23 (YPE Generic) 0.
Proof. vm_compute. split; reflexivity. Qed.

(* the path history of C03_history_end_to_end_nonvacuous satisfies the new hypotheses as well *)
Example C03_history_end_to_end_inv_nonvacuous :
  ce_doc_ok doc_e3 = true /\
  ce_hist_guard2 no_lit e3_re e3_nstr e3_vstr e3_kw e3_cr no_fl hist_e3 doc_e3 = true /\
  match ce_trace no_lit e3_re e3_nstr e3_vstr e3_kw e3_cr no_fl hist_e3 doc_e3 with
  | Some hops => hist_ok2 no_lit no_fl hops doc_e3 = true /\ List.length (abs_ops2 no_lit no_fl hops doc_e3) = 8%nat
  | None => False
  end.
Proof. vm_compute. repeat split. Qed.

(* the guard of C03_history asks less than the guard of C03_history_partial (which re-checked wf_attr /
   wf_docb / mkeys_distinct at every operation and excluded renames) *)
Theorem C03_guard_weaker : forall lit fl ops d, hist_ok lit fl ops d = true -> hist_ok2 lit fl ops d = true.
Proof. exact hist_ok_ok2. Qed.
Print Assumptions C03_guard_weaker.
