(* C11 -- A merge aimed at a path changes only what lies under that path.
   Statements only; proofs in Proofs/MergeAtProofs.v.  The target locations
   (and the document after the creation of a missing path) are inputs obtained
   from the real Processor; see Model/MergeAt.v. *)
From Coq Require Import List Ascii String ZArith NArith Bool.
From YP Require Import Outcome PyStr PyVal Doc PathParser Searches MergeConfig Merge MergeAt MergeAtProofs.
(* obligations tying the models' literal tables to the tables regenerated from the source *)
From YP Require Import GenTables.
Import ListNotations.
Open Scope list_scope.

(* FRAME: every location that leaves every target path (at some step it takes a
   child reference that can never address the target's child) holds after the
   merge what it held before -- for every document, right-hand document,
   configuration and target list. *)
Theorem C11_frame :
  forall lit cfg is_root targets doc rhs out p,
    merge_at lit cfg is_root targets doc rhs = Ok out ->
    Forall (fun t => leaves t p) targets ->
    lookup out p = lookup doc p.
Proof. exact merge_at_frame. Qed.
Print Assumptions C11_frame.

(* EVERY matched node becomes what C05's per-target dispatch makes of its old
   content and the right-hand document: [t] is any of the targets, the others
   (before and after it in the list) lie apart from it.  No guard: since the
   repairs 6840572 and c8dbfd9 this holds for every right-hand document,
   configuration and kind of target. *)
Theorem C11_targets_merged :
  forall lit cfg is_root pre t post doc rhs out old,
    is_none rhs = false ->
    merge_at lit cfg is_root (pre ++ t :: post) doc rhs = Ok out ->
    Forall (fun t' => leaves t' t) (pre ++ post) ->
    lookup doc t = Some old ->
    exists new, merge_target lit cfg is_root rhs old = Ok new /\ lookup out t = Some new.
Proof. exact every_target_holds_dispatch. Qed.
Print Assumptions C11_targets_merged.

(* ... and that is the node C05's per-target insert RETURNS (at the root and
   away from it alike), unless the target already is the right-hand document
   (a created path) or a Scalar receives a Scalar (it takes the new value) *)
Theorem C11_target_is_policy_merge :
  forall lit cfg is_root rhs t,
    same_obj t rhs = false -> (is_leaf rhs && is_leaf t = false) ->
    merge_target lit cfg is_root rhs t = (do m <- insert_any lit cfg t rhs; Ok (ret m)).
Proof. exact merge_target_is_returned. Qed.
Print Assumptions C11_target_is_policy_merge.

(* a path that matches nothing and cannot be created: merge error *)
Theorem C11_unmatched_is_error :
  forall lit cfg is_root doc rhs,
    is_none rhs = false -> merge_at lit cfg is_root [] doc rhs = Raise MergeExc.
Proof. exact no_target_is_error. Qed.
Print Assumptions C11_unmatched_is_error.

(* ---- examples ---- *)
Open Scope N_scope.
Definition no_lit (s : string) : outcome litres := Ok LFail.
Definition lf (o : N) (v : pyval) : node := NLeaf (mkinfo o None false None) v.
Definition mp (o : N) (kvs : list (node * node)) := NMap (mkinfo o None true None) kvs.
Definition ky (s : string) := lf 2 (PStr s).
Definition cfg0 : mconfig := mkconfig false [] [] None None None None None None None None None None.
Definition cfg_hr : mconfig := mkconfig false [] [] (Some "right"%string) None None None None None None None None None.

(* {a: {b: 1}, k: 5} merged with {c: 2} at /a *)
Example C11_example :
  merge_at no_lit cfg0 false [[RKey (PStr "a")]]
    (mp 10 [(ky "a", mp 11 [(ky "b", lf 3 (PInt 1))]); (ky "k", lf 4 (PInt 5))])
    (mp 20 [(ky "c", lf 5 (PInt 2))]) =
  Ok (mp 10 [(ky "a", mp 11 [(ky "b", lf 3 (PInt 1)); (ky "c", lf 5 (PInt 2))]); (ky "k", lf 4 (PInt 5))]).
Proof. vm_compute. reflexivity. Qed.

Example C11_leaves_example : leaves [RKey (PStr "a")] [RKey (PStr "k")].
Proof. left. intros e H. destruct e; simpl in *; try discriminate.
  unfold py_eq in *; simpl in *. destruct (String.eqb s "a") eqn:E; [|discriminate].
  apply String.eqb_eq in E; subst. reflexivity. Qed.

(* FORMER FINDING F-C11-1 (repaired by 6840572): away from the root the RETURNED
   merge result reaches the document: hashes=right at /a replaces /a. *)
Example C11_right_at_path :
  merge_at no_lit cfg_hr false [[RKey (PStr "a")]]
    (mp 10 [(ky "a", mp 11 [(ky "b", lf 3 (PInt 1))])])
    (mp 20 [(ky "c", lf 5 (PInt 2))]) =
  Ok (mp 10 [(ky "a", mp 20 [(ky "c", lf 5 (PInt 2))])]).
Proof. vm_compute. reflexivity. Qed.

(* ... and so does a list re-built by arrays=unique: {a: [1, 2]} + [2, 3] at /a gives {a: [1, 2, 3]} *)
Definition sq (o : N) (els : list node) := NSeq (mkinfo o None true None) els.
Definition cfg_au : mconfig := mkconfig false [] [] None (Some "unique"%string) None None None None None None None None.
Example C11_unique_at_path :
  exists i,
  merge_at no_lit cfg_au false [[RKey (PStr "a")]]
    (mp 10 [(ky "a", sq 11 [lf 3 (PInt 1); lf 4 (PInt 2)])])
    (sq 20 [lf 4 (PInt 2); lf 5 (PInt 3)]) =
  Ok (mp 10 [(ky "a", NSeq i [lf 3 (PInt 1); lf 4 (PInt 2); lf 5 (PInt 3)])]).
Proof. eexists. vm_compute. reflexivity. Qed.

(* FORMER FINDING F-C11-2 (repaired by c8dbfd9): {a: [1, 2], k: 5} + 7 at /*:
   the Array receives the Scalar, the Scalar is replaced by it. *)
Example C11_scalar_at_two_targets :
  merge_at no_lit cfg0 false [[RKey (PStr "a")]; [RKey (PStr "k")]]
    (mp 10 [(ky "a", sq 11 [lf 3 (PInt 1); lf 4 (PInt 2)]); (ky "k", lf 6 (PInt 5))])
    (lf 7 (PInt 7)) =
  Ok (mp 10 [(ky "a", sq 11 [lf 3 (PInt 1); lf 4 (PInt 2); lf 7 (PInt 7)]); (ky "k", lf 6 (PInt 7))]).
Proof. vm_compute. reflexivity. Qed.
