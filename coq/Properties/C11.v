(* C11 -- A merge aimed at a path changes only what lies under that path.
   Statements only; proofs in Proofs/MergeAtProofs.v.  The target locations
   (and the document after the creation of a missing path) are inputs obtained
   from the real Processor; see Model/MergeAt.v. *)
From Coq Require Import List Ascii String ZArith NArith Bool.
From YP Require Import Outcome PyStr PyVal Doc PathParser Searches MergeConfig Merge MergeAt MergeAtProofs.
From YP Require Import Mutate Create C04spec C09create C09doc MergeAtCreate.
(* obligations tying the models' literal tables to the tables regenerated from the source *)
From YP Require Import GenTables.
Import ListNotations.
Open Scope list_scope.

(* FRAME: every location that leaves every target path (at some step it takes a
   child reference that can never address the target's child) holds after the
   merge what it held before -- for every document, right-hand document,
   configuration and target list. *)
Theorem C11_frame :
  forall lit cfg is_root targets doc rhs out p,
    merge_at lit cfg is_root targets doc rhs = Ok out ->
    Forall (fun t => leaves t p) targets ->
    lookup out p = lookup doc p.
Proof. exact merge_at_frame. Qed.
Print Assumptions C11_frame.

(* EVERY matched node becomes what C05's per-target dispatch makes of its old
   content and the right-hand document: [t] is any of the targets, the others
   (before and after it in the list) lie apart from it.  No guard: since the
   repairs 6840572 and c8dbfd9 this holds for every right-hand document,
   configuration and kind of target. *)
Theorem C11_targets_merged :
  forall lit cfg is_root pre t post doc rhs out old,
    is_none rhs = false ->
    merge_at lit cfg is_root (pre ++ t :: post) doc rhs = Ok out ->
    Forall (fun t' => leaves t' t) (pre ++ post) ->
    lookup doc t = Some old ->
    exists new, merge_target lit cfg is_root rhs old = Ok new /\ lookup out t = Some new.
Proof. exact every_target_holds_dispatch. Qed.
Print Assumptions C11_targets_merged.

(* ... and that is the node C05's per-target insert RETURNS (at the root and
   away from it alike), unless the target already is the right-hand document
   (a created path) or a Scalar receives a Scalar (it takes the new value) *)
Theorem C11_target_is_policy_merge :
  forall lit cfg is_root rhs t,
    same_obj t rhs = false -> (is_leaf rhs && is_leaf t = false) ->
    merge_target lit cfg is_root rhs t = (do m <- insert_any lit cfg t rhs; Ok (ret m)).
Proof. exact merge_target_is_returned. Qed.
Print Assumptions C11_target_is_policy_merge.

(* a path that matches nothing and cannot be created: merge error *)
Theorem C11_unmatched_is_error :
  forall lit cfg is_root doc rhs,
    is_none rhs = false -> merge_at lit cfg is_root [] doc rhs = Raise MergeExc.
Proof. exact no_target_is_error. Qed.
Print Assumptions C11_unmatched_is_error.

(* ---- examples ---- *)
Open Scope N_scope.
Definition no_lit (s : string) : outcome litres := Ok LFail.
Definition lf (o : N) (v : pyval) : node := NLeaf (mkinfo o None false None) v.
Definition mp (o : N) (kvs : list (node * node)) := NMap (mkinfo o None true None) kvs.
Definition ky (s : string) := lf 2 (PStr s).
Definition cfg0 : mconfig := mkconfig false [] [] None None None None None None None None None None.
Definition cfg_hr : mconfig := mkconfig false [] [] (Some "right"%string) None None None None None None None None None.

(* {a: {b: 1}, k: 5} merged with {c: 2} at /a *)
Example C11_example :
  merge_at no_lit cfg0 false [[RKey (PStr "a")]]
    (mp 10 [(ky "a", mp 11 [(ky "b", lf 3 (PInt 1))]); (ky "k", lf 4 (PInt 5))])
    (mp 20 [(ky "c", lf 5 (PInt 2))]) =
  Ok (mp 10 [(ky "a", mp 11 [(ky "b", lf 3 (PInt 1)); (ky "c", lf 5 (PInt 2))]); (ky "k", lf 4 (PInt 5))]).
Proof. vm_compute. reflexivity. Qed.

Example C11_leaves_example : leaves [RKey (PStr "a")] [RKey (PStr "k")].
Proof. left. intros e H. destruct e; simpl in *; try discriminate.
  unfold py_eq in *; simpl in *. destruct (String.eqb s "a") eqn:E; [|discriminate].
  apply String.eqb_eq in E; subst. reflexivity. Qed.

(* FORMER FINDING F-C11-1 (repaired by 6840572): away from the root the RETURNED
   merge result reaches the document: hashes=right at /a replaces /a. *)
Example C11_right_at_path :
  merge_at no_lit cfg_hr false [[RKey (PStr "a")]]
    (mp 10 [(ky "a", mp 11 [(ky "b", lf 3 (PInt 1))])])
    (mp 20 [(ky "c", lf 5 (PInt 2))]) =
  Ok (mp 10 [(ky "a", mp 20 [(ky "c", lf 5 (PInt 2))])]).
Proof. vm_compute. reflexivity. Qed.

(* ... and so does a list re-built by arrays=unique: {a: [1, 2]} + [2, 3] at /a gives {a: [1, 2, 3]} *)
Definition sq (o : N) (els : list node) := NSeq (mkinfo o None true None) els.
Definition cfg_au : mconfig := mkconfig false [] [] None (Some "unique"%string) None None None None None None None None.
Example C11_unique_at_path :
  exists i,
  merge_at no_lit cfg_au false [[RKey (PStr "a")]]
    (mp 10 [(ky "a", sq 11 [lf 3 (PInt 1); lf 4 (PInt 2)])])
    (sq 20 [lf 4 (PInt 2); lf 5 (PInt 3)]) =
  Ok (mp 10 [(ky "a", NSeq i [lf 3 (PInt 1); lf 4 (PInt 2); lf 5 (PInt 3)])]).
Proof. eexists. vm_compute. reflexivity. Qed.

(* FORMER FINDING F-C11-2 (repaired by c8dbfd9): {a: [1, 2], k: 5} + 7 at /*:
   the Array receives the Scalar, the Scalar is replaced by it. *)
Example C11_scalar_at_two_targets :
  merge_at no_lit cfg0 false [[RKey (PStr "a")]; [RKey (PStr "k")]]
    (mp 10 [(ky "a", sq 11 [lf 3 (PInt 1); lf 4 (PInt 2)]); (ky "k", lf 6 (PInt 5))])
    (lf 7 (PInt 7)) =
  Ok (mp 10 [(ky "a", sq 11 [lf 3 (PInt 1); lf 4 (PInt 2); lf 7 (PInt 7)]); (ky "k", lf 6 (PInt 7))]).
Proof. vm_compute. reflexivity. Qed.

(* ---- a MISSING target path (creation is the Processor's: C09; adapter in Proofs/MergeAtCreate.v) ---- *)

(* A created path that holds the right-hand document itself (a Hash / Array /
   Set handed to Processor.get_nodes as default_value is stored as it is) still
   holds it after the merge: the loop leaves such a target alone.  Every kind
   of right-hand document, every configuration; with C11_frame for the rest of
   the document. *)
Theorem C11_created_target_holds_rhs :
  forall lit cfg is_root l d' rhs out,
    is_none rhs = false ->
    lookup d' l = Some rhs ->
    merge_at lit cfg is_root [l] d' rhs = Ok out ->
    lookup out l = Some rhs.
Proof. exact created_target_keeps_rhs. Qed.
Print Assumptions C11_created_target_holds_rhs.

(* The closed composition with C09's creation model (Create.create_query =
   Processor.get_nodes(path, default_value=value) along a straight key / index
   path), for the right-hand documents that model covers (Scalars).  Guard
   [creates]: C09's guard (something is missing; the existing prefix does not
   end at a null - F10b; the missing tail does not start below a set - F25).
   [l] is the location the path denotes in the document after creation
   ([resolve_loc]; it exists: C11_created_location_exists).  Then, after the
   merge, [l] holds the right-hand value, and every node that existed before,
   off the path, is still at its place: same identity, anchor, tag, Scalars
   the same value, containers with at most more children. *)
Theorem C11_missing_created_partial :
  forall lit cfg segs value vo d d' pc next' ri l w out,
    wf_doc d -> creates d segs = true ->
    null_prefix d segs = false ->   (* the existing prefix does not end at a null (else that null is replaced by a container: C09) *)
    create_query lit segs value vo d = ROk (d', pc, next') ->
    resolve_loc d' segs = Some (l, w) ->
    is_none (NLeaf ri value) = false ->
    (same_obj w (NLeaf ri value) = true -> w = NLeaf ri value) ->
    merge_at lit cfg false [l] d' (NLeaf ri value) = Ok out ->
    (exists i, lookup out l = Some (NLeaf i value)) /\
    (forall p n, lookup d p = Some n -> leaves l p ->
       exists n', lookup out p = Some n' /\ embeds n n' /\ node_info n' = node_info n /\
                  (is_leaf n = true -> n' = n)).
Proof. exact missing_created_scalar. Qed.
Print Assumptions C11_missing_created_partial.

Theorem C11_created_location_exists :
  forall lit segs value vo d d' pc next',
    wf_doc d -> creates d segs = true ->
    create_query lit segs value vo d = ROk (d', pc, next') ->
    exists l w, resolve_loc d' segs = Some (l, w) /\ List.length l = List.length segs /\ is_leaf w = true.
Proof. exact created_location_exists. Qed.
Print Assumptions C11_created_location_exists.

(* non-vacuity: {a: 1} + 7 at /x/y  ->  {a: 1, x: {y: 7}} *)
Example C11_missing_created_nonvacuous :
  let d := mp 10 [(ky "a", lf 3 (PInt 1))] in
  let segs := [SKey "x" None; SKey "y" None] in
  wf_docb d = true /\ creates d segs = true /\ null_prefix d segs = false /\
  match create_query no_lit segs (PInt 7) (Some 7) d with
  | ROk (d', _, _) =>
      match resolve_loc d' segs with
      | Some (l, w) =>
          l = [RKey (PStr "x"); RKey (PStr "y")] /\ same_obj w (lf 7 (PInt 7)) = false /\
          match merge_at no_lit cfg0 false [l] d' (lf 7 (PInt 7)) with
          | Ok out => erase out = DMap [(PStr "a", DLeaf (PInt 1)); (PStr "x", DMap [(PStr "y", DLeaf (PInt 7))])]
          | _ => False
          end
      | None => False
      end
  | RErr _ => False
  end.
Proof. vm_compute. repeat split. Qed.

(* the created-container case: {a: 1} + {c: 2} at /x after creation stored the Hash itself *)
Example C11_created_target_example :
  merge_at no_lit cfg0 false [[RKey (PStr "x")]]
    (mp 10 [(ky "a", lf 3 (PInt 1)); (ky "x", mp 20 [(ky "c", lf 5 (PInt 2))])])
    (mp 20 [(ky "c", lf 5 (PInt 2))]) =
  Ok (mp 10 [(ky "a", lf 3 (PInt 1)); (ky "x", mp 20 [(ky "c", lf 5 (PInt 2))])]).
Proof. vm_compute. reflexivity. Qed.
