(* C05 -- Merging two documents yields the policy-defined result for every
   option mix.  Statements only; proofs in Proofs/MergeBasics.v and
   Proofs/MergeHash.v.  The model (Model/Merge.v, Model/MergeConfig.v) is the
   code after the fix: commits listed in docs/C05.md. *)
From Coq Require Import List Ascii String ZArith NArith Bool.
From YP Require Import Outcome PyStr PyVal Doc PathParser Searches MergeConfig Merge SpecC05 SpecC05Union MergeBasics MergeHash
  MergeNoCrash MergeUnion MergeUnique MergeTrans MergePos.
(* obligations tying the models' literal tables to the tables regenerated from the source *)
From YP Require Import GenTables.
Import ListNotations.
Open Scope string_scope.
Open Scope list_scope.
Open Scope N_scope.

(* rule > CLI option > INI [defaults] > built-in default, for all four enums *)
Theorem C05_precedence :
  forall cfg nc,
    hash_merge_mode cfg nc =
      hash_of_str (fst (policy_text (get_rule_for cfg nc) (cli_hashes cfg) (ini_of cfg (ini_hashes cfg)) "DEEP")) /\
    array_merge_mode cfg nc =
      array_of_str (fst (policy_text (get_rule_for cfg nc) (cli_arrays cfg) (ini_of cfg (ini_arrays cfg)) "ALL")) /\
    aoh_merge_mode cfg nc =
      aoh_of_str (fst (policy_text (get_rule_for cfg nc) (cli_aoh cfg) (ini_of cfg (ini_aoh cfg)) "ALL")) /\
    set_merge_mode cfg nc =
      set_of_str (fst (policy_text (get_rule_for cfg nc) (cli_sets cfg) (ini_of cfg (ini_sets cfg)) "UNIQUE")).
Proof. exact precedence. Qed.
Print Assumptions C05_precedence.

(* a per-path rule governs only the very node it was resolved to *)
Theorem C05_rule_identity :
  forall cfg nc,
    get_rule_for cfg nc <> "" ->
    exists r, In r (m_rules cfg) /\ same_place (r_at r) nc /\ get_rule_for cfg nc = r_val r.
Proof. exact rule_identity. Qed.
Print Assumptions C05_rule_identity.

(* Left-hand content not named by the right-hand Hash keeps its value and its
   relative order -- for every document pair, every policy mix, every rule
   table, and whatever the nested merges do. *)
Theorem C05_left_frame :
  forall lit cfg ri rkvs nc li lkvs m,
    merge_rec lit cfg (NMap ri rkvs) nc (NMap li lkvs) = Ok m ->
    exists res, m = NMap li res /\
                unnamed_part (keys_of rkvs) res = unnamed_part (keys_of rkvs) lkvs.
Proof. exact left_frame. Qed.
Print Assumptions C05_left_frame.

(* HASHES COMBINE PER KEY (hashes=deep reached the two Hashes).  For all
   documents, policies and rule tables; the side conditions are the
   well-formedness of a dict (keys are Scalars; the right-hand keys are
   pairwise unequal), both computable.
   Keys: the left keys -- the left key objects -- in their order; the right-only
   items in the right-hand order (with their values); the two interleaved where
   the insertion buffer of _merge_dicts writes them (never behind a later
   right-only item, never reordering left items).
   Values: left-only -> left value; right-only -> right value; common -> the
   policy-defined merge of the two values (SpecC05Union.mg_common_value: the
   policy in force for the right-hand value keeps the left value, takes the
   right one, or combines the two by the merge of these two values, carrying
   the right-hand tag). *)
Theorem C05_hash_union :
  forall lit cfg ri rkvs nc li lkvs m,
    mg_keys_leaf lkvs = true -> mg_keys_leaf rkvs = true -> mg_distinct rkvs = true ->
    merge_rec lit cfg (NMap ri rkvs) nc (NMap li lkvs) = Ok m ->
    exists res, m = NMap li res /\
      named_keys (keys_of lkvs) res = map fst lkvs /\
      unnamed_part (keys_of lkvs) res = unnamed_part (keys_of lkvs) rkvs /\
      (forall k, named (keys_of rkvs) k = false -> assoc_key k res = assoc_key k lkvs) /\
      (forall key rv, In (key, rv) rkvs -> assoc_key (key_val key) lkvs = None ->
         assoc_key (key_val key) res = Some rv) /\
      (forall key rv lv, In (key, rv) rkvs -> assoc_key (key_val key) lkvs = Some lv ->
         exists v, mg_common_value lit cfg (oid ri) (key_val key) lv rv = Ok v /\
                   assoc_key (key_val key) res = Some v).
Proof. exact hash_union. Qed.
Print Assumptions C05_hash_union.

(* the key set of the merged Hash is the union of the two key sets *)
Theorem C05_hash_union_keys :
  forall lit cfg ri rkvs nc li lkvs res,
    mg_keys_leaf lkvs = true -> mg_keys_leaf rkvs = true -> mg_distinct rkvs = true ->
    merge_rec lit cfg (NMap ri rkvs) nc (NMap li lkvs) = Ok (NMap li res) ->
    forall k, assoc_key k res <> None <-> (assoc_key k lkvs <> None \/ assoc_key k rkvs <> None).
Proof. exact hash_union_keys. Qed.
Print Assumptions C05_hash_union_keys.

(* Right-hand scalars override.  FULL statement (false of the code, see the
   _refuted witness): a Scalar under a key both Hashes have replaces the
   left-hand value whenever no per-path rule speaks for it.  What holds: the
   same under the guard that the policy lookup of the step -- which consults
   the Array-of-Hashes option even for Scalars -- does not stop it. *)
Theorem C05_scalar_override_partial :
  forall lit cfg ro kvs buf pos key vi v kvs' buf' pos',
    assoc_key (key_val key) kvs <> None ->
    dict_shortcut cfg (NLeaf vi v) (mkcoord (oid vi) (Some ro) (Some (key_val key))) = Ok GoOn ->
    dict_step cfg (merge_rec lit cfg) ro (kvs, buf, pos) (key, NLeaf vi v) = Ok (kvs', buf', pos') ->
    assoc_key (key_val key) kvs' = Some (NLeaf vi v).
Proof. exact scalar_override_step. Qed.
Print Assumptions C05_scalar_override_partial.

(* ... lifted from one step to the whole Hash merge: after _merge_dicts has run over ALL
   right-hand keys (buffer flushes, later insertions, nested merges), the key holds the
   right-hand Scalar -- under the same guard (the finding F-C05-1 is about that lookup) *)
Theorem C05_scalar_override_loop_partial :
  forall lit cfg ri rkvs nc li lkvs m key vi v,
    mg_keys_leaf lkvs = true -> mg_keys_leaf rkvs = true -> mg_distinct rkvs = true ->
    merge_rec lit cfg (NMap ri rkvs) nc (NMap li lkvs) = Ok m ->
    In (key, NLeaf vi v) rkvs -> assoc_key (key_val key) lkvs <> None ->
    dict_shortcut cfg (NLeaf vi v) (mkcoord (oid vi) (Some (oid ri)) (Some (key_val key))) = Ok GoOn ->
    exists res, m = NMap li res /\ assoc_key (key_val key) res = Some (NLeaf vi v).
Proof. exact scalar_override_loop. Qed.
Print Assumptions C05_scalar_override_loop_partial.

(* what can stop or shortcut the step: only the aoh policy text *)
Theorem C05_scalar_step_policy :
  forall cfg nc vi v sc,
    dict_shortcut cfg (NLeaf vi v) nc = Ok sc ->
    exists m, aoh_merge_mode cfg nc = Ok m /\ sc = short_of_aoh m.
Proof. exact scalar_step_shortcuts. Qed.

Definition no_lit (s : string) : outcome litres := Ok LFail.
Definition leaf (o : N) (v : pyval) : node := NLeaf (mkinfo o None false None) v.
Definition cfg_plain (h a o s : option string) : mconfig :=
  mkconfig false [] [] h a o s None None None None None None.

(* KNOWN FINDING F-C05-1: {a: 1} merged with {a: 2} under --aoh left keeps 1,
   although no rule names /a and the aoh option is about Arrays-of-Hashes. *)
Theorem C05_scalar_override_refuted :
  exists cfg l r,
    get_rule_for cfg (mkcoord 6 (Some 4) (Some (PStr "a"))) = "" /\
    l = NMap (mkinfo 1 None true None) [(leaf 2 (PStr "a"), leaf 3 (PInt 1))] /\
    r = NMap (mkinfo 4 None true None) [(leaf 2 (PStr "a"), leaf 6 (PInt 2))] /\
    merge_root no_lit cfg l r = Ok l.
Proof.
  exists (cfg_plain None None (Some "left") None). eexists. eexists.
  split; [reflexivity|]. split; [reflexivity|]. split; [reflexivity|]. vm_compute. reflexivity.
Qed.

(* arrays: ALL concatenates, LEFT keeps, RIGHT replaces *)
Theorem C05_array_all :
  forall cfg li lels ri rels nc,
    array_merge_mode cfg nc = Ok AAll ->
    merge_simple_lists cfg (NSeq li lels) (NSeq ri rels) nc = Ok (same (NSeq li (array_all lels rels))).
Proof. exact array_all_is_concat. Qed.
Theorem C05_array_left :
  forall cfg l r nc, is_seq l = true -> array_merge_mode cfg nc = Ok ALeft ->
    merge_simple_lists cfg l r nc = Ok (same l).
Proof. exact array_left_keeps. Qed.
Theorem C05_array_right :
  forall cfg l r nc, is_seq l = true -> array_merge_mode cfg nc = Ok ARight ->
    exists m, merge_simple_lists cfg l r nc = Ok m /\ ret m = r.
Proof. exact array_right_replaces. Qed.
Print Assumptions C05_array_all.

(* arrays=UNIQUE, declaratively, for all inputs: the result is the left Array followed by
   those right-hand elements that equal (Python ==, in the merger's tagless form) no
   element already present -- no left element, no right-hand element appended before --
   in the right-hand order; an element of the result is the element standing there, or
   a right-hand element matching it that the code put in its place (mg_chain). *)
Theorem C05_array_unique :
  forall cfg li lels ri rels nc,
    array_merge_mode cfg nc = Ok AUnique ->
    exists m i res, merge_simple_lists cfg (NSeq li lels) (NSeq ri rels) nc = Ok m /\ ret m = NSeq i res /\
      Forall2 (mg_chain rels) (lels ++ mg_new_tagless (map tagless lels) rels) res.
Proof. exact array_unique_declarative. Qed.
Print Assumptions C05_array_unique.

(* arrays of hashes: ALL concatenates, LEFT keeps, RIGHT replaces *)
Theorem C05_aoh_all_left_right :
  forall lit cfg ri rec0 rest nc li lels,
    is_map rec0 = true ->
    (aoh_merge_mode cfg nc = Ok OAll ->
       merge_rec lit cfg (NSeq ri (rec0 :: rest)) nc (NSeq li lels) = Ok (NSeq li (array_all lels (rec0 :: rest)))) /\
    (aoh_merge_mode cfg nc = Ok OLeft ->
       merge_rec lit cfg (NSeq ri (rec0 :: rest)) nc (NSeq li lels) = Ok (NSeq li lels)) /\
    (aoh_merge_mode cfg nc = Ok ORight ->
       merge_rec lit cfg (NSeq ri (rec0 :: rest)) nc (NSeq li lels) = Ok (NSeq ri (rec0 :: rest))).
Proof. exact aoh_modes. Qed.
Print Assumptions C05_aoh_all_left_right.

(* aoh=UNIQUE: the left list followed by the right-hand elements that equal (Python ==
   on the records, "IN FULL") nothing already present, in order *)
Theorem C05_aoh_unique :
  forall lit cfg ri rec0 rest nc li lels,
    is_map rec0 = true -> aoh_merge_mode cfg nc = Ok OUnique ->
    merge_rec lit cfg (NSeq ri (rec0 :: rest)) nc (NSeq li lels) =
    Ok (NSeq li (lels ++ mg_new_full lels (rec0 :: rest))).
Proof. exact aoh_unique_declarative. Qed.
Print Assumptions C05_aoh_unique.

(* aoh=DEEP by identity key.  The right-hand elements are taken in order, each against the
   list as it then stands (C05_aoh_deep); for one element (C05_aoh_deep_step): a non-Hash is
   appended; a record whose identity value -- compared in its literal type -- no record
   present has is appended; otherwise the FIRST record with that identity value is
   replaced, in place, by the Hash merge of the two (C05_hash_union applies to it) under
   the right-hand tag, and nothing else moves; a record lacking the identity key is a
   MergeException.  The key: the [keys] entry of the first right-hand record, else the
   entry of its Array, else the first key of that first record (C05_aoh_key). *)
Theorem C05_aoh_deep :
  forall lit cfg ri rec0 rest nc li lels,
    is_map rec0 = true -> aoh_merge_mode cfg nc = Ok ODeep ->
    merge_rec lit cfg (NSeq ri (rec0 :: rest)) nc (NSeq li lels) =
    (do els <- foldM (fun ls ele => aoh_step lit (merge_rec lit cfg) ODeep
                          (aoh_merge_key cfg (mkcoord (node_oid rec0) (Some (oid ri)) (Some (PInt 0))) (first_key rec0))
                          ls ele) (rec0 :: rest) lels;
     Ok (NSeq li els)).
Proof. exact aoh_deep_declarative. Qed.

Theorem C05_aoh_deep_step :
  forall lit cfg idk lels ele lels',
    aoh_step lit (merge_rec lit cfg) ODeep idk lels ele = Ok lels' ->
    (is_map ele = false -> lels' = lels ++ [ele]) /\
    (forall i kvs, ele = NMap i kvs ->
       exists idn idv, assoc_key idk kvs = Some idn /\ tagless_value lit idn = Ok idv /\
         (((forall e, In e lels -> ~ mg_matches lit idk idv e) /\ lels' = lels ++ [ele]) \/
          (exists j lh m, nth_error lels j = Some lh /\ mg_matches lit idk idv lh /\
             (forall j' e, (j' < j)%nat -> nth_error lels j' = Some e -> ~ mg_matches lit idk idv e) /\
             merge_rec lit cfg ele (mkcoord (node_oid ele) None None) lh = Ok m /\
             lels' = replace_nth j (set_tag m (node_tag ele)) lels))).
Proof. exact deep_step. Qed.
Print Assumptions C05_aoh_deep_step.

Theorem C05_aoh_deep_missing_key :
  forall lit cfg idk lels i kvs,
    assoc_key idk kvs = None -> aoh_step lit (merge_rec lit cfg) ODeep idk lels (NMap i kvs) = Raise MergeExc.
Proof. exact deep_missing_key. Qed.

Theorem C05_aoh_key :
  forall cfg nc fk,
    let k1 := get_key_for cfg nc in
    let k2 := parent_key (mc_parent nc) (m_keys cfg) in
    aoh_merge_key cfg nc fk =
    if nonempty k1 then PStr k1 else if nonempty k2 then PStr k2
    else match fk with Some f => f | None => PStr "" end.
Proof. exact aoh_key_choice. Qed.

(* sets: LEFT keeps, RIGHT replaces, UNIQUE keeps the left members in front and
   appends right-hand members only *)
Theorem C05_set_left :
  forall cfg l r nc, is_set l = true -> set_merge_mode cfg nc = Ok SLeft -> merge_sets cfg l r nc = Ok (same l).
Proof. exact set_left_keeps. Qed.
Theorem C05_set_right :
  forall cfg l r nc, is_set l = true -> set_merge_mode cfg nc = Ok SRight ->
    exists m, merge_sets cfg l r nc = Ok m /\ ret m = r.
Proof. exact set_right_replaces. Qed.
Theorem C05_set_unique :
  forall cfg li lels ri rels nc,
    set_merge_mode cfg nc = Ok SUnique ->
    exists added, merge_sets cfg (NSet li lels) (NSet ri rels) nc = Ok (same (NSet li (lels ++ added)))
                  /\ incl added rels.
Proof. exact set_unique_extends. Qed.
Print Assumptions C05_set_unique.

(* A structurally impossible merge is a MergeException -- at the target, for
   every configuration (no policy lookup happens before the refusal) ... *)
Theorem C05_impossible_is_MergeExc :
  forall lit cfg l r,
    is_none l = false -> is_none r = false ->
    impossible_at_target (kind_of l) (kind_of r) = true ->
    merge_root lit cfg l r = Raise MergeExc.
Proof. exact impossible_target. Qed.
Print Assumptions C05_impossible_is_MergeExc.

(* ... and below it: a right-hand container meeting a left-hand node of
   another kind under a common key *)
Theorem C05_impossible_nested_is_MergeExc :
  forall lit cfg r nc l,
    impossible_nested (kind_of l) (kind_of r) = true ->
    merge_rec lit cfg r nc l = Raise MergeExc.
Proof. exact impossible_below. Qed.
Print Assumptions C05_impossible_nested_is_MergeExc.

(* NEVER A CRASH.  For every pair of documents, every configuration (option
   texts, [defaults], rule and key tables -- valid or not) and every
   literal_eval that behaves, the merge ends in a document, in a
   MergeException, or in the NameError of a policy lookup that met a text
   outside its enumeration (a configuration error: mg_bad_lookup).  Never
   AttributeError / KeyError / TypeError, never OutOfFuel (the merge model
   uses no fuel: it is structurally recursive in the right-hand document). *)
Theorem C05_no_crash :
  forall lit cfg, mg_lit_ok lit -> forall l r, mg_clean cfg (merge_root lit cfg l r).
Proof. exact merge_root_clean. Qed.
Print Assumptions C05_no_crash.

(* ... and with option / rule texts that are members of their enumerations
   (computable: mg_cfg_valid) only the first two remain *)
Theorem C05_no_crash_valid_config :
  forall lit cfg l r, mg_lit_ok lit -> mg_cfg_valid cfg = true ->
    (exists m, merge_root lit cfg l r = Ok m) \/ merge_root lit cfg l r = Raise MergeExc.
Proof. exact merge_root_valid_config. Qed.
Print Assumptions C05_no_crash_valid_config.

(* ---------------- non-vacuity ---------------- *)
Definition mapn (o : N) (kvs : list (node * node)) := NMap (mkinfo o None true None) kvs.
Definition seqn (o : N) (els : list node) := NSeq (mkinfo o None true None) els.
Definition k (s : string) := leaf 2 (PStr s).

(* left frame + hash union + insertion order: {a:1, b:2, c:3} + {x:9, b:7} *)
Example C05_hash_example :
  merge_root no_lit (cfg_plain None None None None)
    (mapn 10 [(k "a", leaf 3 (PInt 1)); (k "b", leaf 4 (PInt 2)); (k "c", leaf 5 (PInt 3))])
    (mapn 20 [(k "x", leaf 6 (PInt 9)); (k "b", leaf 7 (PInt 7))]) =
  Ok (mapn 10 [(k "a", leaf 3 (PInt 1)); (k "x", leaf 6 (PInt 9)); (k "b", leaf 7 (PInt 7)); (k "c", leaf 5 (PInt 3))]).
Proof. vm_compute. reflexivity. Qed.

Example C05_array_unique_example :
  merge_root no_lit (cfg_plain None (Some "unique") None None)
    (seqn 10 [leaf 3 (PInt 1); leaf 4 (PInt 2)]) (seqn 20 [leaf 5 (PInt 2); leaf 6 (PInt 3); leaf 7 (PInt 3)]) =
  Ok (NSeq fresh_info [leaf 3 (PInt 1); leaf 5 (PInt 2); leaf 7 (PInt 3)]).
Proof. vm_compute. reflexivity. Qed.

Example C05_aoh_deep_example :
  merge_root no_lit (cfg_plain None None (Some "deep") None)
    (seqn 10 [mapn 11 [(k "id", leaf 3 (PInt 1)); (k "v", leaf 4 (PInt 1))]])
    (seqn 20 [mapn 21 [(k "id", leaf 3 (PInt 1)); (k "v", leaf 5 (PInt 2))];
              mapn 22 [(k "id", leaf 6 (PInt 2))]]) =
  Ok (seqn 10 [mapn 11 [(k "id", leaf 3 (PInt 1)); (k "v", leaf 5 (PInt 2))]; mapn 22 [(k "id", leaf 6 (PInt 2))]]).
Proof. vm_compute. reflexivity. Qed.

(* the hypotheses of C05_hash_union hold of that pair, and of a pair with a nested merge *)
Example C05_hash_union_example :
  let lk := [(k "a", leaf 3 (PInt 1)); (k "b", mapn 11 [(k "p", leaf 4 (PInt 2))]); (k "c", leaf 5 (PInt 3))] in
  let rk := [(k "x", leaf 6 (PInt 9)); (k "b", mapn 21 [(k "q", leaf 7 (PInt 7))]); (k "y", leaf 8 (PInt 8))] in
  mg_keys_leaf lk = true /\ mg_keys_leaf rk = true /\ mg_distinct rk = true /\
  merge_rec no_lit (cfg_plain None None None None) (mapn 20 rk) (mkcoord 20 None None) (mapn 10 lk) =
  Ok (mapn 10 [(k "a", leaf 3 (PInt 1)); (k "x", leaf 6 (PInt 9));
               (k "b", mapn 11 [(k "p", leaf 4 (PInt 2)); (k "q", leaf 7 (PInt 7))]);
               (k "c", leaf 5 (PInt 3)); (k "y", leaf 8 (PInt 8))]).
Proof. repeat split; vm_compute; reflexivity. Qed.

(* UNIQUE: [1, 2] + [2, 3, 3] keeps 1, takes the right-hand 2 in place of the left one, appends one 3 *)
Example C05_unique_spec_example :
  mg_new_tagless (map tagless [leaf 3 (PInt 1); leaf 4 (PInt 2)]) [leaf 5 (PInt 2); leaf 6 (PInt 3); leaf 7 (PInt 3)]
    = [leaf 6 (PInt 3)] /\
  array_merge_mode (cfg_plain None (Some "unique") None None) (mkcoord 20 None None) = Ok AUnique /\
  mg_new_full [mapn 11 [(k "a", leaf 3 (PInt 1))]] [mapn 21 [(k "a", leaf 3 (PInt 1))]; mapn 22 [(k "a", leaf 4 (PInt 2))]]
    = [mapn 22 [(k "a", leaf 4 (PInt 2))]].
Proof. repeat split; vm_compute; reflexivity. Qed.

(* DEEP: the hypotheses of C05_aoh_deep_step hold on the example above (second branch: merged in place) *)
Example C05_aoh_deep_step_example :
  aoh_step no_lit (merge_rec no_lit (cfg_plain None None (Some "deep") None)) ODeep (PStr "id")
    [mapn 11 [(k "id", leaf 3 (PInt 1)); (k "v", leaf 4 (PInt 1))]]
    (mapn 21 [(k "id", leaf 3 (PInt 1)); (k "v", leaf 5 (PInt 2))]) =
  Ok [mapn 11 [(k "id", leaf 3 (PInt 1)); (k "v", leaf 5 (PInt 2))]].
Proof. vm_compute. reflexivity. Qed.

(* the guard of C05_scalar_override_loop_partial holds without an aoh option *)
Example C05_scalar_override_loop_example :
  dict_shortcut (cfg_plain None None None None) (leaf 7 (PInt 7)) (mkcoord 7 (Some 20) (Some (PStr "b"))) = Ok GoOn.
Proof. vm_compute. reflexivity. Qed.

(* the hypotheses of C05_no_crash are satisfiable; the NameError case exists *)
Example C05_no_crash_example :
  mg_lit_ok no_lit /\
  mg_cfg_valid (mkconfig true [mkrule (mkcoord 21 (Some 20) (Some (PStr "a"))) "left"] [] None (Some "unique")
                         (Some "deep") None None (Some "right") None None None None) = true /\
  mg_cfg_valid (cfg_plain (Some "unique") None None None) = false /\
  merge_root no_lit (cfg_plain (Some "unique") None None None)
    (mapn 10 [(k "a", leaf 3 (PInt 1))]) (mapn 20 [(k "a", leaf 4 (PInt 2))]) = Raise name_error.
Proof.
  split; [intros s; exists LFail; split; [reflexivity|exact I]|].
  repeat split; vm_compute; reflexivity.
Qed.

(* DESIGN #17, after the fix: {a: 1} merged with {a: []} is a merge error *)
Example C05_empty_array_into_scalar :
  merge_root no_lit (cfg_plain None None None None)
    (mapn 10 [(k "a", leaf 3 (PInt 1))]) (mapn 20 [(k "a", seqn 21 [])]) = Raise MergeExc.
Proof. vm_compute. reflexivity. Qed.

Example C05_impossible_example :
  impossible_at_target (kind_of (mapn 10 [])) (kind_of (seqn 20 [leaf 3 (PInt 1)])) = true /\
  merge_root no_lit (cfg_plain None None None None) (mapn 10 []) (seqn 20 [leaf 3 (PInt 1)]) = Raise MergeExc.
Proof. split; vm_compute; reflexivity. Qed.

(* a rule beats the CLI option; the CLI option beats the INI default *)
Example C05_precedence_example :
  let nc := mkcoord 21 (Some 20) (Some (PStr "a")) in
  let cfg := mkconfig true [mkrule nc "left"] [] None (Some "unique") None None None None (Some "right") None None None in
  array_merge_mode cfg nc = Ok ALeft /\
  array_merge_mode cfg (mkcoord 22 (Some 20) (Some (PStr "a"))) = Ok AUnique /\
  array_merge_mode (mkconfig true [] [] None None None None None None (Some "right") None None None) nc = Ok ARight.
Proof. vm_compute. repeat split; reflexivity. Qed.

(* ================= round 4 ================= *)
(* sets=UNIQUE, declaratively, for all inputs (a right-hand Set, or the Array _insert_list hands
   over): the result holds the left members in their order, followed -- in the right-hand order --
   by exactly those right-hand members that equal no member already present: no original left
   member in the merger's tagless comparison, no member present (left or appended before) as it is
   (SpecC05Union.mg_new_members). *)
Theorem C05_set_unique_declarative :
  forall cfg li lels ri rels nc,
    set_merge_mode cfg nc = Ok SUnique ->
    merge_sets cfg (NSet li lels) (NSet ri rels) nc =
      Ok (same (NSet li (lels ++ mg_new_members (map tagless lels) lels rels))) /\
    merge_sets cfg (NSet li lels) (NSeq ri rels) nc =
      Ok (same (NSet li (lels ++ mg_new_members (map tagless lels) lels rels))).
Proof. exact set_unique_declarative. Qed.
Print Assumptions C05_set_unique_declarative.

Theorem C05_set_unique_new_members :
  forall rels tl present x,
    In x (mg_new_members tl present rels) ->
    In x rels /\ in_list (tagless x) tl = false /\ in_list x present = false.
Proof. exact in_new_members. Qed.

(* Python's == on loaded nodes is transitive on plain documents (computable guard mg_plain: no
   TaggedScalar, hash keys are Scalars) ... *)
Theorem C05_node_eq_transitive_plain :
  forall a b c, mg_plain a = true -> mg_plain b = true -> mg_plain c = true ->
    node_eq a b = true -> node_eq b c = true -> node_eq a c = true.
Proof. exact node_eq_trans_plain. Qed.
Print Assumptions C05_node_eq_transitive_plain.

(* ... and is NOT on arbitrary trees: a TaggedScalar compares by object identity, an untagged
   Scalar by value; a tree showing one identity with a tagged and an untagged face breaks the
   chain (no loaded heap does: one object has one class) *)
Theorem C05_node_eq_not_transitive_refuted :
  exists a b c, node_eq a b = true /\ node_eq b c = true /\ node_eq a c = false.
Proof. exact node_eq_not_transitive. Qed.

(* arrays=UNIQUE on plain documents: the chain of C05_array_unique collapses to ONE equality --
   every element of the result is the element standing there (left element, or new right-hand
   element) or a right-hand element EQUAL to it; the new elements are those equal to nothing
   present (mg_new_full: without tags the tagless comparison is the comparison) *)
Theorem C05_array_unique_plain :
  forall cfg li lels ri rels nc,
    array_merge_mode cfg nc = Ok AUnique ->
    forallb mg_plain lels = true -> forallb mg_plain rels = true ->
    exists m i res, merge_simple_lists cfg (NSeq li lels) (NSeq ri rels) nc = Ok m /\ ret m = NSeq i res /\
      Forall2 (mg_same_or_equal rels) (lels ++ mg_new_full lels rels) res.
Proof. exact array_unique_plain. Qed.
Print Assumptions C05_array_unique_plain.

(* non-vacuity: {1, a} + {a, 2, 2} -> {1, a, 2}; the guards hold of plain elements and fail on a TaggedScalar *)
Example C05_set_unique_example :
  mg_new_members (map tagless [leaf 3 (PInt 1); leaf 4 (PStr "a")]) [leaf 3 (PInt 1); leaf 4 (PStr "a")]
                 [leaf 5 (PStr "a"); leaf 6 (PInt 2); leaf 7 (PInt 2)] = [leaf 6 (PInt 2)] /\
  set_merge_mode (cfg_plain None None None None) (mkcoord 20 None None) = Ok SUnique /\
  forallb mg_plain [leaf 3 (PInt 1); mapn 11 [(k "a", seqn 12 [leaf 4 (PInt 2)])]] = true /\
  mg_plain (NLeaf (mkinfo 5 None true (Some "!t")) (POther "x")) = false.
Proof. repeat split; vm_compute; reflexivity. Qed.

(* WHERE the right-only keys land (the exact place the insertion buffer of _merge_dicts gives them;
   the property text does not fix it).  A maximal run blk of n right-only keys followed by a common
   key c, with a right-only keys and g COUNTED common keys before it (a common key counts unless its
   step `continue`d: policy keep-left / take-right; MergePos.mg_counted), occupies the result indices
   min(2a + g + n, |left| + a), ... contiguously; a trailing run is appended at |left| + a.
   (`buffer_pos` counts a buffered key when it is buffered AND when it is written.) *)
Theorem C05_hash_union_position :
  forall lit cfg ri rkvs nc li lkvs res pre blk c post,
    mg_keys_leaf lkvs = true -> mg_keys_leaf rkvs = true -> mg_distinct rkvs = true ->
    merge_rec lit cfg (NMap ri rkvs) nc (NMap li lkvs) = Ok (NMap li res) ->
    rkvs = pre ++ blk ++ c :: post ->
    mg_run_start lkvs pre -> Forall (fun kv => inL (keys_of lkvs) kv = false) blk -> inL (keys_of lkvs) c = true ->
    forall i y, nth_error blk i = Some y ->
      nth_error res (Nat.min (2 * cnt_new lkvs pre + cnt_go cfg (oid ri) lkvs pre + List.length blk)
                             (List.length lkvs + cnt_new lkvs pre) + i) = Some y.
Proof. exact hash_union_position. Qed.
Print Assumptions C05_hash_union_position.

Theorem C05_hash_union_position_trailing :
  forall lit cfg ri rkvs nc li lkvs res pre blk,
    mg_keys_leaf lkvs = true -> mg_keys_leaf rkvs = true -> mg_distinct rkvs = true ->
    merge_rec lit cfg (NMap ri rkvs) nc (NMap li lkvs) = Ok (NMap li res) ->
    rkvs = pre ++ blk ->
    mg_run_start lkvs pre -> Forall (fun kv => inL (keys_of lkvs) kv = false) blk ->
    forall i y, nth_error blk i = Some y ->
      nth_error res (List.length lkvs + cnt_new lkvs pre + i) = Some y.
Proof. exact hash_union_trailing. Qed.
Print Assumptions C05_hash_union_position_trailing.

(* {a,b,c,d,e} + {x, e}: x is written at index min(0+0+1, 5+0) = 1 -- a, x, b, c, d, e *)
Example C05_position_example :
  let lk := [(k "a", leaf 3 (PInt 1)); (k "b", leaf 3 (PInt 1)); (k "c", leaf 3 (PInt 1));
             (k "d", leaf 3 (PInt 1)); (k "e", leaf 3 (PInt 1))] in
  let rk := [(k "x", leaf 6 (PInt 9)); (k "e", leaf 7 (PInt 7))] in
  mg_run_start lk [] /\ inL (keys_of lk) (k "x", leaf 6 (PInt 9)) = false /\ inL (keys_of lk) (k "e", leaf 7 (PInt 7)) = true /\
  merge_rec no_lit (cfg_plain None None None None) (mapn 20 rk) (mkcoord 20 None None) (mapn 10 lk) =
  Ok (mapn 10 [(k "a", leaf 3 (PInt 1)); (k "x", leaf 6 (PInt 9)); (k "b", leaf 3 (PInt 1)); (k "c", leaf 3 (PInt 1));
               (k "d", leaf 3 (PInt 1)); (k "e", leaf 7 (PInt 7))]).
Proof. split; [now left|]. repeat split; vm_compute; reflexivity. Qed.

(* Every remaining statement of this file, so that none is left unaudited. *)
Print Assumptions C05_scalar_step_policy.
Print Assumptions C05_scalar_override_refuted.
Print Assumptions C05_array_left.
Print Assumptions C05_array_right.
Print Assumptions C05_aoh_deep.
Print Assumptions C05_aoh_deep_missing_key.
Print Assumptions C05_aoh_key.
Print Assumptions C05_set_left.
Print Assumptions C05_set_right.
Print Assumptions C05_set_unique_new_members.
Print Assumptions C05_node_eq_not_transitive_refuted.
