(* C08 -- Path text and parsed segments round-trip in both notations.
   Statements only; proofs live in Proofs/RtStep.v RtSeg.v RtInt.v RtRender.v RtTables.v
   RtCanon.v RtClauses.v RtPop.v.

   Vocabulary: Spec/C08Spec.v defines the documented writer [render_ref] over
   styled segments (a segment plus the writer's free choices: quote
   demarcation, [&a] / &a, [!a=b] / [a!=b], regex delimiter) and the explicit
   well-formedness [wf] (what the notation cannot express) and [wfc] (what
   str() cannot re-express).  [parse] is the model of YAMLPath._parse_path
   (Model/PathParser.v, tied to the code by the C14 and C08 correspondence
   runs); [stringify], [y_eq], [y_append], [y_pop] model the printer and the
   YAMLPath object (Model/PathPrinter.v).

   STATUS (every theorem below is proved; Print Assumptions: closed)
     C08_parse_render_partial       clause 1, every segment kind incl. SEARCH, both notations;
                                    only guard [wf] (no finding inside it since the repair of F21's parser half)
     C08_parse_render_auto_partial  the same through separator inference (exclusion guard)
     C08_int_of_str                 int(str(n)) = n for all integers
     C08_canonical_partial / C08_canonical_auto_partial / C08_fixpoint_partial
                                    clause 2; guards [wfc] (no finding inside it since the repair of F21's
                                    printer half), [dot_text_ok], non-blank dot text
     C08_escape_symbol_scan / C08_ensure_escaped_written
                                    ensure_escaped as a left-to-right scan
     C08_eq_parsed                  clause 3 for ANY two texts that parse: == is the comparison of the
                                    parsed (escaped) segments as plain values (since the repair of F23)
     C08_eq_iff_partial             clause 3 on the writer's texts; only guards [wf] and the exclusion
                                    (the former guard [no_dot_key] = finding F23 is gone, so is [wfc])
     C08_append_pop_cut_partial / C08_append_pop_partial
                                    clause 4 for a tail written after a separator, when pop()
                                    cuts a canonical tail or rebuilds (no suffix match)
     C08_*_ok                       side conditions over the regenerated tables
     C08_parse_render_F21           (Example) finding F21, parser half, repaired: escaped / regex quote-wrapped terms
     C08_canon_F21                  (Example) finding F21, printer half, repaired: str() escapes the quotes of a term
     C08_eq_iff_F23                 (Example) finding F23, repaired: == and an escaped / demarcated dot
   NOT proved: clause 4 for a tail that carries its own demarcation ([0], [a=b],
   (collector), [&a]) and for accidental suffix matches of a non-canonical tail;
   both are checked on every generated case by harness/c08.py (judge). *)
From Coq Require Import List Ascii String ZArith Bool.
From YP Require Import Outcome PyStr Generated PathParser PathPrinter C08Spec RtStep RtSeg RtInt RtRender RtTables RtCanon RtClauses RtPop.
Import ListNotations.
Open Scope string_scope.

(* ---- clause 1: writing then parsing gives back the segments ---- *)
(* Every segment kind, both notations, any length, any text.  The only guard
   is [wf]; its clauses name what the notation cannot express (hence
   "_partial"); the former F21 clause [quote_wrapped] is gone since the parser
   repair (C08_parse_render_F21). *)
Theorem C08_parse_render_partial :
  forall (sp : sep) (l : list sseg),
    wf sp l = true -> parse (Forced sp) true (render_ref sp l) = Ok (segs_of l).
Proof. exact parse_render. Qed.
Print Assumptions C08_parse_render_partial.

(* through separator inference; "dot text must not start with /" is the
   property's own exclusion *)
Theorem C08_parse_render_auto_partial :
  forall (sp : sep) (l : list sseg),
    wf sp l = true ->
    (sp = Dot -> first_not_in ["/"%char] (render_ref sp l) = true) ->
    parse Auto true (render_ref sp l) = Ok (segs_of l).
Proof. exact parse_render_auto. Qed.
Print Assumptions C08_parse_render_auto_partial.

(* int(str(n)) = n for every integer: the element index needs no guard *)
Theorem C08_int_of_str : forall n : Z, py_int (str_of_Z n) = Some n.
Proof. exact py_int_str_of_Z. Qed.
Print Assumptions C08_int_of_str.

(* ---- side conditions over the tables regenerated from the Python source ---- *)
Theorem C08_section_syms_ok : section_syms_ok = true.
Proof. exact section_syms_ok_true. Qed.
Theorem C08_key_syms_ok : key_syms_ok = true.
Proof. exact key_syms_ok_true. Qed.
Theorem C08_spellings_ok : spellings_ok = true.
Proof. exact spellings_ok_true. Qed.
Theorem C08_key_specials_cover :
  forall (sp : sep) (c : ascii),
    mem_ascii c (key_specials (sep_char sp)) = false -> top_plain (sep_char sp) c = true.
Proof. exact key_specials_cover. Qed.

(* ---- clause 2: the canonical string re-parses to the same segments, in
   either notation, and is a fixed point of str().
   [canon sp' text] = str() of YAMLPath(text) with the separator set to sp'.
   Guards: [wfc] (= [wf] + what str() cannot re-express: a back-slash right
   before an escapable symbol, "*" in a quoted key, a regex with all ten
   delimiter candidates; the former F21 clause [quote_wrapped] is gone since
   SearchTerms.__str__ escapes quotes, C08_canon_F21); [dot_text_ok] = the property's own
   exclusion; a canonical dot text that is blank to str.strip() is the empty
   path (only a single key made of tabs / line feeds: not escapable). ---- *)
Theorem C08_canonical_partial :
  forall (sp sp' : sep) (l : list sseg) (c : string),
    wfc sp l = true -> dot_text_ok sp (render_ref sp l) = true ->
    canon sp' (render_ref sp l) = Ok c ->
    (sp' = Dot -> (is_nil l || nonblank c) = true) ->
    parse (Forced sp') true c = Ok (segs_of l).
Proof. exact canonical. Qed.
Print Assumptions C08_canonical_partial.

(* the same when the canonical text is handed to YAMLPath() afresh (separator
   inference): a canonical dot text starting with "/" is excluded *)
Theorem C08_canonical_auto_partial :
  forall (sp sp' : sep) (l : list sseg) (c : string),
    wfc sp l = true -> dot_text_ok sp (render_ref sp l) = true ->
    canon sp' (render_ref sp l) = Ok c ->
    (sp' = Dot -> (is_nil l || nonblank c) = true) -> dot_text_ok sp' c = true ->
    parse Auto true c = Ok (segs_of l).
Proof. exact canonical_auto. Qed.
Print Assumptions C08_canonical_auto_partial.

Theorem C08_fixpoint_partial :
  forall (sp sp' : sep) (l : list sseg) (c : string),
    wfc sp l = true -> dot_text_ok sp (render_ref sp l) = true ->
    canon sp' (render_ref sp l) = Ok c ->
    (sp' = Dot -> (is_nil l || nonblank c) = true) ->
    path_str (Forced sp') c = Ok c.
Proof. exact fixpoint. Qed.
Print Assumptions C08_fixpoint_partial.

(* the printer's algorithm: ensure_escaped for a one-character symbol is a
   left-to-right scan (all strings), and on a text written with back-slash
   escapes it back-slashes exactly the missing symbols *)
Theorem C08_escape_symbol_scan :
  forall (d : ascii) (v : string), Ascii.eqb d "\"%char = false -> escape_symbol v (str1 d) = scan1 d v.
Proof. exact escape_symbol_scan. Qed.
Theorem C08_ensure_escaped_written :
  forall (ds E : list ascii) (k : string),
    mem_ascii "\"%char E = true -> forallb (fun d => negb (Ascii.eqb d "\"%char)) ds = true ->
    no_bs_before ds k = true ->
    ensure_escaped (esc_with E k) (map str1 ds) = esc_with (rev ds ++ E)%list k.
Proof. exact ensure_escaped_esc. Qed.

(* ---- clause 3: two paths compare equal exactly when their segments are equal.
   Since the repair of finding F23 __eq__ compares the ESCAPED segments of the
   two paths, reduced to plain values ([comparable_seg]: search terms to their
   four properties, keyword / collector terms to their str()).  First for ANY
   two texts that parse; then on the writer's texts, where the plain values
   determine the segments (str() of keyword and collector terms is
   one-to-one).  The former guards [wfc] and [no_dot_key] are gone: what is
   left is [wf] (what the notation cannot express) and the property's own
   exclusion. ---- *)
Theorem C08_eq_parsed :
  forall (T1 T2 : string) (s1 s2 : list seg),
    parse Auto true T1 = Ok s1 -> parse Auto true T2 = Ok s2 ->
    exists b, y_eq (y_new T1) T2 = Ok b
              /\ (b = true <-> map comparable_seg s1 = map comparable_seg s2).
Proof. exact eq_parsed. Qed.
Print Assumptions C08_eq_parsed.

Theorem C08_eq_iff_partial :
  forall (sp1 sp2 : sep) (l1 l2 : list sseg),
    wf sp1 l1 = true -> wf sp2 l2 = true ->
    dot_text_ok sp1 (render_ref sp1 l1) = true -> dot_text_ok sp2 (render_ref sp2 l2) = true ->
    exists b, y_eq (y_new (render_ref sp1 l1)) (render_ref sp2 l2) = Ok b
              /\ (b = true <-> segs_of l1 = segs_of l2).
Proof. exact eq_iff. Qed.
Print Assumptions C08_eq_iff_partial.

(* ---- clause 4: appending a segment then popping it restores the path.
   Proved for a tail that is written after a separator ([needs_sep]: key, "*",
   "**", bare anchor) in the two situations pop() distinguishes: the tail is in
   canonical form (the text is cut, and the path TEXT is restored), or no
   suffix test matches (the path is rebuilt from the remaining segments; its
   text is the canonical one, the segments are restored).  The rebuilt text is
   a canonical dot text, so the property's exclusion applies to it. ---- *)
Theorem C08_append_pop_cut_partial :
  forall (sp : sep) (l : list sseg) (x : sseg),
    l <> [] -> wf sp l = true -> wfc sp (l ++ [x]) = true ->
    dot_text_ok sp (render_ref sp l) = true -> needs_sep x = true ->
    tail_canonical sp x = true ->
    exists p', y_pop (y_append (body (sep_char sp) x) (y_new (render_ref sp l)))
               = (Ok (kseg false (sep_char sp) (plain_x x)), p')
               /\ y_orig p' = render_ref sp l /\ fst (y_escaped p') = Ok (segs_of l).
Proof. exact append_pop_cut. Qed.
Print Assumptions C08_append_pop_cut_partial.

Theorem C08_append_pop_partial :
  forall (sp : sep) (l : list sseg) (x : sseg),
    l <> [] -> wfc sp l = true -> wfc sp (l ++ [x]) = true ->
    dot_text_ok sp (render_ref sp l) = true -> needs_sep x = true ->
    (tail_canonical sp x || no_suffix_match sp l x) = true ->
    dot_text_ok sp (canon_of sp sp l) = true -> (sp = Dot -> nonblank (canon_of sp sp l) = true) ->
    exists sg p', y_pop (y_append (body (sep_char sp) x) (y_new (render_ref sp l))) = (Ok sg, p')
                  /\ sg = kseg false (sep_char sp) (plain_x x)
                  /\ fst (y_escaped p') = Ok (segs_of l).
Proof. exact append_pop. Qed.
Print Assumptions C08_append_pop_partial.

(* ---- non-vacuity: keys with every escapable character are well-formed, and
   every segment kind occurs ---- *)
Definition every_escapable : string := "a\b.c/d(e)f[g]h^i$j%k l'm""n".

Example C08_wf_nonvacuous_key_dot :
  wf Dot [((Some TKey, AStr every_escapable), plain_style)] = true
  /\ wfc Slash [((Some TKey, AStr every_escapable), plain_style)] = true.
Proof. vm_compute. split; reflexivity. Qed.

Example C08_wf_nonvacuous_quoted_key :
  wf Slash [((Some TKey, AStr "x"), plain_style);
            ((Some TKey, AStr every_escapable), mkstyle (Some DQ) false false "/"%char false)] = true.
Proof. vm_compute. reflexivity. Qed.

Definition sample_path : list sseg :=
  [ ((Some TKey, AStr "hash"), plain_style);
    ((Some TKey, AStr "dotted.child key"), plain_style);
    ((Some TIndex, AInt (-12)%Z), plain_style);
    ((Some TIndex, AStr "1:2"), plain_style);
    ((Some TAnchor, AStr "anchor_1"), mkstyle None true false "/"%char false);
    ((Some TMatchAll, ANone), plain_style);
    ((Some TTraverse, ANone), plain_style);
    ((Some TKeywordSearch, AKeyword true KHasChild "a b,c"), plain_style);
    ((Some TCollector, ACollector CNone "(a.b)+(c)"), plain_style);
    ((Some TCollector, ACollector CSub "x/y"), plain_style);
    ((Some TKey, AStr "'quoted' [key]"), mkstyle (Some SQ) false false "/"%char false) ].

Example C08_parse_render_nonvacuous :
  wf Dot sample_path = true /\ wf Slash sample_path = true
  /\ render_ref Dot sample_path
     = "hash.dotted\.child\ key[-12][1:2][&anchor_1].*.**[!has_child(a\ b,c)]((a.b)+(c))-(x/y).'\'quoted\' \[key\]'".
Proof. vm_compute. repeat split; reflexivity. Qed.

(* SEARCH segments with every escapable character in attribute and term *)
Definition sample_searches : list sseg :=
  [ ((Some TKey, AStr "x"), plain_style);
    ((Some TSearch, ASearch true MEquals "full name" "Some User's Name"), mkstyle (Some DQ) false false "/"%char false);
    ((Some TSearch, ASearch true MGe "lvl" "5 %"), mkstyle None false true "/"%char false);
    ((Some TSearch, ASearch false MRegex "." "^a/b|c$"), mkstyle None false false "#"%char false);
    ((Some TSearch, ASearch false MStartsWith "enc" "ENC["), plain_style) ].

Example C08_parse_render_search_nonvacuous :
  wf Dot sample_searches = true /\ wf Slash sample_searches = true
  /\ wf Dot [((Some TSearch, ASearch true MContains every_escapable every_escapable), plain_style)] = true
  /\ render_ref Dot sample_searches
     = "x[full\ name!=""Some User\'s Name""][!lvl>=5\ \%][.=~#^a/b|c$#][enc^ENC\[]".
Proof. vm_compute. repeat split; reflexivity. Qed.

(* non-vacuity of the guards of clauses 2-3: every escapable character in keys,
   attributes and terms; both target notations; the exclusion guard holds for
   a dot text that does not start with "/" and fails for one that does *)
Definition escapable_path : list sseg :=
  [ ((Some TKey, AStr every_escapable), plain_style);
    ((Some TKey, AStr every_escapable), mkstyle (Some DQ) false false "/"%char false);
    ((Some TSearch, ASearch true MContains every_escapable "a.b/c(d)e[f]g^h$i%j k'l""m"), mkstyle (Some SQ) false true "/"%char false);
    ((Some TSearch, ASearch false MRegex "x" "^a/b|c#d@e,f;g:h$"), mkstyle None false false "~"%char false) ].

Example C08_canonical_nonvacuous :
  wfc Dot (sample_path ++ escapable_path) = true /\ wfc Slash (sample_path ++ escapable_path) = true
  /\ dot_text_ok Dot (render_ref Dot (sample_path ++ escapable_path)) = true
  /\ (exists c, canon Dot (render_ref Slash escapable_path) = Ok c /\ nonblank c = true /\ dot_text_ok Dot c = true)
  /\ dot_text_ok Dot (render_ref Dot [((Some TKey, AStr "/"), mkstyle (Some DQ) false false "/"%char false)]) = true
  /\ canon Dot (render_ref Dot [((Some TKey, AStr "/"), mkstyle (Some DQ) false false "/"%char false)]) = Ok "/"
  /\ dot_text_ok Dot "/" = false.
Proof. vm_compute. repeat split; try reflexivity. eexists. repeat split; reflexivity. Qed.

Example C08_eq_nonvacuous :
  wf Dot [((Some TKey, AStr every_escapable), plain_style)] = true
  /\ wf Slash [((Some TKey, AStr every_escapable), mkstyle (Some SQ) false false "/"%char false)] = true
  /\ wf Dot (sample_path ++ escapable_path) = true /\ wf Slash (sample_path ++ sample_searches) = true
  /\ dot_text_ok Dot (render_ref Dot (sample_path ++ escapable_path)) = true.
Proof. vm_compute. repeat split; reflexivity. Qed.

(* clauses 2-4 on instances (tests, by computation) *)
Example C08_canonical_instances :
  wfc Dot (sample_path ++ sample_searches) = true
  /\ (do c <- canon Slash (render_ref Dot sample_path); parse (Forced Slash) true c) = Ok (segs_of sample_path)
  /\ (do c <- canon Dot (render_ref Slash sample_searches); parse (Forced Dot) true c) = Ok (segs_of sample_searches)
  /\ (do c <- canon Slash (render_ref Dot sample_searches); path_str (Forced Slash) c)
     = canon Slash (render_ref Dot sample_searches).
Proof. vm_compute. repeat split; reflexivity. Qed.

Example C08_eq_instances :
  y_eq (y_new (render_ref Dot sample_searches)) (render_ref Slash sample_searches) = Ok true
  /\ y_eq (y_new (render_ref Dot (sample_path ++ escapable_path))) (render_ref Slash (sample_path ++ escapable_path)) = Ok true
  /\ y_eq (y_new "a.b[0]") "/a/b/0" = Ok false
  /\ y_eq (y_new "[a!=b]") "[!a=b]" = Ok true /\ y_eq (y_new "[a\!=b]") "[a!=b]" = Ok false
  /\ y_eq (y_new "(a.b)") "(/a/b)" = Ok false /\ y_eq (y_new "[max(a)]") "[max( a )]" = Ok true /\ y_eq (y_new "[max(a)]") "[!max(a)]" = Ok false
  /\ y_eq (y_new "[1]") "'1'" = Ok false /\ y_eq (y_new "a[") "a" = Raise (YPE Generic).
Proof. vm_compute. repeat split; reflexivity. Qed.

(* non-vacuity of clause 4: a canonical tail and a quoted tail with every
   escapable character; the guard that excludes the path "/" in quotes (dot
   notation), whose canonical dot text is "/" *)
Example C08_append_pop_nonvacuous :
  let k := ((Some TKey, AStr "x"), plain_style) in
  let tail_plain := ((Some TKey, AStr every_escapable), plain_style) in
  let tail_quoted := ((Some TKey, AStr every_escapable), mkstyle (Some SQ) false false "/"%char false) in
  let slash_key := ((Some TKey, AStr "/"), mkstyle (Some DQ) false false "/"%char false) in
  wfc Dot [k; tail_plain] = true /\ tail_canonical Dot tail_plain = true /\ tail_canonical Slash tail_plain = true
  /\ wfc Dot [k; tail_quoted] = true /\ no_suffix_match Dot [k] tail_quoted = true
  /\ no_suffix_match Slash [k] tail_quoted = true
  /\ dot_text_ok Dot (canon_of Dot Dot [k]) = true /\ nonblank (canon_of Dot Dot [k]) = true
  /\ wfc Dot [slash_key; tail_quoted] = true /\ dot_text_ok Dot (render_ref Dot [slash_key]) = true
  /\ dot_text_ok Dot (canon_of Dot Dot [slash_key]) = false.
Proof. vm_compute. repeat split; reflexivity. Qed.

Example C08_append_pop_instances :
  (let p := y_append "'a b'" (y_new "x.y") in (fst (y_pop p), y_orig (snd (y_pop p))))
  = (Ok (Some TKey, AStr "a b"), "x.y")
  /\ (let p := y_append "\/" (y_new "/x/\/") in y_orig (snd (y_pop p))) = "/x/\/".
Proof. vm_compute. split; reflexivity. Qed.

(* ---- findings ---- *)
(* F21, the parser half -- REPAIRED (fix in YAMLPath._parse_path: the term is
   undemarcated only when a demarcating quote opened it): a search term that is
   one quote character, or starts and ends with the same quote character,
   written with the documented back-slash escape or as a regular expression,
   is read back as it is; a term demarcated by quotes is still stripped of
   them.  [quote_wrapped] is no longer part of [wf]. *)
Example C08_parse_render_F21 :
  let l1 := [((Some TSearch, ASearch false MEquals "a" "'"), plain_style)] in
  let l2 := [((Some TSearch, ASearch false MEquals "a" "'x'"), plain_style)] in
  wf Dot l1 = true /\ render_ref Dot l1 = "[a=\']"
  /\ parse (Forced Dot) true (render_ref Dot l1) = Ok (segs_of l1)
  /\ wf Dot l2 = true /\ parse (Forced Dot) true (render_ref Dot l2) = Ok (segs_of l2)
  /\ parse Auto true "[a=~/'x'/]" = Ok [(Some TSearch, ASearch false MRegex "a" "'x'")]
  /\ parse Auto true "[a='x']" = Ok [(Some TSearch, ASearch false MEquals "a" "x")]
  /\ parse Auto true "[a='x\'']" = Ok [(Some TSearch, ASearch false MEquals "a" "x'")]
  /\ parse Auto true "[' '=\'x\']" = Ok [(Some TSearch, ASearch false MEquals "' '" "'x'")].
Proof. vm_compute. repeat split; reflexivity. Qed.

(* F21, the printer half -- REPAIRED (fix in SearchTerms.__str__: the quote
   characters of a term are back-slashed like its blanks and operator
   symbols).  A quote-wrapped term that reached the segments without
   back-slashes -- written inside the OTHER quote pair, a nested demarcation
   (style [st_nest]) -- used to be printed bare (a[b='x']) and re-parsed
   stripped (the term x).  The writer's nested style is inside [wf] and [wfc],
   so C08_canonical_partial / C08_fixpoint_partial cover it; [quote_wrapped]
   is no longer part of [wfc]. *)
Example C08_canon_F21 :
  let nested := mkstyle (Some DQ) false false "/"%char true in
  let l := [((Some TKey, AStr "a"), plain_style); ((Some TSearch, ASearch false MEquals "b" "'x'"), nested)] in
  let nested_sq := mkstyle (Some SQ) false false "/"%char true in
  let l2 := [((Some TSearch, ASearch true MContains "b" "it's ""x"" 'y'"), nested_sq)] in
  let l3 := [((Some TSearch, ASearch true MContains "b" "say ""x 'y"), nested_sq)] in
  wfc Dot l = true /\ wfc Slash l = true
  /\ render_ref Dot l = "a[b=""'x'""]"
  /\ parse (Forced Dot) true (render_ref Dot l) = Ok (segs_of l)
  /\ parse (Forced Dot) false (render_ref Dot l) = Ok (segs_of l)       (* the unescaped term holds bare quotes *)
  /\ path_str (Forced Dot) (render_ref Dot l) = Ok "a[b=\'x\']"
  /\ parse (Forced Dot) true "a[b=\'x\']" = Ok (segs_of l)
  /\ path_str (Forced Dot) "a[b=\'x\']" = Ok "a[b=\'x\']"
  /\ canon Slash (render_ref Dot l) = Ok "/a[b=\'x\']"
  /\ parse (Forced Dot) true "a[b='x']"                               (* what str() wrote before the repair *)
     = Ok [(Some TKey, AStr "a"); (Some TSearch, ASearch false MEquals "b" "x")]
  /\ wfc Dot l2 = true /\ render_ref Dot l2 = "[b!%'it\'s ""x"" \'y\'']"
  /\ canon Dot (render_ref Dot l2) = Ok "[b!%it\'s\ \""x\""\ \'y\']"
  /\ wf Dot l3 = false                         (* a single double quote is not a pair: it must be escaped *)
  /\ render_ref Dot l3 = "[b!%'say ""x \'y']" /\ parse Auto true (render_ref Dot l3) = Raise (YPE Generic).
Proof. vm_compute. repeat split; reflexivity. Qed.

(* F23 -- REPAIRED (fix in YAMLPath.__eq__: the parsed segments are compared,
   not the forward-slash texts of the unescaped segments): the single key
   "a.b" written with an escaped dot, demarcated, and in forward-slash
   notation compares equal; a different segmentation does not. *)
Example C08_eq_iff_F23 :
  let l := [((Some TKey, AStr "a.b"), plain_style)] in
  wf Dot l = true /\ wf Slash l = true
  /\ render_ref Dot l = "a\.b" /\ render_ref Slash l = "/a.b"
  /\ y_eq (y_new (render_ref Dot l)) (render_ref Slash l) = Ok true
  /\ y_eq (y_new "'a.b'") "a\.b" = Ok true /\ y_eq (y_new "/a.b") """a.b""" = Ok true
  /\ y_eq (y_new "a.b") "/a.b" = Ok false /\ y_eq (y_new "a\.b") "a.b" = Ok false.
Proof. vm_compute. repeat split; reflexivity. Qed.
