(* C08 -- Path text and parsed segments round-trip in both notations.
   Statements only; proofs live in Proofs/RtStep.v RtSeg.v RtInt.v RtRender.v RtTables.v
   RtCanon.v RtClauses.v RtPop.v RtAppend.v RtAdd.v.

   Vocabulary: Spec/C08Spec.v defines the documented writer [render_ref] over
   styled segments (a segment plus the writer's free choices: quote
   demarcation, [&a] / &a, [!a=b] / [a!=b], regex delimiter) and the explicit
   well-formedness [wf] (what the notation cannot express) and [wfc] (what
   str() cannot re-express).  [parse] is the model of YAMLPath._parse_path
   (Model/PathParser.v, tied to the code by the C14 and C08 correspondence
   runs); [stringify], [y_eq], [y_append], [y_pop] model the printer and the
   YAMLPath object (Model/PathPrinter.v).

   STATUS (every theorem below is proved; Print Assumptions: closed)
     C08_parse_render_partial       clause 1, every segment kind incl. SEARCH, both notations;
                                    only guard [wf] (no finding inside it since the repair of F21's parser half)
     C08_parse_render_auto_partial  the same through separator inference (exclusion guard)
     C08_int_of_str                 int(str(n)) = n for all integers
     C08_canonical_partial / C08_canonical_auto_partial / C08_fixpoint_partial
                                    clause 2; guards [wfc] (no finding inside it since the repair of F21's
                                    printer half), [dot_text_ok], non-blank dot text
     C08_escape_symbol_scan / C08_ensure_escaped_written
                                    ensure_escaped as a left-to-right scan
     C08_eq_parsed                  clause 3 for ANY two texts that parse: == is the comparison of the
                                    parsed (escaped) segments as plain values (since the repair of F23)
     C08_eq_iff_partial             clause 3 on the writer's texts; only guards [wf] and the exclusion
                                    (the former guard [no_dot_key] = finding F23 is gone, so is [wfc])
     C08_append_pop_cut_partial / C08_append_pop_partial
                                    clause 4 for a tail written after a separator, when pop()
                                    cuts a canonical tail or rebuilds (no suffix match)
     C08_*_ok                       side conditions over the regenerated tables
     C08_parse_render_F21           (Example) finding F21, parser half, repaired: escaped / regex quote-wrapped terms
     C08_canon_F21                  (Example) finding F21, printer half, repaired: str() escapes the quotes of a term
     C08_eq_iff_F23                 (Example) finding F23, repaired: == and an escaped / demarcated dot
     C08_appended_parse             (round gapA) what append() writes for a tail with its own demarcation
                                    ("x.[0]", "/x/[a=b]", "(a).&(b)") and what it parses to
     C08_append_pop_all_partial / C08_append_pop_text_partial
                                    (round gapA) clause 4 for EVERY kind of tail and style; the guard
                                    "canonical tail or no suffix match" is discharged (C08_tail_canonical_or_clash)
     C08_add_is_append_on_copy      (round gapA) __add__
     C08_strip_prefix_partial / C08_strip_prefix_root / C08_strip_prefix_other / C08_strip_prefix_refuted
                                    (round gapA) strip_path_prefix *)
From Coq Require Import List Ascii String ZArith Bool.
From YP Require Import Outcome PyStr Generated PathParser PathPrinter C08Spec RtStep RtSeg RtInt RtRender RtTables RtCanon RtClauses RtPop RtAppend RtAdd.
Import ListNotations.
Open Scope string_scope.

(* ---- clause 1: writing then parsing gives back the segments ---- *)
(* Every segment kind, both notations, any length, any text.  The only guard
   is [wf]; its clauses name what the notation cannot express (hence
   "_partial"); the former F21 clause [quote_wrapped] is gone since the parser
   repair (C08_parse_render_F21). *)
Theorem C08_parse_render_partial :
  forall (sp : sep) (l : list sseg),
    wf sp l = true -> parse (Forced sp) true (render_ref sp l) = Ok (segs_of l).
Proof. exact parse_render. Qed.
Print Assumptions C08_parse_render_partial.

(* through separator inference; "dot text must not start with /" is the
   property's own exclusion *)
Theorem C08_parse_render_auto_partial :
  forall (sp : sep) (l : list sseg),
    wf sp l = true ->
    (sp = Dot -> first_not_in ["/"%char] (render_ref sp l) = true) ->
    parse Auto true (render_ref sp l) = Ok (segs_of l).
Proof. exact parse_render_auto. Qed.
Print Assumptions C08_parse_render_auto_partial.

(* int(str(n)) = n for every integer: the element index needs no guard *)
Theorem C08_int_of_str : forall n : Z, py_int (str_of_Z n) = Some n.
Proof. exact py_int_str_of_Z. Qed.
Print Assumptions C08_int_of_str.

(* ---- side conditions over the tables regenerated from the Python source ---- *)
Theorem C08_section_syms_ok : section_syms_ok = true.
Proof. exact section_syms_ok_true. Qed.
Theorem C08_key_syms_ok : key_syms_ok = true.
Proof. exact key_syms_ok_true. Qed.
Theorem C08_spellings_ok : spellings_ok = true.
Proof. exact spellings_ok_true. Qed.
Theorem C08_key_specials_cover :
  forall (sp : sep) (c : ascii),
    mem_ascii c (key_specials (sep_char sp)) = false -> top_plain (sep_char sp) c = true.
Proof. exact key_specials_cover. Qed.

(* ---- clause 2: the canonical string re-parses to the same segments, in
   either notation, and is a fixed point of str().
   [canon sp' text] = str() of YAMLPath(text) with the separator set to sp'.
   Guards: [wfc] (= [wf] + what str() cannot re-express: a back-slash right
   before an escapable symbol, "*" in a quoted key, a regex with all ten
   delimiter candidates; the former F21 clause [quote_wrapped] is gone since
   SearchTerms.__str__ escapes quotes, C08_canon_F21); [dot_text_ok] = the property's own
   exclusion; a canonical dot text that is blank to str.strip() is the empty
   path (only a single key made of tabs / line feeds: not escapable). ---- *)
Theorem C08_canonical_partial :
  forall (sp sp' : sep) (l : list sseg) (c : string),
    wfc sp l = true -> dot_text_ok sp (render_ref sp l) = true ->
    canon sp' (render_ref sp l) = Ok c ->
    (sp' = Dot -> (is_nil l || nonblank c) = true) ->
    parse (Forced sp') true c = Ok (segs_of l).
Proof. exact canonical. Qed.
Print Assumptions C08_canonical_partial.

(* the same when the canonical text is handed to YAMLPath() afresh (separator
   inference): a canonical dot text starting with "/" is excluded *)
Theorem C08_canonical_auto_partial :
  forall (sp sp' : sep) (l : list sseg) (c : string),
    wfc sp l = true -> dot_text_ok sp (render_ref sp l) = true ->
    canon sp' (render_ref sp l) = Ok c ->
    (sp' = Dot -> (is_nil l || nonblank c) = true) -> dot_text_ok sp' c = true ->
    parse Auto true c = Ok (segs_of l).
Proof. exact canonical_auto. Qed.
Print Assumptions C08_canonical_auto_partial.

Theorem C08_fixpoint_partial :
  forall (sp sp' : sep) (l : list sseg) (c : string),
    wfc sp l = true -> dot_text_ok sp (render_ref sp l) = true ->
    canon sp' (render_ref sp l) = Ok c ->
    (sp' = Dot -> (is_nil l || nonblank c) = true) ->
    path_str (Forced sp') c = Ok c.
Proof. exact fixpoint. Qed.
Print Assumptions C08_fixpoint_partial.

(* the printer's algorithm: ensure_escaped for a one-character symbol is a
   left-to-right scan (all strings), and on a text written with back-slash
   escapes it back-slashes exactly the missing symbols *)
Theorem C08_escape_symbol_scan :
  forall (d : ascii) (v : string), Ascii.eqb d "\"%char = false -> escape_symbol v (str1 d) = scan1 d v.
Proof. exact escape_symbol_scan. Qed.
Theorem C08_ensure_escaped_written :
  forall (ds E : list ascii) (k : string),
    mem_ascii "\"%char E = true -> forallb (fun d => negb (Ascii.eqb d "\"%char)) ds = true ->
    no_bs_before ds k = true ->
    ensure_escaped (esc_with E k) (map str1 ds) = esc_with (rev ds ++ E)%list k.
Proof. exact ensure_escaped_esc. Qed.

(* ---- clause 3: two paths compare equal exactly when their segments are equal.
   Since the repair of finding F23 __eq__ compares the ESCAPED segments of the
   two paths, reduced to plain values ([comparable_seg]: search terms to their
   four properties, keyword / collector terms to their str()).  First for ANY
   two texts that parse; then on the writer's texts, where the plain values
   determine the segments (str() of keyword and collector terms is
   one-to-one).  The former guards [wfc] and [no_dot_key] are gone: what is
   left is [wf] (what the notation cannot express) and the property's own
   exclusion. ---- *)
Theorem C08_eq_parsed :
  forall (T1 T2 : string) (s1 s2 : list seg),
    parse Auto true T1 = Ok s1 -> parse Auto true T2 = Ok s2 ->
    exists b, y_eq (y_new T1) T2 = Ok b
              /\ (b = true <-> map comparable_seg s1 = map comparable_seg s2).
Proof. exact eq_parsed. Qed.
Print Assumptions C08_eq_parsed.

Theorem C08_eq_iff_partial :
  forall (sp1 sp2 : sep) (l1 l2 : list sseg),
    wf sp1 l1 = true -> wf sp2 l2 = true ->
    dot_text_ok sp1 (render_ref sp1 l1) = true -> dot_text_ok sp2 (render_ref sp2 l2) = true ->
    exists b, y_eq (y_new (render_ref sp1 l1)) (render_ref sp2 l2) = Ok b
              /\ (b = true <-> segs_of l1 = segs_of l2).
Proof. exact eq_iff. Qed.
Print Assumptions C08_eq_iff_partial.

(* ---- clause 4: appending a segment then popping it restores the path.
   Proved for a tail that is written after a separator ([needs_sep]: key, "*",
   "**", bare anchor) in the two situations pop() distinguishes: the tail is in
   canonical form (the text is cut, and the path TEXT is restored), or no
   suffix test matches (the path is rebuilt from the remaining segments; its
   text is the canonical one, the segments are restored).  The rebuilt text is
   a canonical dot text, so the property's exclusion applies to it. ---- *)
Theorem C08_append_pop_cut_partial :
  forall (sp : sep) (l : list sseg) (x : sseg),
    l <> [] -> wf sp l = true -> wfc sp (l ++ [x]) = true ->
    dot_text_ok sp (render_ref sp l) = true -> needs_sep x = true ->
    tail_canonical sp x = true ->
    exists p', y_pop (y_append (body (sep_char sp) x) (y_new (render_ref sp l)))
               = (Ok (kseg false (sep_char sp) (plain_x x)), p')
               /\ y_orig p' = render_ref sp l /\ fst (y_escaped p') = Ok (segs_of l).
Proof. exact append_pop_cut. Qed.
Print Assumptions C08_append_pop_cut_partial.

Theorem C08_append_pop_partial :
  forall (sp : sep) (l : list sseg) (x : sseg),
    l <> [] -> wfc sp l = true -> wfc sp (l ++ [x]) = true ->
    dot_text_ok sp (render_ref sp l) = true -> needs_sep x = true ->
    (tail_canonical sp x || no_suffix_match sp l x) = true ->
    dot_text_ok sp (canon_of sp sp l) = true -> (sp = Dot -> nonblank (canon_of sp sp l) = true) ->
    exists sg p', y_pop (y_append (body (sep_char sp) x) (y_new (render_ref sp l))) = (Ok sg, p')
                  /\ sg = kseg false (sep_char sp) (plain_x x)
                  /\ fst (y_escaped p') = Ok (segs_of l).
Proof. exact append_pop. Qed.
Print Assumptions C08_append_pop_partial.

(* ---- non-vacuity: keys with every escapable character are well-formed, and
   every segment kind occurs ---- *)
Definition every_escapable : string := "a\b.c/d(e)f[g]h^i$j%k l'm""n".

Example C08_wf_nonvacuous_key_dot :
  wf Dot [((Some TKey, AStr every_escapable), plain_style)] = true
  /\ wfc Slash [((Some TKey, AStr every_escapable), plain_style)] = true.
Proof. vm_compute. split; reflexivity. Qed.

Example C08_wf_nonvacuous_quoted_key :
  wf Slash [((Some TKey, AStr "x"), plain_style);
            ((Some TKey, AStr every_escapable), mkstyle (Some DQ) false false "/"%char false)] = true.
Proof. vm_compute. reflexivity. Qed.

Definition sample_path : list sseg :=
  [ ((Some TKey, AStr "hash"), plain_style);
    ((Some TKey, AStr "dotted.child key"), plain_style);
    ((Some TIndex, AInt (-12)%Z), plain_style);
    ((Some TIndex, AStr "1:2"), plain_style);
    ((Some TAnchor, AStr "anchor_1"), mkstyle None true false "/"%char false);
    ((Some TMatchAll, ANone), plain_style);
    ((Some TTraverse, ANone), plain_style);
    ((Some TKeywordSearch, AKeyword true KHasChild "a b,c"), plain_style);
    ((Some TCollector, ACollector CNone "(a.b)+(c)"), plain_style);
    ((Some TCollector, ACollector CSub "x/y"), plain_style);
    ((Some TKey, AStr "'quoted' [key]"), mkstyle (Some SQ) false false "/"%char false) ].

Example C08_parse_render_nonvacuous :
  wf Dot sample_path = true /\ wf Slash sample_path = true
  /\ render_ref Dot sample_path
     = "hash.dotted\.child\ key[-12][1:2][&anchor_1].*.**[!has_child(a\ b,c)]((a.b)+(c))-(x/y).'\'quoted\' \[key\]'".
Proof. vm_compute. repeat split; reflexivity. Qed.

(* SEARCH segments with every escapable character in attribute and term *)
Definition sample_searches : list sseg :=
  [ ((Some TKey, AStr "x"), plain_style);
    ((Some TSearch, ASearch true MEquals "full name" "Some User's Name"), mkstyle (Some DQ) false false "/"%char false);
    ((Some TSearch, ASearch true MGe "lvl" "5 %"), mkstyle None false true "/"%char false);
    ((Some TSearch, ASearch false MRegex "." "^a/b|c$"), mkstyle None false false "#"%char false);
    ((Some TSearch, ASearch false MStartsWith "enc" "ENC["), plain_style) ].

Example C08_parse_render_search_nonvacuous :
  wf Dot sample_searches = true /\ wf Slash sample_searches = true
  /\ wf Dot [((Some TSearch, ASearch true MContains every_escapable every_escapable), plain_style)] = true
  /\ render_ref Dot sample_searches
     = "x[full\ name!=""Some User\'s Name""][!lvl>=5\ \%][.=~#^a/b|c$#][enc^ENC\[]".
Proof. vm_compute. repeat split; reflexivity. Qed.

(* non-vacuity of the guards of clauses 2-3: every escapable character in keys,
   attributes and terms; both target notations; the exclusion guard holds for
   a dot text that does not start with "/" and fails for one that does *)
Definition escapable_path : list sseg :=
  [ ((Some TKey, AStr every_escapable), plain_style);
    ((Some TKey, AStr every_escapable), mkstyle (Some DQ) false false "/"%char false);
    ((Some TSearch, ASearch true MContains every_escapable "a.b/c(d)e[f]g^h$i%j k'l""m"), mkstyle (Some SQ) false true "/"%char false);
    ((Some TSearch, ASearch false MRegex "x" "^a/b|c#d@e,f;g:h$"), mkstyle None false false "~"%char false) ].

Example C08_canonical_nonvacuous :
  wfc Dot (sample_path ++ escapable_path) = true /\ wfc Slash (sample_path ++ escapable_path) = true
  /\ dot_text_ok Dot (render_ref Dot (sample_path ++ escapable_path)) = true
  /\ (exists c, canon Dot (render_ref Slash escapable_path) = Ok c /\ nonblank c = true /\ dot_text_ok Dot c = true)
  /\ dot_text_ok Dot (render_ref Dot [((Some TKey, AStr "/"), mkstyle (Some DQ) false false "/"%char false)]) = true
  /\ canon Dot (render_ref Dot [((Some TKey, AStr "/"), mkstyle (Some DQ) false false "/"%char false)]) = Ok "/"
  /\ dot_text_ok Dot "/" = false.
Proof. vm_compute. repeat split; try reflexivity. eexists. repeat split; reflexivity. Qed.

Example C08_eq_nonvacuous :
  wf Dot [((Some TKey, AStr every_escapable), plain_style)] = true
  /\ wf Slash [((Some TKey, AStr every_escapable), mkstyle (Some SQ) false false "/"%char false)] = true
  /\ wf Dot (sample_path ++ escapable_path) = true /\ wf Slash (sample_path ++ sample_searches) = true
  /\ dot_text_ok Dot (render_ref Dot (sample_path ++ escapable_path)) = true.
Proof. vm_compute. repeat split; reflexivity. Qed.

(* clauses 2-4 on instances (tests, by computation) *)
Example C08_canonical_instances :
  wfc Dot (sample_path ++ sample_searches) = true
  /\ (do c <- canon Slash (render_ref Dot sample_path); parse (Forced Slash) true c) = Ok (segs_of sample_path)
  /\ (do c <- canon Dot (render_ref Slash sample_searches); parse (Forced Dot) true c) = Ok (segs_of sample_searches)
  /\ (do c <- canon Slash (render_ref Dot sample_searches); path_str (Forced Slash) c)
     = canon Slash (render_ref Dot sample_searches).
Proof. vm_compute. repeat split; reflexivity. Qed.

Example C08_eq_instances :
  y_eq (y_new (render_ref Dot sample_searches)) (render_ref Slash sample_searches) = Ok true
  /\ y_eq (y_new (render_ref Dot (sample_path ++ escapable_path))) (render_ref Slash (sample_path ++ escapable_path)) = Ok true
  /\ y_eq (y_new "a.b[0]") "/a/b/0" = Ok false
  /\ y_eq (y_new "[a!=b]") "[!a=b]" = Ok true /\ y_eq (y_new "[a\!=b]") "[a!=b]" = Ok false
  /\ y_eq (y_new "(a.b)") "(/a/b)" = Ok false /\ y_eq (y_new "[max(a)]") "[max( a )]" = Ok true /\ y_eq (y_new "[max(a)]") "[!max(a)]" = Ok false
  /\ y_eq (y_new "[1]") "'1'" = Ok false /\ y_eq (y_new "a[") "a" = Raise (YPE Generic).
Proof. vm_compute. repeat split; reflexivity. Qed.

(* non-vacuity of clause 4: a canonical tail and a quoted tail with every
   escapable character; the guard that excludes the path "/" in quotes (dot
   notation), whose canonical dot text is "/" *)
Example C08_append_pop_nonvacuous :
  let k := ((Some TKey, AStr "x"), plain_style) in
  let tail_plain := ((Some TKey, AStr every_escapable), plain_style) in
  let tail_quoted := ((Some TKey, AStr every_escapable), mkstyle (Some SQ) false false "/"%char false) in
  let slash_key := ((Some TKey, AStr "/"), mkstyle (Some DQ) false false "/"%char false) in
  wfc Dot [k; tail_plain] = true /\ tail_canonical Dot tail_plain = true /\ tail_canonical Slash tail_plain = true
  /\ wfc Dot [k; tail_quoted] = true /\ no_suffix_match Dot [k] tail_quoted = true
  /\ no_suffix_match Slash [k] tail_quoted = true
  /\ dot_text_ok Dot (canon_of Dot Dot [k]) = true /\ nonblank (canon_of Dot Dot [k]) = true
  /\ wfc Dot [slash_key; tail_quoted] = true /\ dot_text_ok Dot (render_ref Dot [slash_key]) = true
  /\ dot_text_ok Dot (canon_of Dot Dot [slash_key]) = false.
Proof. vm_compute. repeat split; reflexivity. Qed.

Example C08_append_pop_instances :
  (let p := y_append "'a b'" (y_new "x.y") in (fst (y_pop p), y_orig (snd (y_pop p))))
  = (Ok (Some TKey, AStr "a b"), "x.y")
  /\ (let p := y_append "\/" (y_new "/x/\/") in y_orig (snd (y_pop p))) = "/x/\/".
Proof. vm_compute. split; reflexivity. Qed.

(* ---- clause 4 for EVERY kind of tail (round gapA).
   append() writes "<path><separator><text of the segment>" whatever the
   segment is, so a tail that carries its own demarcation gives a text the
   reference writer never produces: "x.[0]", "/x/[a=b]", "(a).+(b)".  Its
   parse is the path's segments followed by the tail -- except that the
   intersection operator "&" of a collector is taken for the anchor mark right
   after a separator, so "(a).&(b)" reads as (a) then the plain collector (b)
   ([tail_eff]; replayed on the real code). ---- *)
Theorem C08_appended_parse :
  forall (sp : sep) (strip : bool) (l : list sseg) (x : sseg),
    l <> [] -> wf sp l = true -> wf_go false (l ++ [x]) = true -> needs_sep x = false ->
    parse (Forced sp) strip (render_ref sp l ++ c1 (sep_char sp) ++ body (sep_char sp) x)
    = Ok (map (kseg strip (sep_char sp)) (map plain_x l) ++ [kseg strip (sep_char sp) (plain_x (tail_eff x))])%list.
Proof. exact parse_appended. Qed.
Print Assumptions C08_appended_parse.

(* a tail is written in its canonical form, or it differs from its canonical
   form at some position counted from the END (then none of pop()'s three
   suffix tests can match): the former guard [tail_canonical || no_suffix_match]
   always holds *)
Theorem C08_tail_canonical_or_clash :
  forall (sp : sep) (prev : bool) (x : sseg),
    wf_seg prev x = true -> wfc_seg x = true ->
    body (sep_char sp) x = tail_canon sp x
    \/ clash (rev_str (tail_canon sp x)) (rev_str (body (sep_char sp) x)) = true.
Proof.
  intros sp prev x Hw Hc. destruct (needs_sep x) eqn:E;
    [exact (sep_tail_cases sp prev x E Hw) | exact (self_tail_cases sp prev x E Hw Hc)].
Qed.
Print Assumptions C08_tail_canonical_or_clash.

(* append then pop restores the segments of the path, for every kind and style
   of tail.  Guards left: [wfc] (what the notation / str() cannot express), the
   property's own exclusion on the text given and on the text pop() rebuilds,
   and "the rebuilt dot text is not blank" (see docs/C08.md: a path whose only
   segment is a key made of tabs / line feeds is the EMPTY path to YAMLPath()). *)
Theorem C08_append_pop_all_partial :
  forall (sp : sep) (l : list sseg) (x : sseg),
    l <> [] -> wfc sp l = true -> wfc sp (l ++ [x]) = true ->
    dot_text_ok sp (render_ref sp l) = true ->
    dot_text_ok sp (canon_of sp sp l) = true -> (sp = Dot -> nonblank (canon_of sp sp l) = true) ->
    exists sg p', y_pop (y_append (body (sep_char sp) x) (y_new (render_ref sp l))) = (Ok sg, p')
                  /\ sg = kseg false (sep_char sp) (plain_x (tail_eff x))
                  /\ fst (y_escaped p') = Ok (segs_of l).
Proof. exact append_pop_all. Qed.
Print Assumptions C08_append_pop_all_partial.

(* when the tail is written in canonical form the path TEXT is restored
   exactly, and nothing is asked of the path's canonical text *)
Theorem C08_append_pop_text_partial :
  forall (sp : sep) (l : list sseg) (x : sseg),
    l <> [] -> wfc sp l = true -> wfc sp (l ++ [x]) = true ->
    dot_text_ok sp (render_ref sp l) = true ->
    String.eqb (body (sep_char sp) x) (tail_canon sp (tail_eff x)) = true ->
    exists p', y_pop (y_append (body (sep_char sp) x) (y_new (render_ref sp l)))
               = (Ok (kseg false (sep_char sp) (plain_x (tail_eff x))), p')
               /\ y_orig p' = render_ref sp l /\ fst (y_escaped p') = Ok (segs_of l).
Proof. exact append_pop_text. Qed.
Print Assumptions C08_append_pop_text_partial.

Example C08_append_pop_self_nonvacuous :
  let k := ((Some TKey, AStr "x"), plain_style) in
  let coll := ((Some TCollector, ACollector CNone "a"), plain_style) in
  let idx := ((Some TIndex, AInt 0%Z), plain_style) in
  let search_q := ((Some TSearch, ASearch true MEquals "full name" every_escapable), mkstyle (Some DQ) false true "/"%char false) in
  let anchor_b := ((Some TAnchor, AStr "a1"), mkstyle None true false "/"%char false) in
  let coll_and := ((Some TCollector, ACollector CAnd "b"), plain_style) in
  wfc Dot [k; idx] = true /\ wfc Slash [k; search_q] = true /\ wfc Dot [k; anchor_b] = true /\ wfc Slash [coll; coll_and] = true
  /\ needs_sep idx = false /\ needs_sep search_q = false /\ needs_sep anchor_b = false
  /\ String.eqb (body "."%char idx) (tail_canon Dot (tail_eff idx)) = true
  /\ String.eqb (body "/"%char search_q) (tail_canon Slash (tail_eff search_q)) = false
  /\ (let p := y_append "[0]" (y_new "x") in (y_orig p, fst (y_pop p), y_orig (snd (y_pop p))))
     = ("x.[0]", Ok (Some TIndex, AInt 0%Z), "x")
  /\ (let p := y_append (body "/"%char search_q) (y_new "/x") in (fst (y_escaped (snd (y_pop p))), y_orig (snd (y_pop p))))
     = (Ok [(Some TKey, AStr "x")], "/x")
  /\ (let p := y_append "[&a1]" (y_new "x") in (fst (y_pop p), y_orig (snd (y_pop p))))
     = (Ok (Some TAnchor, AStr "a1"), "x")
  /\ (let p := y_append "&(b)" (y_new "/(a)") in (y_orig p, fst (y_pop p), y_orig (snd (y_pop p)), fst (y_escaped (snd (y_pop p)))))
     = ("/(a)/&(b)", Ok (Some TCollector, ACollector CNone "b"), "/(a)/&", Ok [(Some TCollector, ACollector CNone "a")]).
Proof. vm_compute. repeat split; reflexivity. Qed.

(* ---- __add__ (round gapA): append on a fresh copy.  The sum parses to the
   segments of the path followed by the appended segment; the operand is not
   modified (the model function has no "object afterwards": YAMLPath(self)
   only reads self.original), whatever its caches hold. ---- *)
Theorem C08_add_is_append_on_copy :
  forall (sp : sep) (l : list sseg) (x : sseg) (p : ypath),
    y_orig p = render_ref sp l ->
    l <> [] -> wf sp l = true -> wf sp (l ++ [x]) = true -> dot_text_ok sp (render_ref sp l) = true ->
    y_add p (body (sep_char sp) x) = y_append (body (sep_char sp) x) (y_new (render_ref sp l))
    /\ y_orig (y_add p (body (sep_char sp) x)) = render_ref sp l ++ c1 (sep_char sp) ++ body (sep_char sp) x
    /\ fst (y_escaped (y_add p (body (sep_char sp) x))) = Ok (segs_of l ++ [fst (tail_eff x)])%list.
Proof. exact add_is_append_on_copy. Qed.
Print Assumptions C08_add_is_append_on_copy.

(* ---- strip_path_prefix (round gapA).  It compares the forward-slash
   canonical TEXTS and cuts the text.  Stripping the prefix q from q ++ r gives
   r when the first segment of r is a key, "*" or "**" (or r is empty): then
   the remaining text begins with "/".  Guard [sep_head]: see the _refuted
   witnesses below -- NOT a listed finding of C08 (strip_path_prefix is outside
   the property text); reported to the coordinator. ---- *)
Theorem C08_strip_prefix_partial :
  forall (sp : sep) (q r : list sseg),
    q <> [] -> wfc sp q = true -> wfc sp (q ++ r) = true ->
    dot_text_ok sp (render_ref sp q) = true -> dot_text_ok sp (render_ref sp (q ++ r)) = true ->
    sep_head r = true ->
    exists p' path' prefix',
      y_strip_prefix (y_new (render_ref sp (q ++ r))) (y_new (render_ref sp q)) = (Ok (Some p'), path', prefix')
      /\ fst (y_escaped p') = Ok (segs_of r)
      /\ y_orig path' = render_ref sp (q ++ r) /\ y_orig prefix' = render_ref sp q.
Proof. exact strip_prefix. Qed.
Print Assumptions C08_strip_prefix_partial.

(* the root prefix ("/" or the empty path) strips nothing: the very object is returned *)
Theorem C08_strip_prefix_root :
  forall path : ypath,
    y_strip_prefix path (y_new "/") = (Ok None, path, mkyp "/" (Some Slash) [] [] "/")
    /\ fst (fst (y_strip_prefix path (y_new ""))) = Ok None /\ snd (fst (y_strip_prefix path (y_new ""))) = path.
Proof. exact strip_prefix_root. Qed.
Print Assumptions C08_strip_prefix_root.

(* a prefix whose canonical text is no prefix of the path's canonical text
   leaves the path unchanged (the very object is returned, text untouched) *)
Theorem C08_strip_prefix_other :
  forall (sp sp' : sep) (q l : list sseg),
    q <> [] -> l <> [] -> wfc sp' q = true -> wfc sp l = true ->
    dot_text_ok sp' (render_ref sp' q) = true -> dot_text_ok sp (render_ref sp l) = true ->
    starts_with (canon_of sp' Slash q) (canon_of sp Slash l) = false ->
    exists path' prefix',
      y_strip_prefix (y_new (render_ref sp l)) (y_new (render_ref sp' q)) = (Ok None, path', prefix')
      /\ y_orig path' = render_ref sp l /\ y_orig prefix' = render_ref sp' q.
Proof. exact strip_prefix_other. Qed.
Print Assumptions C08_strip_prefix_other.

(* what strip_path_prefix does not guarantee: a remainder that begins with a
   bracket is read in dot notation; a prefix of the TEXT is stripped although
   it is no prefix of the SEGMENTS *)
Definition stripped_segs (path prefix : string) : outcome (list seg) :=
  match fst (fst (y_strip_prefix (y_new path) (y_new prefix))) with
  | Ok (Some p') => fst (y_escaped p')
  | Ok None => Raise (PyCrash ValueError)     (* "unchanged": not the case in the witnesses *)
  | Raise e => Raise e
  | OutOfFuel => OutOfFuel
  end.

Theorem C08_strip_prefix_refuted :
  (exists (sp : sep) (q r : list sseg) (got : list seg),
     q <> [] /\ wfc sp (q ++ r) = true /\ wfc sp q = true
     /\ stripped_segs (render_ref sp (q ++ r)) (render_ref sp q) = Ok got
     /\ got <> segs_of r)
  /\ (exists path prefix got,
        stripped_segs path prefix = Ok got
        /\ parse Auto true path = Ok [(Some TKey, AStr "ab"); (Some TKey, AStr "c")]
        /\ parse Auto true prefix = Ok [(Some TKey, AStr "a")]).
Proof.
  split.
  - exists Slash, [((Some TKey, AStr "a"), plain_style)],
           [((Some TIndex, AInt 0%Z), plain_style); ((Some TKey, AStr "x"), plain_style)],
           [(Some TIndex, AInt 0%Z); (Some TKey, AStr "/x")].
    split; [discriminate|]. split; [vm_compute; reflexivity|]. split; [vm_compute; reflexivity|].
    split; [vm_compute; reflexivity|]. cbn. intros H. discriminate H.
  - exists "ab.c", "a", [(Some TKey, AStr "b/c")]. split; [vm_compute; reflexivity|]. split; vm_compute; reflexivity.
Qed.
Print Assumptions C08_strip_prefix_refuted.

Example C08_strip_prefix_nonvacuous :
  let q := [((Some TKey, AStr "hash"), plain_style); ((Some TIndex, AInt 2%Z), plain_style)] in
  let r := [((Some TKey, AStr every_escapable), mkstyle (Some DQ) false false "/"%char false);
            ((Some TSearch, ASearch true MEquals "a" "b c"), mkstyle (Some SQ) false true "/"%char false)] in
  wfc Dot q = true /\ wfc Dot (q ++ r) = true /\ sep_head r = true
  /\ dot_text_ok Dot (render_ref Dot (q ++ r)) = true
  /\ (let '(res, _, _) := y_strip_prefix (y_new (render_ref Dot (q ++ r))) (y_new (render_ref Dot q)) in
      match res with Ok (Some p) => fst (y_escaped p) | _ => Ok [] end) = Ok (segs_of r)
  /\ starts_with (canon_of Dot Slash q) (canon_of Slash Slash r) = false.
Proof. vm_compute. repeat split; reflexivity. Qed.

(* ---- findings ---- *)
(* F21, the parser half -- REPAIRED (fix in YAMLPath._parse_path: the term is
   undemarcated only when a demarcating quote opened it): a search term that is
   one quote character, or starts and ends with the same quote character,
   written with the documented back-slash escape or as a regular expression,
   is read back as it is; a term demarcated by quotes is still stripped of
   them.  [quote_wrapped] is no longer part of [wf]. *)
Example C08_parse_render_F21 :
  let l1 := [((Some TSearch, ASearch false MEquals "a" "'"), plain_style)] in
  let l2 := [((Some TSearch, ASearch false MEquals "a" "'x'"), plain_style)] in
  wf Dot l1 = true /\ render_ref Dot l1 = "[a=\']"
  /\ parse (Forced Dot) true (render_ref Dot l1) = Ok (segs_of l1)
  /\ wf Dot l2 = true /\ parse (Forced Dot) true (render_ref Dot l2) = Ok (segs_of l2)
  /\ parse Auto true "[a=~/'x'/]" = Ok [(Some TSearch, ASearch false MRegex "a" "'x'")]
  /\ parse Auto true "[a='x']" = Ok [(Some TSearch, ASearch false MEquals "a" "x")]
  /\ parse Auto true "[a='x\'']" = Ok [(Some TSearch, ASearch false MEquals "a" "x'")]
  /\ parse Auto true "[' '=\'x\']" = Ok [(Some TSearch, ASearch false MEquals "' '" "'x'")].
Proof. vm_compute. repeat split; reflexivity. Qed.

(* F21, the printer half -- REPAIRED (fix in SearchTerms.__str__: the quote
   characters of a term are back-slashed like its blanks and operator
   symbols).  A quote-wrapped term that reached the segments without
   back-slashes -- written inside the OTHER quote pair, a nested demarcation
   (style [st_nest]) -- used to be printed bare (a[b='x']) and re-parsed
   stripped (the term x).  The writer's nested style is inside [wf] and [wfc],
   so C08_canonical_partial / C08_fixpoint_partial cover it; [quote_wrapped]
   is no longer part of [wfc]. *)
Example C08_canon_F21 :
  let nested := mkstyle (Some DQ) false false "/"%char true in
  let l := [((Some TKey, AStr "a"), plain_style); ((Some TSearch, ASearch false MEquals "b" "'x'"), nested)] in
  let nested_sq := mkstyle (Some SQ) false false "/"%char true in
  let l2 := [((Some TSearch, ASearch true MContains "b" "it's ""x"" 'y'"), nested_sq)] in
  let l3 := [((Some TSearch, ASearch true MContains "b" "say ""x 'y"), nested_sq)] in
  wfc Dot l = true /\ wfc Slash l = true
  /\ render_ref Dot l = "a[b=""'x'""]"
  /\ parse (Forced Dot) true (render_ref Dot l) = Ok (segs_of l)
  /\ parse (Forced Dot) false (render_ref Dot l) = Ok (segs_of l)       (* the unescaped term holds bare quotes *)
  /\ path_str (Forced Dot) (render_ref Dot l) = Ok "a[b=\'x\']"
  /\ parse (Forced Dot) true "a[b=\'x\']" = Ok (segs_of l)
  /\ path_str (Forced Dot) "a[b=\'x\']" = Ok "a[b=\'x\']"
  /\ canon Slash (render_ref Dot l) = Ok "/a[b=\'x\']"
  /\ parse (Forced Dot) true "a[b='x']"                               (* what str() wrote before the repair *)
     = Ok [(Some TKey, AStr "a"); (Some TSearch, ASearch false MEquals "b" "x")]
  /\ wfc Dot l2 = true /\ render_ref Dot l2 = "[b!%'it\'s ""x"" \'y\'']"
  /\ canon Dot (render_ref Dot l2) = Ok "[b!%it\'s\ \""x\""\ \'y\']"
  /\ wf Dot l3 = false                         (* a single double quote is not a pair: it must be escaped *)
  /\ render_ref Dot l3 = "[b!%'say ""x \'y']" /\ parse Auto true (render_ref Dot l3) = Raise (YPE Generic).
Proof. vm_compute. repeat split; reflexivity. Qed.

(* F23 -- REPAIRED (fix in YAMLPath.__eq__: the parsed segments are compared,
   not the forward-slash texts of the unescaped segments): the single key
   "a.b" written with an escaped dot, demarcated, and in forward-slash
   notation compares equal; a different segmentation does not. *)
Example C08_eq_iff_F23 :
  let l := [((Some TKey, AStr "a.b"), plain_style)] in
  wf Dot l = true /\ wf Slash l = true
  /\ render_ref Dot l = "a\.b" /\ render_ref Slash l = "/a.b"
  /\ y_eq (y_new (render_ref Dot l)) (render_ref Slash l) = Ok true
  /\ y_eq (y_new "'a.b'") "a\.b" = Ok true /\ y_eq (y_new "/a.b") """a.b""" = Ok true
  /\ y_eq (y_new "a.b") "/a.b" = Ok false /\ y_eq (y_new "a\.b") "a.b" = Ok false.
Proof. vm_compute. repeat split; reflexivity. Qed.

(* ---- the guard "the canonical dot text is not blank" (round gapA: decision).
   A path whose ONLY segment is a key made of tabs / line feeds (reachable
   through quote demarcation: "<tab>" in quotes) has the canonical dot text
   <tab>, which YAMLPath() takes for the empty path (the `original` setter
   tests str.strip()).  The printers back-slash the blank " " and no other
   white space.  The property's quantifier draws key text from "letters,
   digits and every escapable special character": tabs and line feeds are not
   among them, so this is a restriction of the property's domain, not a C08
   finding (the same root cause is the listed C02 finding F26, whose witness is
   the lone-tab key).  In forward-slash notation, and as soon as the path has
   another segment, the text is not blank and the clauses hold. ---- *)
Example C08_canonical_blank_key :
  let tab := String (ch 9) "" in
  let quoted := mkstyle (Some DQ) false false "/"%char false in
  let l := [((Some TKey, AStr tab), quoted)] in
  let l2 := [((Some TKey, AStr "a"), plain_style); ((Some TKey, AStr tab), quoted)] in
  wfc Dot l = true /\ dot_text_ok Dot (render_ref Dot l) = true
  /\ canon Dot (render_ref Dot l) = Ok tab /\ nonblank tab = false
  /\ parse (Forced Dot) true tab = Ok []
  /\ canon Slash (render_ref Dot l) = Ok (String "/"%char tab)
  /\ parse (Forced Slash) true (String "/"%char tab) = Ok (segs_of l)
  /\ wfc Dot l2 = true /\ (do c <- canon Dot (render_ref Dot l2); parse (Forced Dot) true c) = Ok (segs_of l2).
Proof. vm_compute. repeat split; reflexivity. Qed.

(* Every remaining statement of this file, so that none is left unaudited. *)
Print Assumptions C08_section_syms_ok.
Print Assumptions C08_key_syms_ok.
Print Assumptions C08_spellings_ok.
Print Assumptions C08_key_specials_cover.
Print Assumptions C08_escape_symbol_scan.
Print Assumptions C08_ensure_escaped_written.
