(* C08 -- Path text and parsed segments round-trip in both notations.
   Statements only; proofs live in Proofs/RtStep.v RtSeg.v RtRender.v RtTables.v.

   Vocabulary: Spec/C08Spec.v defines the documented writer [render_ref] over
   styled segments (a segment plus the writer's free choices: quote
   demarcation, [&a] / &a, [!a=b] / [a!=b], regex delimiter) and the explicit
   well-formedness [wf] (what the notation cannot express) and [wfc] (what
   str() cannot re-express).  [parse] is the model of YAMLPath._parse_path
   (Model/PathParser.v, tied to the code by the C14 and C08 correspondence
   runs); [stringify], [y_eq], [y_append], [y_pop] model the printer and the
   YAMLPath object (Model/PathPrinter.v).

   STATUS
     C08_parse_render_partial       proved for every segment kind except SEARCH
                                    (guard [not_search]); the element-index guard
                                    [idx_guard] is the computable statement that
                                    int(str(n)) = n for the index n.
     C08_parse_render_auto_partial  the same with separator inference.
     C08_*_ok                       side conditions over the regenerated tables.
     C08_parse_render_F21_refuted   finding F21 (quote-wrapped search term).
     C08_eq_iff_F23_refuted         finding F23 (__eq__ and an escaped dot).
     C08_canonical / C08_fixpoint / C08_eq_iff / C08_append_pop
                                    stated below as propositions (Definition ... : Prop),
                                    NOT proved; instances are checked by computation in
                                    the Examples and on every generated case by
                                    harness/c08.py (judge). *)
From Coq Require Import List Ascii String ZArith Bool.
From YP Require Import Outcome PyStr Generated PathParser PathPrinter C08Spec RtStep RtSeg RtRender RtTables.
Import ListNotations.
Open Scope string_scope.

(* ---- clause 1: writing then parsing gives back the segments ---- *)
Theorem C08_parse_render_partial :
  forall (sp : sep) (l : list sseg),
    wf sp l = true -> forallb idx_guard l = true -> forallb not_search l = true ->
    parse (Forced sp) true (render_ref sp l) = Ok (segs_of l).
Proof. exact parse_render_nosearch. Qed.
Print Assumptions C08_parse_render_partial.

Theorem C08_parse_render_auto_partial :
  forall (sp : sep) (l : list sseg),
    wf sp l = true -> forallb idx_guard l = true -> forallb not_search l = true ->
    (sp = Dot -> first_not_in ["/"%char] (render_ref sp l) = true) ->
    parse Auto true (render_ref sp l) = Ok (segs_of l).
Proof. exact parse_render_nosearch_auto. Qed.
Print Assumptions C08_parse_render_auto_partial.

(* the full statement (every kind, no index guard) *)
Definition C08_parse_render_statement : Prop :=
  forall (sp : sep) (l : list sseg),
    wf sp l = true -> parse (Forced sp) true (render_ref sp l) = Ok (segs_of l).

(* ---- side conditions over the tables regenerated from the Python source ---- *)
Theorem C08_section_syms_ok : section_syms_ok = true.
Proof. exact section_syms_ok_true. Qed.
Theorem C08_key_syms_ok : key_syms_ok = true.
Proof. exact key_syms_ok_true. Qed.
Theorem C08_spellings_ok : spellings_ok = true.
Proof. exact spellings_ok_true. Qed.
Theorem C08_key_specials_cover :
  forall (sp : sep) (c : ascii),
    mem_ascii c (key_specials (sep_char sp)) = false -> top_plain (sep_char sp) c = true.
Proof. exact key_specials_cover. Qed.

(* ---- clauses 2-4, stated (not proved) ---- *)
Definition canon (sp' : sep) (text : string) : outcome string :=
  do u <- parse Auto false text; Ok (stringify (Some sp') u).

Definition C08_canonical_statement : Prop :=
  forall (sp sp' : sep) (l : list sseg) (c : string),
    wfc sp l = true -> (sp = Dot -> first_not_in ["/"%char] (render_ref sp l) = true) ->
    canon sp' (render_ref sp l) = Ok c ->
    parse (Forced sp') true c = Ok (segs_of l).

Definition C08_fixpoint_statement : Prop :=
  forall (sp sp' : sep) (l : list sseg) (c : string),
    wfc sp l = true -> (sp = Dot -> first_not_in ["/"%char] (render_ref sp l) = true) ->
    canon sp' (render_ref sp l) = Ok c ->
    path_str (Forced sp') c = Ok c.

Definition C08_eq_iff_statement : Prop :=
  forall (sp1 sp2 : sep) (l1 l2 : list sseg),
    wfc sp1 l1 = true -> wfc sp2 l2 = true ->
    forallb no_dot_key l1 = true -> forallb no_dot_key l2 = true ->      (* F23 *)
    (sp1 = Dot -> first_not_in ["/"%char] (render_ref sp1 l1) = true) ->
    (sp2 = Dot -> first_not_in ["/"%char] (render_ref sp2 l2) = true) ->
    exists b, y_eq (y_new (render_ref sp1 l1)) (render_ref sp2 l2) = Ok b
              /\ (b = true <-> segs_of l1 = segs_of l2).

Definition C08_append_pop_statement : Prop :=
  forall (sp : sep) (l : list sseg) (x : sseg),
    l <> [] -> wfc sp l = true -> wfc sp (l ++ [x]) = true ->
    (sp = Dot -> first_not_in ["/"%char] (render_ref sp l) = true) ->
    let p := y_append (body (sep_char sp) x) (y_new (render_ref sp l)) in
    exists sg p', y_pop p = (Ok sg, p') /\ fst (y_escaped p') = Ok (segs_of l).

(* ---- non-vacuity: keys with every escapable character are well-formed, and
   every segment kind occurs ---- *)
Definition every_escapable : string := "a\b.c/d(e)f[g]h^i$j%k l'm""n".

Example C08_wf_nonvacuous_key_dot :
  wf Dot [((Some TKey, AStr every_escapable), plain_style)] = true
  /\ wfc Slash [((Some TKey, AStr every_escapable), plain_style)] = true.
Proof. vm_compute. split; reflexivity. Qed.

Example C08_wf_nonvacuous_quoted_key :
  wf Slash [((Some TKey, AStr "x"), plain_style);
            ((Some TKey, AStr every_escapable), mkstyle (Some DQ) false false "/"%char)] = true.
Proof. vm_compute. reflexivity. Qed.

Definition sample_path : list sseg :=
  [ ((Some TKey, AStr "hash"), plain_style);
    ((Some TKey, AStr "dotted.child key"), plain_style);
    ((Some TIndex, AInt (-12)%Z), plain_style);
    ((Some TIndex, AStr "1:2"), plain_style);
    ((Some TAnchor, AStr "anchor_1"), mkstyle None true false "/"%char);
    ((Some TMatchAll, ANone), plain_style);
    ((Some TTraverse, ANone), plain_style);
    ((Some TKeywordSearch, AKeyword true KHasChild "a b,c"), plain_style);
    ((Some TCollector, ACollector CNone "(a.b)+(c)"), plain_style);
    ((Some TCollector, ACollector CSub "x/y"), plain_style);
    ((Some TKey, AStr "'quoted' [key]"), mkstyle (Some SQ) false false "/"%char) ].

Example C08_parse_render_nonvacuous :
  wf Dot sample_path = true /\ wf Slash sample_path = true
  /\ forallb idx_guard sample_path = true /\ forallb not_search sample_path = true
  /\ render_ref Dot sample_path
     = "hash.dotted\.child\ key[-12][1:2][&anchor_1].*.**[!has_child(a\ b,c)]((a.b)+(c))-(x/y).'\'quoted\' \[key\]'".
Proof. vm_compute. repeat split; reflexivity. Qed.

(* SEARCH segments: the statement holds on these instances (a test, by
   computation; the general proof is the missing fragment) *)
Definition sample_searches : list sseg :=
  [ ((Some TKey, AStr "x"), plain_style);
    ((Some TSearch, ASearch true MEquals "full name" "Some User's Name"), mkstyle (Some DQ) false false "/"%char);
    ((Some TSearch, ASearch true MGe "lvl" "5 %"), mkstyle None false true "/"%char);
    ((Some TSearch, ASearch false MRegex "." "^a/b|c$"), mkstyle None false false "#"%char);
    ((Some TSearch, ASearch false MStartsWith "enc" "ENC["), plain_style) ].

Example C08_parse_render_search_instances :
  wf Dot sample_searches = true
  /\ parse (Forced Dot) true (render_ref Dot sample_searches) = Ok (segs_of sample_searches)
  /\ parse (Forced Slash) true (render_ref Slash sample_searches) = Ok (segs_of sample_searches).
Proof. vm_compute. repeat split; reflexivity. Qed.

(* clauses 2-4 on instances (tests, by computation) *)
Example C08_canonical_instances :
  wfc Dot (sample_path ++ sample_searches) = true
  /\ (do c <- canon Slash (render_ref Dot sample_path); parse (Forced Slash) true c) = Ok (segs_of sample_path)
  /\ (do c <- canon Dot (render_ref Slash sample_searches); parse (Forced Dot) true c) = Ok (segs_of sample_searches)
  /\ (do c <- canon Slash (render_ref Dot sample_searches); path_str (Forced Slash) c)
     = canon Slash (render_ref Dot sample_searches).
Proof. vm_compute. repeat split; reflexivity. Qed.

Example C08_eq_instances :
  y_eq (y_new (render_ref Dot sample_searches)) (render_ref Slash sample_searches) = Ok true
  /\ y_eq (y_new "a.b[0]") "/a/b/0" = Ok false.
Proof. vm_compute. split; reflexivity. Qed.

Example C08_append_pop_instances :
  (let p := y_append "'a b'" (y_new "x.y") in (fst (y_pop p), y_orig (snd (y_pop p))))
  = (Ok (Some TKey, AStr "a b"), "x.y")
  /\ (let p := y_append "\/" (y_new "/x/\/") in y_orig (snd (y_pop p))) = "/x/\/".
Proof. vm_compute. split; reflexivity. Qed.

(* ---- findings ---- *)
(* F21: a search term that is one quote character, written with the documented
   back-slash escape, is undemarcated to nothing. *)
Theorem C08_parse_render_F21_refuted :
  exists (sp : sep) (l : list sseg),
    l = [((Some TSearch, ASearch false MEquals "a" "'"), plain_style)]
    /\ render_ref sp l = "[a=\']"
    /\ parse (Forced sp) true (render_ref sp l) = Ok [(Some TSearch, ASearch false MEquals "a" "")]
    /\ parse (Forced sp) true (render_ref sp l) <> Ok (segs_of l).
Proof. exact F21_witness. Qed.

(* F23: two paths with the same segments (the single key "a.b") that are not ==. *)
Theorem C08_eq_iff_F23_refuted :
  exists (l : list sseg),
    wfc Dot l = true /\ wfc Slash l = true
    /\ parse Auto true (render_ref Dot l) = parse Auto true (render_ref Slash l)
    /\ y_eq (y_new (render_ref Dot l)) (render_ref Slash l) = Ok false.
Proof. exact F23_witness. Qed.
