(* C08 -- placeholder while the proofs are being built; see below. *)
From Coq Require Import List Ascii String ZArith.
From YP Require Import Outcome PyStr Generated PathParser PathPrinter C08Spec.
Import ListNotations.
Open Scope string_scope.

Example C08_render_example :
  render_ref Dot [((Some TKey, AStr "a.b"), plain_style); ((Some TIndex, AInt (-3)%Z), plain_style)] = "a\.b[-3]".
Proof. vm_compute. reflexivity. Qed.
