(* C02 -- Every result locates its node.
   Statements only; proofs live in Proofs/EvalLocate.v.

   Proved here, for every document, context and key: the coordinates built by
   the key handler on a hash and by the wildcard handler satisfy
   "indexing the parent by the reference gives the very node returned", and
   the ancestry of each result is the context's ancestry extended by exactly
   that (parent, reference) link.  The remaining handlers build their
   coordinates with the same expressions (Model/Eval.v) and are covered on every
   run by the differential check, which compares parent identity, parentref,
   the reported path (as parsed segments) and the whole ancestry of every
   result with the model's, and by the judge of harness/c02.py on the real
   objects (index the real parent, walk the real ancestry, re-query the
   reported path in both notations).  What is not proved is listed in
   docs/C02.md. *)
From Coq Require Import List Ascii String ZArith NArith Bool.
From YP Require Import Outcome PyStr PyVal Doc Generated PathParser PathPrinter Searches Eval SpecC01 EvalSem EvalLocate
  EvalSemPath EvalLocAll.
Import ListNotations.
Open Scope string_scope.

Theorem C02_key_on_hash_located :
  forall self k i kvs c,
    Forall (located (RNode (NMap i kvs)) (x_anc c)) (fst (by_key self (AStr k) (RNode (NMap i kvs)) c)).
Proof. exact by_key_map_located. Qed.
Print Assumptions C02_key_on_hash_located.

(* the wildcard on a hash: every result names the hash as its parent and extends the context's ancestry by
   one link from that parent *)
Theorem C02_wildcard_on_hash_located :
  forall i kvs c,
    Forall (fun x => match x with
                     | RCoords _ (Some p) _ _ a =>
                         p = RNode (NMap i kvs) /\ exists rf, a = (x_anc c ++ [(p, rf)])%list
                     | _ => False
                     end)
           (fst (match_all_unfiltered (RNode (NMap i kvs)) c)).
Proof. exact match_all_map_located. Qed.
Print Assumptions C02_wildcard_on_hash_located.

(* Non-vacuity and the three repaired defects (#12, #20, set members) on the model of the repaired code:
   x.a over {x: [{a: 1}]} -- the ancestry is [(root,'x'); (seq,0); (map,'a')] *)
Definition inf3 (n : N) : info := mkinfo n None false None.
Definition leaf3 (n : N) (v : pyval) : node := NLeaf (inf3 n) v.
Definition doc_x : node :=
  NMap (inf3 0) [(leaf3 1 (PStr "x"), NSeq (inf3 2) [NMap (inf3 3) [(leaf3 4 (PStr "a"), leaf3 5 (PInt 1))]])].
Definition anc_refs (g : gen rval) : list (list (N * pyval)) :=
  map (fun x => match x with
                | RCoords _ _ _ _ anc => map (fun pr => (match fst pr with RNode n => node_oid n | _ => 999%N end, snd pr)) anc
                | _ => []
                end) (fst g).
Definition lit3 (s : string) : outcome litres := Ok LFail.
Definition re3 (_ _ : string) : outcome reres := Ok (RMatch false).
Definition kw3 (_ : bool) (_ : keyword) (_ : string) (_ : rval) (_ : ctx) : gen rval := gnil.
Definition cr3 (_ : list pseg) (_ : nat) (_ : rval) (_ : ctx) : gen rval := gnil.

Example C02_passthrough_ancestry :
  match prepare 10 "x.a" with
  | Ok p => anc_refs (get_required lit3 re3 (fun _ => "") (fun _ => "") kw3 cr3 p doc_x)
            = [[(0%N, PStr "x"); (2%N, PInt 0); (3%N, PStr "a")]]
  | _ => False
  end.
Proof. vm_compute. reflexivity. Qed.

Example C02_traversal_ancestry :
  match prepare 10 "**" with
  | Ok p => anc_refs (get_required lit3 re3 (fun _ => "") (fun _ => "") kw3 cr3 p doc_x)
            = [[(0%N, PStr "x"); (2%N, PInt 0); (3%N, PStr "a")]]
  | _ => False
  end.
Proof. vm_compute. reflexivity. Qed.


(* ======================================================================== *)
(* ALL HANDLERS of the C01 fragment (key incl. pass-through, index, hash / set
   slices, anchor, search with its five candidate loops, `*` and `**` with and
   without a following segment): every real result of the required query, for
   every document, every path of the fragment in which slices (whose array form
   yields a virtual result) stand last, every oracle.
   [child_rel p r m]: indexing the parent p by the reference r gives m -- a hash
   pair whose key is (equal to) r and whose value is m, the element at position
   r counted from the front or, negative, from the end, a member of the set.
   [walks d anc m]: the ancestry chain starts at the root d, every link is such
   a child step, and it ends at m. *)
Theorem C02_parentref :
  forall lit re_search nstr vstr kw_handler creator segs d m par r path anc,
    c01_frag (PPath segs) = true -> slices_last segs = true ->
    In (RCoords (RNode m) (Some par) (Some r) path anc)
       (fst (get_required lit re_search nstr vstr kw_handler creator (PPath segs) d)) ->
    exists p, par = RNode p /\ child_rel p r m.
Proof. exact required_parentref. Qed.
Print Assumptions C02_parentref.

Theorem C02_ancestry :
  forall lit re_search nstr vstr kw_handler creator segs d m par rf path anc,
    c01_frag (PPath segs) = true -> slices_last segs = true ->
    In (RCoords (RNode m) par rf path anc)
       (fst (get_required lit re_search nstr vstr kw_handler creator (PPath segs) d)) ->
    walks d anc m /\
    match par with
    | None => anc = [] /\ m = d
    | Some p => exists anc' r', anc = (anc' ++ [(p, r')])%list
    end.
Proof. exact required_ancestry. Qed.
Print Assumptions C02_ancestry.

(* every result is a NodeCoords around a document node (located) or around a
   virtual slice result *)
Theorem C02_results_located :
  forall lit re_search nstr vstr kw_handler creator d p segs,
    p = PPath segs -> c01_frag p = true -> slices_last segs = true ->
    Forall (res_loc true d) (fst (get_required lit re_search nstr vstr kw_handler creator p d)).
Proof. exact required_located. Qed.
Print Assumptions C02_results_located.

(* non-vacuity: paths of the fragment with real results on doc_x = {x: [{a: 1}]} *)
Definition c02_nv (text : string) (n : nat) : Prop :=
  match prepare 20 text with
  | Ok (PPath segs) =>
      c01_frag (PPath segs) = true /\ slices_last segs = true /\
      List.length (nodes_of (fst (get_required lit3 re3 (fun _ => "") (fun _ => "") kw3 cr3 (PPath segs) doc_x))) = n
  | _ => False
  end.
Example C02_all_handlers_nonvacuous :
  c02_nv "x.a" 1 /\ c02_nv "x[0].*" 1 /\ c02_nv "**[.=a]" 1 /\ c02_nv "x.*[a!=2]" 1 /\ c02_nv "x[-1][a:b]" 1.
Proof. vm_compute. repeat split. Qed.
