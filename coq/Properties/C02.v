(* C02 -- Every result locates its node.
   Statements only; proofs live in Proofs/EvalLocate.v.

   Proved here, for every document, context and key: the coordinates built by
   the key handler on a hash and by the wildcard handler satisfy
   "indexing the parent by the reference gives the very node returned", and
   the ancestry of each result is the context's ancestry extended by exactly
   that (parent, reference) link.  The remaining handlers build their
   coordinates with the same expressions (Model/Eval.v) and are covered on every
   run by the differential check, which compares parent identity, parentref,
   the reported path (as parsed segments) and the whole ancestry of every
   result with the model's, and by the judge of harness/c02.py on the real
   objects (index the real parent, walk the real ancestry, re-query the
   reported path in both notations).  What is not proved is listed in
   docs/C02.md. *)
From Coq Require Import List Ascii String ZArith NArith Bool.
From YP Require Import Outcome PyStr PyVal Doc Generated PathParser PathPrinter Searches Eval SpecC01 EvalSem EvalLocate
  EvalSemPath EvalLocAll.
Import ListNotations.
Open Scope string_scope.

Theorem C02_key_on_hash_located :
  forall self k i kvs c,
    Forall (located (RNode (NMap i kvs)) (x_anc c)) (fst (by_key self (AStr k) (RNode (NMap i kvs)) c)).
Proof. exact by_key_map_located. Qed.
Print Assumptions C02_key_on_hash_located.

(* the wildcard on a hash: every result names the hash as its parent and extends the context's ancestry by
   one link from that parent *)
Theorem C02_wildcard_on_hash_located :
  forall i kvs c,
    Forall (fun x => match x with
                     | RCoords _ (Some p) _ _ a =>
                         p = RNode (NMap i kvs) /\ exists rf, a = (x_anc c ++ [(p, rf)])%list
                     | _ => False
                     end)
           (fst (match_all_unfiltered (RNode (NMap i kvs)) c)).
Proof. exact match_all_map_located. Qed.
Print Assumptions C02_wildcard_on_hash_located.

(* Non-vacuity and the three repaired defects (#12, #20, set members) on the model of the repaired code:
   x.a over {x: [{a: 1}]} -- the ancestry is [(root,'x'); (seq,0); (map,'a')] *)
Definition inf3 (n : N) : info := mkinfo n None false None.
Definition leaf3 (n : N) (v : pyval) : node := NLeaf (inf3 n) v.
Definition doc_x : node :=
  NMap (inf3 0) [(leaf3 1 (PStr "x"), NSeq (inf3 2) [NMap (inf3 3) [(leaf3 4 (PStr "a"), leaf3 5 (PInt 1))]])].
Definition anc_refs (g : gen rval) : list (list (N * pyval)) :=
  map (fun x => match x with
                | RCoords _ _ _ _ anc => map (fun pr => (match fst pr with RNode n => node_oid n | _ => 999%N end, snd pr)) anc
                | _ => []
                end) (fst g).
Definition lit3 (s : string) : outcome litres := Ok LFail.
Definition re3 (_ _ : string) : outcome reres := Ok (RMatch false).
Definition kw3 (_ : bool) (_ : keyword) (_ : string) (_ : rval) (_ : ctx) : gen rval := gnil.
Definition cr3 (_ : list pseg) (_ : nat) (_ : rval) (_ : ctx) : gen rval := gnil.

Example C02_passthrough_ancestry :
  match prepare 10 "x.a" with
  | Ok p => anc_refs (get_required lit3 re3 (fun _ => "") (fun _ => "") kw3 cr3 p doc_x)
            = [[(0%N, PStr "x"); (2%N, PInt 0); (3%N, PStr "a")]]
  | _ => False
  end.
Proof. vm_compute. reflexivity. Qed.

Example C02_traversal_ancestry :
  match prepare 10 "**" with
  | Ok p => anc_refs (get_required lit3 re3 (fun _ => "") (fun _ => "") kw3 cr3 p doc_x)
            = [[(0%N, PStr "x"); (2%N, PInt 0); (3%N, PStr "a")]]
  | _ => False
  end.
Proof. vm_compute. reflexivity. Qed.


(* ======================================================================== *)
(* ALL HANDLERS of the C01 fragment (key incl. pass-through, index, hash / set
   slices, anchor, search with its five candidate loops, `*` and `**` with and
   without a following segment): every real result of the required query, for
   every document, every path of the fragment in which slices (whose array form
   yields a virtual result) stand last, every oracle.
   [child_rel p r m]: indexing the parent p by the reference r gives m -- a hash
   pair whose key is (equal to) r and whose value is m, the element at position
   r counted from the front or, negative, from the end, a member of the set.
   [walks d anc m]: the ancestry chain starts at the root d, every link is such
   a child step, and it ends at m. *)
Theorem C02_parentref :
  forall lit re_search nstr vstr kw_handler creator segs d m par r path anc,
    c01_frag (PPath segs) = true -> slices_last segs = true ->
    In (RCoords (RNode m) (Some par) (Some r) path anc)
       (fst (get_required lit re_search nstr vstr kw_handler creator (PPath segs) d)) ->
    exists p, par = RNode p /\ child_rel p r m.
Proof. exact required_parentref. Qed.
Print Assumptions C02_parentref.

Theorem C02_ancestry :
  forall lit re_search nstr vstr kw_handler creator segs d m par rf path anc,
    c01_frag (PPath segs) = true -> slices_last segs = true ->
    In (RCoords (RNode m) par rf path anc)
       (fst (get_required lit re_search nstr vstr kw_handler creator (PPath segs) d)) ->
    walks d anc m /\
    match par with
    | None => anc = [] /\ m = d
    | Some p => exists anc' r', anc = (anc' ++ [(p, r')])%list
    end.
Proof. exact required_ancestry. Qed.
Print Assumptions C02_ancestry.

(* every result is a NodeCoords around a document node (located) or around a
   virtual slice result *)
Theorem C02_results_located :
  forall lit re_search nstr vstr kw_handler creator d p segs,
    p = PPath segs -> c01_frag p = true -> slices_last segs = true ->
    Forall (res_loc true d) (fst (get_required lit re_search nstr vstr kw_handler creator p d)).
Proof. exact required_located. Qed.
Print Assumptions C02_results_located.

(* non-vacuity: paths of the fragment with real results on doc_x = {x: [{a: 1}]} *)
Definition c02_nv (text : string) (n : nat) : Prop :=
  match prepare 20 text with
  | Ok (PPath segs) =>
      c01_frag (PPath segs) = true /\ slices_last segs = true /\
      List.length (nodes_of (fst (get_required lit3 re3 (fun _ => "") (fun _ => "") kw3 cr3 (PPath segs) doc_x))) = n
  | _ => False
  end.
Example C02_all_handlers_nonvacuous :
  c02_nv "x.a" 1 /\ c02_nv "x[0].*" 1 /\ c02_nv "**[.=a]" 1 /\ c02_nv "x.*[a!=2]" 1 /\ c02_nv "x[-1][a:b]" 1.
Proof. vm_compute. repeat split. Qed.
(* ====================================================================== *)
(* The reported path, fed back into a query on the same document, resolves to
   exactly the node it was reported for (proofs: Proofs/ResolveWr.v ResolveText.v
   ResolveEval.v ResolveMain.v; vocabulary: Model/PathBuild.v).

   [build_path sp l]  the text str() shows for the path of location l in notation sp
                      (one escape_path_section(str(key), sep) per mapping key / set
                      member, "[i]" per sequence position);
   [build_orig l]     the `.original` text Processor builds by repeated `path + segment`;
   [pb_safe sp d l]   the explicit, computable guard: every key on the way is a string
                      that escape_path_section can protect ([safe_key]: not empty, no "*",
                      no leading "&", no back-slash directly before a back-slash / the
                      separator / ( [ ] blank or a quote) or an integer whose digits are not
                      also a string key of the same mapping; a set member is such a string;
                      in dot notation the first key does not start with "/" and is not
                      blank to str.strip(); the document is not null.  Findings F26
                      (C02) = F-C07-2 = F5 (C06) are exactly the complement: witnesses below.
   [pb_coords d l n]  the NodeCoords of the one result: node n, its parent and
                      reference (C02_result_located), the ancestry of the way, the
                      reported path build_orig l.
   All oracles / parameters of the evaluator are universally quantified. *)
From YP Require Import C08Spec RtCanon PathBuild ResolveWr ResolveText ResolveEval ResolveMain.

(* both notations; keys with every escapable character (example below) *)
Theorem C02_path_resolves_partial :
  forall lit re_search nstr vstr kw_handler creator (sp : sep) (d : node) (l : loc) (n : node) (f : nat),
    lookup d l = Some n -> pb_safe sp d l = true ->
    exists p, prepare (S f) (build_path sp l) = Ok p
              /\ get_required lit re_search nstr vstr kw_handler creator p d = ([pb_coords d l n], Done).
Proof. exact resolve_query. Qed.
Print Assumptions C02_path_resolves_partial.

(* the single result reports the append-form text of l; that text, fed back,
   yields the same single result again *)
Theorem C02_reported_path_resolves_partial :
  forall lit re_search nstr vstr kw_handler creator (d : node) (l : loc) (n : node) (f : nat),
    lookup d l = Some n -> pb_safe Dot d l = true ->
    match pb_coords d l n with RCoords _ _ _ path _ => path | _ => "" end = build_orig l
    /\ exists p, prepare (S f) (build_orig l) = Ok p
                 /\ get_required lit re_search nstr vstr kw_handler creator p d = ([pb_coords d l n], Done).
Proof. exact reported_path_loop. Qed.
Print Assumptions C02_reported_path_resolves_partial.

(* str() of the reported path after its separator was set to either notation
   (what harness/c02.py re-queries) resolves to the node as well *)
Theorem C02_reported_path_canonical_partial :
  forall lit re_search nstr vstr kw_handler creator (sp' : sep) (d : node) (l : loc) (n : node) (f : nat),
    lookup d l = Some n -> pb_safe Dot d l = true -> pb_safe sp' d l = true ->
    exists t p, canon sp' (build_orig l) = Ok t /\ prepare (S f) t = Ok p
                /\ get_required lit re_search nstr vstr kw_handler creator p d = ([pb_coords d l n], Done).
Proof. exact resolve_query_canon. Qed.
Print Assumptions C02_reported_path_canonical_partial.

(* in dot notation str() of the reported path is build_path *)
Theorem C02_str_of_reported_path_partial :
  forall (d : node) (l : loc), pb_safe Dot d l = true -> canon Dot (build_orig l) = Ok (build_path Dot l).
Proof. exact canon_orig_dot. Qed.
Print Assumptions C02_str_of_reported_path_partial.

(* the result's coordinates: parent[parentref] is the node, the ancestry ends
   with that link, the path is the reported text *)
Theorem C02_result_located :
  forall (d : node) (l0 : loc) (r : ref) (p n : node),
    lookup d l0 = Some p -> child p r = Some n ->
    exists path anc0,
      pb_coords d (l0 ++ [r])%list n
      = RCoords (RNode n) (Some (RNode p)) (Some (ref_val r)) path (anc0 ++ [(RNode p, ref_val r)])%list
      /\ path = build_orig (l0 ++ [r])%list.
Proof. exact pb_coords_located. Qed.
Print Assumptions C02_result_located.

(* every result of ANY query whose reported path is the text of its location:
   re-evaluating that path returns that node and no other *)
Theorem C02_any_result_resolves_partial :
  forall lit re_search nstr vstr kw_handler creator (d : node) (l : loc) (n : node) (f : nat)
         (x : rval) par rf path anc,
    x = RCoords (RNode n) par rf path anc -> path = build_orig l ->
    lookup d l = Some n -> pb_safe Dot d l = true ->
    exists p, prepare (S f) path = Ok p
              /\ get_required lit re_search nstr vstr kw_handler creator p d = ([pb_coords d l n], Done).
Proof. exact any_result_resolves. Qed.
Print Assumptions C02_any_result_resolves_partial.

(* escape_path_section writes a key in the form [wr]: a back-slash doubled, a
   listed symbol back-slashed unless it follows a back-slash of the key *)
Theorem C02_escape_section_written :
  forall (sp : sep) (k : string),
    pb_no_bs_before ["\"%char] k = true -> escape_path_section k (sep_char sp) = wr (sec_set sp) false k.
Proof. exact escape_section_written. Qed.
Print Assumptions C02_escape_section_written.

(* ---- non-vacuity: a key containing EVERY escapable character (back-slash, dot,
   slash, parentheses, brackets, caret, dollar, percent, blank, both quotes),
   nested sequences, an integer key, a set ---- *)
Definition esc_key : string := "a\b.c/d(e)f[g]h^i$j%k l'm""n".
Definition doc_esc : node :=
  NMap (inf3 0)
    [ (leaf3 1 (PStr esc_key),
       NSeq (inf3 2) [ leaf3 3 (PInt 0);
                       NSeq (inf3 4) [ NMap (inf3 5) [ (leaf3 6 (PStr "x y"), leaf3 7 (PStr "deep")) ;
                                                        (leaf3 8 (PInt 12), leaf3 9 (PStr "int key")) ] ] ]);
      (leaf3 10 (PStr "s"), NSet (inf3 11) [ leaf3 12 (PStr "m.1"); leaf3 13 (PStr "m/2") ]) ].
Definition loc_deep : loc := [RKey (PStr esc_key); RIdx 1; RIdx 0; RKey (PStr "x y")].
Definition loc_int : loc := [RKey (PStr esc_key); RIdx 1; RIdx 0; RKey (PInt 12)].
Definition loc_member : loc := [RKey (PStr "s"); RMember (PStr "m/2")].

Example C02_safe_key_every_escapable :
  safe_key "."%char esc_key = true /\ safe_key "/"%char esc_key = true
  /\ safe_key "."%char "a\)b\^c\$d\%e\" = true.
Proof. vm_compute. repeat split; reflexivity. Qed.

Example C02_path_resolves_nonvacuous :
  pb_safe Dot doc_esc loc_deep = true /\ pb_safe Slash doc_esc loc_deep = true
  /\ pb_safe Dot doc_esc loc_int = true /\ pb_safe Slash doc_esc loc_member = true
  /\ lookup doc_esc loc_deep = Some (leaf3 7 (PStr "deep"))
  /\ build_path Dot loc_deep = "a\\b\.c/d\(e\)f\[g\]h\^i\$j\%k\ l\'m\""n[1][0].x\ y"
  /\ build_path Slash loc_deep = "/a\\b.c\/d\(e\)f\[g\]h\^i\$j\%k\ l\'m\""n[1][0]/x\ y"
  /\ build_orig loc_deep = "a\\b\.c/d\(e\)f\[g\]h\^i\$j\%k\ l\'m\""n.[1].[0].x\ y"
  /\ build_path Slash loc_member = "/s/m\/2".
Proof. vm_compute. repeat split; reflexivity. Qed.

(* the theorem's conclusion computed on the instance (a test, not the proof) *)
Example C02_path_resolves_instance :
  match prepare 1 (build_path Slash loc_deep) with
  | Ok p => get_required lit3 re3 (fun _ => "") (fun _ => "") kw3 cr3 p doc_esc
            = ([pb_coords doc_esc loc_deep (leaf3 7 (PStr "deep"))], Done)
  | _ => False
  end
  /\ match prepare 1 (build_path Dot loc_int) with
     | Ok p => map (fun x => match x with RCoords (RNode n) _ _ _ _ => node_oid n | _ => 999%N end)
                   (fst (get_required lit3 re3 (fun _ => "") (fun _ => "") kw3 cr3 p doc_esc)) = [9%N]
     | _ => False
     end.
Proof. vm_compute. split; reflexivity. Qed.

(* ---- the guard is needed: findings F26 (each clause of [safe_key] / [pb_safe]) ---- *)
Definition oids_of (g : gen rval) : list N :=
  map (fun x => match x with RCoords (RNode n) _ _ _ _ => node_oid n | _ => 999%N end) (fst g).
Definition requery (sp : sep) (d : node) (l : loc) : option (list N) :=
  match prepare 1 (build_path sp l) with
  | Ok p => Some (oids_of (get_required lit3 re3 (fun _ => "") (fun _ => "") kw3 cr3 p d))
  | _ => None
  end.
Definition doc_odd : node :=
  NMap (inf3 0)
    [ (leaf3 1 (PStr "*"), leaf3 2 (PInt 1)); (leaf3 3 (PStr "b"), leaf3 4 (PInt 2));
      (leaf3 5 (PStr "&d"), leaf3 6 (PInt 3)); (leaf3 7 (PStr "/lead"), leaf3 8 (PInt 4));
      (leaf3 9 (PStr "a\.b"), leaf3 10 (PInt 5)); (leaf3 11 (PStr ""), leaf3 12 (PInt 6));
      (leaf3 13 (PStr "1"), leaf3 14 (PInt 7)); (leaf3 15 (PInt 1), leaf3 16 (PInt 8));
      (leaf3 17 (PStr "c\\d"), leaf3 18 (PInt 9)) ].

Theorem C02_path_resolves_refuted :
  (* "*" is re-read as a wildcard: every value of the mapping is returned *)
  (lookup doc_odd [RKey (PStr "*")] = Some (leaf3 2 (PInt 1))
   /\ pb_safe Dot doc_odd [RKey (PStr "*")] = false
   /\ requery Dot doc_odd [RKey (PStr "*")] = Some [2; 4; 6; 8; 10; 12; 14; 16; 18]%N)
  (* "&d" is re-read as an anchor name, "/lead" as forward-slash notation, the
     empty key as no segment (the root), "a\.b" as two keys, "c\\d" as "c\d" *)
  /\ (pb_safe Dot doc_odd [RKey (PStr "&d")] = false /\ requery Dot doc_odd [RKey (PStr "&d")] = Some [])
  /\ (pb_safe Dot doc_odd [RKey (PStr "/lead")] = false /\ requery Dot doc_odd [RKey (PStr "/lead")] = Some []
      /\ pb_safe Slash doc_odd [RKey (PStr "/lead")] = true /\ requery Slash doc_odd [RKey (PStr "/lead")] = Some [8%N])
  /\ (pb_safe Dot doc_odd [RKey (PStr "")] = false /\ requery Dot doc_odd [RKey (PStr "")] = Some [0%N])
  /\ (pb_safe Dot doc_odd [RKey (PStr "a\.b")] = false /\ requery Dot doc_odd [RKey (PStr "a\.b")] = Some []
      /\ pb_safe Slash doc_odd [RKey (PStr "a\.b")] = true /\ requery Slash doc_odd [RKey (PStr "a\.b")] = Some [10%N])
  /\ (pb_safe Dot doc_odd [RKey (PStr "c\\d")] = false /\ requery Dot doc_odd [RKey (PStr "c\\d")] = Some [])
  (* the integer key 1 next to the string key "1": the text "1" finds the string key *)
  /\ (lookup doc_odd [RKey (PInt 1)] = Some (leaf3 16 (PInt 8))
      /\ pb_safe Dot doc_odd [RKey (PInt 1)] = false /\ requery Dot doc_odd [RKey (PInt 1)] = Some [14%N]).
Proof. vm_compute. repeat split; reflexivity. Qed.

(* ====================================================================== *)
(* EVERY HANDLER'S REPORTED PATH IS THE BUILT PATH (proofs: Proofs/EvalPathAt.v,
   EvalPathResolve.v, EvalLocChild.v; vocabulary: Spec/SpecC02.v).

   [anc_loc anc]       the location of a result, read off its ancestry (a mapping
                       parent gives RKey, a sequence parent RIdx - an index counted
                       from the end normalised -, a set parent RMember);
   [c02_doc_ok d]      in every mapping of d the keys are scalars, pairwise unequal
                       under Python ==, in every set the members likewise: true of
                       every loaded document, not enforced by the document type;
   [c02_path_plain]    the guard on the QUERY, exactly the situations in which a
                       handler reports something else than the text of the location
                       (witnesses: C02_reported_path_is_built_refuted): an [&anchor]
                       segment (reported by anchor name, finding F27), an index
                       counted from the end (reported as written: [-1]), an
                       integer-looking key not written the way str(int) writes it
                       ("01": the int() fallback finds the key 1, "01" is reported).

   For every document, every path of the C01 fragment with slices last (key incl.
   Array-of-Hashes pass-through, index, hash / set slices, all five search loops,
   `*`, `**`, each with and without a following segment), every oracle, every real
   result: the reported path is build_orig of the result's location, the location
   holds the result's node, and the whole NodeCoords is the one the straight walk
   to that location produces (pb_coords: parent, parentref, path, ancestry). *)
From YP Require Import SpecC02 EvalPathAt EvalPathResolve EvalLocChild.

Theorem C02_reported_path_is_built_partial :
  forall lit re_search nstr vstr kw_handler creator segs d m par rf path anc,
    c02_doc_ok d = true ->
    c01_frag (PPath segs) = true -> slices_last segs = true -> c02_path_plain segs = true ->
    In (RCoords (RNode m) par rf path anc)
       (fst (get_required lit re_search nstr vstr kw_handler creator (PPath segs) d)) ->
    lookup d (anc_loc anc) = Some m
    /\ path = build_orig (anc_loc anc)
    /\ RCoords (RNode m) par rf path anc = pb_coords d (anc_loc anc) m.
Proof. exact reported_path_is_built. Qed.
Print Assumptions C02_reported_path_is_built_partial.

(* THE PATH CLAUSE OF THE PROPERTY FOR ALL RESULTS: re-evaluating the reported
   path of any real result yields exactly that result - its node and no other,
   with the same coordinates - under the guard pb_safe of its location (finding
   F26 is the complement) and the two guards above. *)
Theorem C02_every_reported_path_resolves_partial :
  forall lit re_search nstr vstr kw_handler creator segs d m par rf path anc f,
    c02_doc_ok d = true ->
    c01_frag (PPath segs) = true -> slices_last segs = true -> c02_path_plain segs = true ->
    In (RCoords (RNode m) par rf path anc)
       (fst (get_required lit re_search nstr vstr kw_handler creator (PPath segs) d)) ->
    pb_safe Dot d (anc_loc anc) = true ->
    exists p, prepare (S f) path = Ok p
              /\ get_required lit re_search nstr vstr kw_handler creator p d
                 = ([RCoords (RNode m) par rf path anc], Done).
Proof. exact every_reported_path_resolves. Qed.
Print Assumptions C02_every_reported_path_resolves_partial.

(* ... and in either notation: str() of the reported path after its separator was set *)
Theorem C02_every_reported_path_resolves_canonical_partial :
  forall lit re_search nstr vstr kw_handler creator segs d m par rf path anc (sp' : sep) f,
    c02_doc_ok d = true ->
    c01_frag (PPath segs) = true -> slices_last segs = true -> c02_path_plain segs = true ->
    In (RCoords (RNode m) par rf path anc)
       (fst (get_required lit re_search nstr vstr kw_handler creator (PPath segs) d)) ->
    pb_safe Dot d (anc_loc anc) = true -> pb_safe sp' d (anc_loc anc) = true ->
    exists t p, canon sp' path = Ok t /\ prepare (S f) t = Ok p
                /\ get_required lit re_search nstr vstr kw_handler creator p d
                   = ([RCoords (RNode m) par rf path anc], Done).
Proof. exact every_reported_path_resolves_canon. Qed.
Print Assumptions C02_every_reported_path_resolves_canonical_partial.

(* "indexing the parent by the reference gives the very node returned (for a set
   member: the parent set contains it)" in the Doc.child form: the corollary of
   C02_parentref for mappings whose keys are pairwise unequal.  No guard on the
   query: anchors and indexes counted from the end are inside. *)
Theorem C02_parentref_child :
  forall lit re_search nstr vstr kw_handler creator segs d m par r path anc,
    c02_doc_ok d = true ->
    c01_frag (PPath segs) = true -> slices_last segs = true ->
    In (RCoords (RNode m) (Some par) (Some r) path anc)
       (fst (get_required lit re_search nstr vstr kw_handler creator (PPath segs) d)) ->
    exists p, par = RNode p /\
      match p with
      | NSet _ els => In m els
      | _ => child p (anc_ref (par, r)) = Some m
      end.
Proof. exact required_parentref_child. Qed.
Print Assumptions C02_parentref_child.

(* under the guard of the path theorem the set member is found by its reference as well *)
Theorem C02_parentref_child_plain_partial :
  forall lit re_search nstr vstr kw_handler creator segs d m par r path anc,
    c02_doc_ok d = true ->
    c01_frag (PPath segs) = true -> slices_last segs = true -> c02_path_plain segs = true ->
    In (RCoords (RNode m) (Some par) (Some r) path anc)
       (fst (get_required lit re_search nstr vstr kw_handler creator (PPath segs) d)) ->
    exists p, par = RNode p /\ child p (anc_ref (par, r)) = Some m.
Proof. exact required_parentref_child_plain. Qed.
Print Assumptions C02_parentref_child_plain_partial.

(* ---- non-vacuity: every handler, on the document with every escapable character ---- *)
(* per result: (identity, reported path, is the reported path the built one and does the location hold the node,
   pb_safe Dot of the location) *)
Definition rp_rows (text : string) (d : node) : option (bool * list (N * string * bool * bool)) :=
  match prepare 20 text with
  | Ok (PPath segs) =>
      Some (c01_frag (PPath segs) && slices_last segs && c02_path_plain segs && c02_doc_ok d,
            map (fun x => match x with
                          | RCoords (RNode m) _ _ path anc =>
                              (node_oid m, path,
                               String.eqb path (build_orig (anc_loc anc))
                               && match lookup d (anc_loc anc) with Some m' => N.eqb (node_oid m') (node_oid m) | None => false end,
                               pb_safe Dot d (anc_loc anc))
                          | _ => (999%N, "", false, false)
                          end)
                (fst (get_required lit3 re3 (fun _ => "") (fun _ => "") kw3 cr3 (PPath segs) d)))
  | _ => None
  end.
Definition rp_all_built (text : string) (d : node) (n : nat) : bool :=
  match rp_rows text d with
  | Some (true, rows) => Nat.eqb (List.length rows) n && forallb (fun r => snd (fst r) && snd r) rows
  | _ => false
  end.

Example C02_every_handler_nonvacuous :
  (* `**` (all leaves incl. set members), `*`, wildcard + filter, traversal + filter, search on `.` over keys,
     hash slice, key + indexes, pass-through `x.a` of doc_x, set search, set slice *)
  rp_all_built "**" doc_esc 5 = true /\ rp_all_built "*" doc_esc 2 = true
  /\ rp_all_built "*[.=m.1]" doc_esc 1 = true /\ rp_all_built "**[.=deep]" doc_esc 1 = true
  /\ rp_all_built "[.^a]" doc_esc 1 = true /\ rp_all_built "[a:z]" doc_esc 2 = true
  /\ rp_all_built "s[.$2]" doc_esc 1 = true /\ rp_all_built "s[m:n]" doc_esc 2 = true
  /\ rp_all_built "x.a" doc_x 1 = true /\ rp_all_built "x[0].*" doc_x 1 = true /\ rp_all_built "x.*[a!=2]" doc_x 1 = true
  /\ rp_rows "**[.=deep]" doc_esc
     = Some (true, [(7%N, "a\\b\.c/d\(e\)f\[g\]h\^i\$j\%k\ l\'m\""n.[1].[0].x\ y", true, true)]).
Proof. vm_compute. repeat split; reflexivity. Qed.

(* ---- the guards are needed: what the handlers report instead ---- *)
(* {a: &k 1, b: [7, 8, 9], 1: x} *)
Definition doc_rp : node :=
  NMap (inf3 0) [ (leaf3 1 (PStr "a"), NLeaf (mkinfo 2 (Some "k") true None) (PInt 1));
                  (leaf3 3 (PStr "b"), NSeq (inf3 4) [leaf3 5 (PInt 7); leaf3 6 (PInt 8); leaf3 7 (PInt 9)]);
                  (leaf3 8 (PInt 1), leaf3 9 (PStr "x")) ].
(* {a: 1, a: 2}: no loaded document (equal keys) *)
Definition doc_dupkey : node :=
  NMap (inf3 0) [ (leaf3 1 (PStr "a"), leaf3 2 (PInt 1)); (leaf3 3 (PStr "a"), leaf3 4 (PInt 2)) ].

Theorem C02_reported_path_is_built_refuted :
  (* an index counted from the end: reported as written, the location is [2]; everything else of the guard holds
     and the location holds the node *)
  rp_rows "b[-1]" doc_rp = Some (false, [(7%N, "b.[-1]", false, true)])
  /\ build_orig [RKey (PStr "b"); RIdx 2] = "b.[2]"
  /\ rp_rows "b.-1" doc_rp = Some (false, [(7%N, "b.[-1]", false, true)])
  (* an anchor segment: reported by anchor name (F27) *)
  /\ rp_rows "&k" doc_rp = Some (false, [(2%N, "[&k]", false, true)])
  (* an integer-looking key not spelled like str(int): int("01") = 1 finds the key 1, "01" is reported *)
  /\ rp_rows "01" doc_rp = Some (false, [(9%N, "01", false, true)])
  /\ build_orig [RKey (PInt 1)] = "1"
  (* ... while the plain spellings are inside the theorem *)
  /\ rp_all_built "b[2]" doc_rp 1 = true /\ rp_all_built "b.2" doc_rp 1 = true
  /\ rp_all_built "a" doc_rp 1 = true /\ rp_all_built "1" doc_rp 1 = true
  (* equal keys in one mapping (no loaded document): the location of the second value holds the first *)
  /\ c02_doc_ok doc_dupkey = false
  /\ rp_rows "*" doc_dupkey = Some (false, [(2%N, "a", true, true); (4%N, "a", false, true)]).
Proof. vm_compute. repeat split; reflexivity. Qed.

(* the Doc.child form on results reached by an index counted from the end and by an anchor *)
Definition child_rows (text : string) (d : node) : list (N * option N) :=
  match prepare 20 text with
  | Ok p => map (fun x => match x with
                          | RCoords (RNode m) (Some (RNode p)) (Some r) _ _ =>
                              (node_oid m, option_map node_oid (child p (anc_ref (RNode p, r))))
                          | _ => (999%N, None)
                          end)
                (fst (get_required lit3 re3 (fun _ => "") (fun _ => "") kw3 cr3 p d))
  | _ => []
  end.
Example C02_parentref_child_nonvacuous :
  c02_doc_ok doc_rp = true /\ c02_doc_ok doc_esc = true
  /\ child_rows "b[-1]" doc_rp = [(7%N, Some 7%N)] /\ child_rows "&k" doc_rp = [(2%N, Some 2%N)]
  /\ child_rows "*" doc_rp = [(2%N, Some 2%N); (4%N, Some 4%N); (9%N, Some 9%N)]
  /\ child_rows "s.*" doc_esc = [(12%N, Some 12%N); (13%N, Some 13%N)].
Proof. vm_compute. repeat split; reflexivity. Qed.

(* Every remaining statement of this file, so that none is left unaudited. *)
Print Assumptions C02_path_resolves_refuted.
Print Assumptions C02_reported_path_is_built_refuted.
