(* C09 (creation half) - creation adds exactly the missing path.  Statements
   only; proofs in Proofs/C09createP.v.

   Model: Create.walk / grow / pads / build_next / wrap_type = the construction
   branch of Processor._get_optional_nodes with Nodes.build_next_node,
   append_list_element and wrap_type; Create.create_set adds set_value's
   _apply_change (Mutate.update_node, see C03). *)
From Coq Require Import List ZArith NArith Bool String.
From YP Require Import Outcome PyStr PyVal Doc Searches Mutate Create C09create C09createP.
Import ListNotations.
Open Scope string_scope.
Open Scope list_scope.

(* Wherever the path stops existing, the node found there only GAINS children:
   every child that existed before is still there, in place, unchanged (for
   every literal_eval oracle, value, remaining path). *)
Theorem C09_create_only_appends : forall lit segs cur pc next vo value g,
  grow lit segs cur pc next vo value = ROk g -> extends cur (fst (fst g)).
Proof. exact grow_extends. Qed.
Print Assumptions C09_create_only_appends.

(* Sequences are padded only up to the requested index. *)
Theorem C09_create_pads_exactly : forall lit s rest i els pc next vo value g z,
  (match s with SKey k _ => py_int k | SIdx z => Some z end) = Some z ->
  (Z.of_nat (List.length els) <= z)%Z ->
  grow lit (s :: rest) (NSeq i els) pc next vo value = ROk g ->
  children_count (fst (fst g)) = S (Z.to_nat z).
Proof. exact grow_pads_exactly. Qed.
Print Assumptions C09_create_pads_exactly.

(* A missing last key: one entry appended, holding the wrapped value, and the
   yielded coordinate is that entry. *)
Theorem C09_create_last_key : forall lit k ko i kvs pc next vo value g,
  grow lit [SKey k ko] (NMap i kvs) pc next vo value = ROk g ->
  exists w, wrap_type lit value next vo = ROk w /\
    fst (fst g) = NMap i (kvs ++ [(key_leaf k ko (N.succ next), w)]) /\
    snd (fst g) = mkpc (Some (oid i)) (PStr k).
Proof. exact grow_map_last_key. Qed.
Print Assumptions C09_create_last_key.

(* ---- concrete runs ---- *)
Definition pl (o : N) : info := mkinfo o None false None.
Definition ct (o : N) : info := mkinfo o None true None.
Definition sk (o : N) (s : string) : node := NLeaf (pl o) (PStr s).
Definition iv (o : N) (z : Z) : node := NLeaf (pl o) (PInt z).
Definition no_lit (s : string) : outcome litres := Ok LFail.
Definition no_fl (s : string) : outcome flres := Ok FFail.

(* {a: [1]} set a[3].x := v  ->  {a: [1, {}, {}, {x: v}]} *)
Definition docA : node := NMap (ct 0) [ (sk 1 "a", NSeq (ct 2) [iv 3 1]) ].
Example C09_create_nonvacuous :
  match create_set no_lit no_fl [SKey "a" (Some 1%N); SIdx 3; SKey "x" None] (PStr "v") FBare None docA with
  | SDone (d, _) =>
      erase d = DMap [ (PStr "a", DSeq [DLeaf (PInt 1); DMap []; DMap []; DMap [ (PStr "x", DLeaf (PStr "v")) ]]) ]
  | SFailed _ _ => False
  end.
Proof. vm_compute. reflexivity. Qed.

(* known finding F10b: {a: null} set a.b.c := v overwrites the null, a.b.c does not exist afterwards *)
Definition docN : node := NMap (ct 0) [ (sk 1 "a", NLeaf (pl 2) PNone) ].
Theorem C09_create_null_prefix_refuted :
  match create_set no_lit no_fl [SKey "a" (Some 1%N); SKey "b" None; SKey "c" None] (PStr "v") FBare None docN with
  | SDone (d, _) => erase d = DMap [ (PStr "a", DLeaf (PStr "v")) ]
  | SFailed _ _ => False
  end.
Proof. vm_compute. reflexivity. Qed.
Print Assumptions C09_create_null_prefix_refuted.

(* known finding F25: {s: !!set {x}} set s.y := v replaces the whole set *)
Definition docS : node := NMap (ct 0) [ (sk 1 "s", NSet (ct 2) [sk 3 "x"]) ].
Theorem C09_create_set_member_refuted :
  match create_set no_lit no_fl [SKey "s" (Some 1%N); SKey "y" None] (PStr "v") FBare None docS with
  | SDone (d, _) => erase d = DMap [ (PStr "s", DLeaf (PStr "v")) ]
  | SFailed _ _ => False
  end.
Proof. vm_compute. reflexivity. Qed.
Print Assumptions C09_create_set_member_refuted.
