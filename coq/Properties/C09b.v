(* C09 (creation half) - creation adds exactly the missing path.  Statements
   only; proofs in Proofs/C09createP.v.

   Model: Create.walk / grow / pads / build_next / wrap_type = the construction
   branch of Processor._get_optional_nodes with Nodes.build_next_node,
   append_list_element and wrap_type; Create.create_set adds set_value's
   _apply_change (Mutate.update_node, see C03). *)
From Coq Require Import List ZArith NArith Bool String.
From YP Require Import Outcome PyStr PyVal Doc Searches Mutate Create C04spec C09create C09createP C09doc.
Import ListNotations.
Open Scope string_scope.
Open Scope list_scope.

(* Wherever the path stops existing, the node found there only GAINS children:
   every child that existed before is still there, in place, unchanged (for
   every literal_eval oracle, value, remaining path). *)
Theorem C09_create_only_appends : forall lit segs cur pc next vo value g,
  grow lit segs cur pc next vo value = ROk g -> extends cur (fst (fst g)).
Proof. exact grow_extends. Qed.
Print Assumptions C09_create_only_appends.

(* Sequences are padded only up to the requested index. *)
Theorem C09_create_pads_exactly : forall lit s rest i els pc next vo value g z,
  (match s with SKey k _ => py_int k | SIdx z => Some z end) = Some z ->
  (Z.of_nat (List.length els) <= z)%Z ->
  grow lit (s :: rest) (NSeq i els) pc next vo value = ROk g ->
  children_count (fst (fst g)) = S (Z.to_nat z).
Proof. exact grow_pads_exactly. Qed.
Print Assumptions C09_create_pads_exactly.

(* A missing last key: one entry appended, holding the wrapped value, and the
   yielded coordinate is that entry. *)
Theorem C09_create_last_key : forall lit k ko i kvs pc next vo value g,
  grow lit [SKey k ko] (NMap i kvs) pc next vo value = ROk g ->
  exists w, wrap_type lit value next vo = ROk w /\
    fst (fst g) = NMap i (kvs ++ [(key_leaf k ko (N.succ next), w)]) /\
    snd (fst g) = mkpc (Some (oid i)) (PStr k).
Proof. exact grow_map_last_key. Qed.
Print Assumptions C09_create_last_key.

(* ======== document level: ALL documents (every container object held once),
   ALL straight key/index paths, existing prefix and missing tail of any length ======== *)

(* FRAME.  Whatever the optional query created, the old document is embedded in
   the new one: every node that existed is still there, at its place, with its
   identity, anchor, tag and scalar value; containers only gained children after
   the ones they had.  One exception, and only when the existing prefix of the
   path ends at a null with segments still to go ([null_prefix]): a null is "no
   value yet", and the container that holds the created tail takes its place - a
   NEW object (identity above every identity of the old document).  No guard: the
   statement also holds when nothing is created and in the situation of the known
   finding F25. *)
Theorem C09_create_frame : forall lit segs value vo d d' pc next',
  wf_doc d -> create_query lit segs value vo d = ROk (d', pc, next') ->
  embeds_g (if null_prefix d segs then Some (N.succ (max_oid d)) else None) d d'.
Proof. exact create_query_frame. Qed.
Print Assumptions C09_create_frame.

(* ... which means, location by location (Doc.lookup): *)
Theorem C09_frame_lookup : forall l d d' n,
  embeds d d' -> lookup d l = Some n ->
  exists n', lookup d' l = Some n' /\ embeds n n' /\ node_info n' = node_info n /\ (is_leaf n = true -> n' = n).
Proof.
  intros l d d' n He Hl. destruct (embeds_lookup None l d d' n He Hl) as [n' [A B]].
  exists n'. destruct (embeds_info _ _ B). auto.
Qed.
Print Assumptions C09_frame_lookup.

(* ... and beneath a null: every node is found at its place, unchanged as above, or it was a null and is now a
   container the old document did not hold *)
Theorem C09_frame_lookup_null : forall lo l d d' n,
  embeds_g (Some lo) d d' -> lookup d l = Some n ->
  exists n', lookup d' l = Some n' /\ embeds_g (Some lo) n n' /\
    ((node_info n' = node_info n /\ (is_leaf n = true -> n' = n)) \/
     (is_null n = true /\ is_leaf n' = false /\ (lo <= node_oid n')%N)).
Proof.
  intros lo l d d' n He Hl. destruct (embeds_lookup (Some lo) l d d' n He Hl) as [n' [A B]].
  exists n'. split; auto. split; auto. apply embeds_g_info. exact B.
Qed.
Print Assumptions C09_frame_lookup_null.

(* RESOLVES.  When something is to be created (guard [creates]: the path is not
   complete and the tail does not start below a set - F25; the clause "the
   existing prefix does not run into a null" - F10b - went with fix 09e1e7a: the
   tail is built beneath the null), walking the path's keys and indexes in the
   NEW document reaches the node Nodes.wrap_type built from the supplied value. *)
Theorem C09_create_resolves_partial : forall lit segs value vo d d' pc next',
  wf_doc d -> creates d segs = true ->
  create_query lit segs value vo d = ROk (d', pc, next') ->
  exists w fresh vo', resolve d' segs = Some w /\ wrap_type lit value fresh vo' = ROk w.
Proof. intros. eapply create_query_doc; eauto. Qed.
Print Assumptions C09_create_resolves_partial.

(* [resolve] is Doc.lookup along the refs the segments denote *)
Theorem C09_resolve_is_lookup : forall segs n w,
  resolve n segs = Some w -> exists l, List.length l = List.length segs /\ lookup n l = Some w.
Proof. exact resolve_lookup. Qed.
Print Assumptions C09_resolve_is_lookup.

(* PADDING exactly up to the requested index, along the whole path: every
   sequence met on the path in the new document in which the requested element
   did not exist before (the grown one, and every new one) has exactly
   index + 1 elements. *)
Theorem C09_create_pads_document_partial : forall lit segs value vo d d' pc next',
  wf_doc d -> creates d segs = true ->
  create_query lit segs value vo d = ROk (d', pc, next') ->
  padded_ok (Some d) d' segs = true.
Proof. intros. eapply create_query_doc; eauto. Qed.
Print Assumptions C09_create_pads_document_partial.

(* ---- concrete runs ---- *)
Definition pl (o : N) : info := mkinfo o None false None.
Definition ct (o : N) : info := mkinfo o None true None.
Definition sk (o : N) (s : string) : node := NLeaf (pl o) (PStr s).
Definition iv (o : N) (z : Z) : node := NLeaf (pl o) (PInt z).
Definition no_lit (s : string) : outcome litres := Ok LFail.
Definition no_fl (s : string) : outcome flres := Ok FFail.

(* {a: [1]} set a[3].x := v  ->  {a: [1, {}, {}, {x: v}]} *)
Definition docA : node := NMap (ct 0) [ (sk 1 "a", NSeq (ct 2) [iv 3 1]) ].
Example C09_create_nonvacuous :
  match create_set no_lit no_fl [SKey "a" (Some 1%N); SIdx 3; SKey "x" None] (PStr "v") FBare None docA with
  | SDone (d, _) =>
      erase d = DMap [ (PStr "a", DSeq [DLeaf (PInt 1); DMap []; DMap []; DMap [ (PStr "x", DLeaf (PStr "v")) ]]) ]
  | SFailed _ _ => False
  end.
Proof. vm_compute. reflexivity. Qed.

(* non-vacuity of the document-level theorems: {a: [1]}, a[3].x; a path of three missing segments on {} *)
Example C09_document_nonvacuous :
  wf_docb docA = true /\
  creates docA [SKey "a" (Some 1%N); SIdx 3; SKey "x" None] = true /\
  (match create_query no_lit [SKey "a" (Some 1%N); SIdx 3; SKey "x" None] (PStr "v") None docA with
   | ROk (d', _, _) =>
       option_map erase (resolve d' [SKey "a" (Some 1%N); SIdx 3; SKey "x" None]) = Some (DLeaf (PStr "v")) /\
       padded_ok (Some docA) d' [SKey "a" (Some 1%N); SIdx 3; SKey "x" None] = true
   | RErr _ => False
   end) /\
  creates (NMap (ct 0) []) [SKey "p" None; SKey "2" None; SIdx 1] = true /\
  (match create_query no_lit [SKey "p" None; SKey "q" None; SIdx 1] (PInt 5) None (NMap (ct 0) []) with
   | ROk (d', _, _) => erase d' = DMap [ (PStr "p", DMap [ (PStr "q", DSeq [DLeaf (PInt 5); DLeaf (PInt 5)]) ]) ]
   | RErr _ => False
   end).
Proof. vm_compute. repeat split. Qed.

(* The witness of the former C09_create_resolves_refuted (F10b at the level of the optional query, repaired by
   fix 09e1e7a): {a: null}, a.b.c - the null used to be yielded, nothing was created and a.b.c did not resolve.
   Now the guard holds, the null becomes {b: {c: v}} and the path resolves to the value; the frame is the one
   with the null clause ([null_prefix] is true). *)
Example C09_create_beneath_null :
  let d := NMap (ct 0) [ (sk 1 "a", NLeaf (pl 2) PNone) ] in
  let segs := [SKey "a" (Some 1%N); SKey "b" None; SKey "c" None] in
  wf_docb d = true /\ creates d segs = true /\ null_prefix d segs = true /\
  match create_query no_lit segs (PStr "v") None d with
  | ROk (d', _, _) =>
      erase d' = DMap [ (PStr "a", DMap [ (PStr "b", DMap [ (PStr "c", DLeaf (PStr "v")) ]) ]) ] /\
      option_map erase (resolve d' segs) = Some (DLeaf (PStr "v"))
  | RErr _ => False
  end.
Proof. vm_compute. repeat split. Qed.

(* the same beneath a null element of a sequence, reached by a negative index, with an index to pad:
   {a: [null, 1]}, a[-2][1] := v  ->  {a: [[v, v], 1]} *)
Example C09_create_beneath_null_element :
  let d := NMap (ct 0) [ (sk 1 "a", NSeq (ct 2) [NLeaf (pl 3) PNone; iv 4 1]) ] in
  let segs := [SKey "a" (Some 1%N); SIdx (-2); SIdx 1] in
  wf_docb d = true /\ creates d segs = true /\
  match create_query no_lit segs (PStr "v") None d with
  | ROk (d', _, _) =>
      erase d' = DMap [ (PStr "a", DSeq [DSeq [DLeaf (PStr "v"); DLeaf (PStr "v")]; DLeaf (PInt 1)]) ] /\
      padded_ok (Some d) d' segs = true
  | RErr _ => False
  end.
Proof. vm_compute. repeat split. Qed.

(* ... and known finding F25 at that level: {s: !!set {x}}, s.y := v - the member y is added (frame holds),
   but a set member IS its value: the path resolves to "y", never to the supplied "v" *)
Theorem C09_create_resolves_set_refuted : exists d segs d' pc next' n,
  wf_doc d /\ create_query no_lit segs (PStr "v") None d = ROk (d', pc, next') /\
  resolve d' segs = Some n /\ leaf_val n = Some (PStr "y").
Proof.
  exists (NMap (ct 0) [ (sk 1 "s", NSet (ct 2) [sk 3 "x"]) ]), [SKey "s" (Some 1%N); SKey "y" None].
  eexists. eexists. eexists. eexists. split; [|split; [|split]].
  - apply C04delete.wf_docb_sound. vm_compute. reflexivity.
  - vm_compute. reflexivity.
  - vm_compute. reflexivity.
  - reflexivity.
Qed.
Print Assumptions C09_create_resolves_set_refuted.

Definition docN : node := NMap (ct 0) [ (sk 1 "a", NLeaf (pl 2) PNone) ].
(* Since fix 45f1b07 (Nodes.require_buildable_path) the walk asks BEFORE it builds anything whether the rest of the
   path can be built where nothing exists yet - Hash keys and non-negative Array indexes only.  On a straight path
   the one tail that cannot is one holding a negative index: a missing key (and a key whose value is null) followed
   by such a tail is refused with a YAML Path error, for every document root mapping, value and oracle, and the
   model's refusal carries no document: nothing was built.  (Before the repair the containers in front of the
   negative index were built first and stayed behind when "Cannot add negative INDEX subreference to lists" was
   raised: {a: 1} set x[-1] := v left {a: 1, x: []}.) *)
Theorem C09_create_unbuildable_tail_refused :
  forall lit k ko rest value vo i kvs,
    find (key_is (PStr k)) kvs = None -> forallb straight_buildable rest = false ->
    create_query lit (SKey k ko :: rest) value vo (NMap i kvs) = RErr (YPE Generic).
Proof. exact create_missing_key_unbuildable. Qed.
Print Assumptions C09_create_unbuildable_tail_refused.

Theorem C09_create_unbuildable_beneath_null_refused :
  forall lit k ko s2 rest2 value vo i kvs kn ci,
    find (key_is (PStr k)) kvs = Some (kn, NLeaf ci PNone) -> forallb straight_buildable (s2 :: rest2) = false ->
    create_query lit (SKey k ko :: s2 :: rest2) value vo (NMap i kvs) = RErr (YPE Generic).
Proof. exact create_null_key_unbuildable. Qed.
Print Assumptions C09_create_unbuildable_beneath_null_refused.

(* {a: 1}: x[-1] and x.y[0][-2] are refused (through the query and through set_value, the document of the failed
   set is the one it was given); {a: null}: a[-1] is refused; the hypotheses are met by these and not by x[1] *)
Example C09_create_unbuildable_examples :
  let d := NMap (ct 0) [ (sk 1 "a", iv 2 1) ] in
  create_query no_lit [SKey "x" None; SIdx (-1)] (PStr "v") None d = RErr (YPE Generic) /\
  create_query no_lit [SKey "x" None; SKey "y" None; SIdx 0; SIdx (-2)] (PStr "v") None d = RErr (YPE Generic) /\
  match create_set no_lit no_fl [SKey "x" None; SIdx (-1)] (PStr "v") FBare None d with
  | SFailed (d', _) (YPE Generic) => d' = d
  | _ => False
  end /\
  create_query no_lit [SKey "a" (Some 1%N); SIdx (-1)] (PStr "v") None docN = RErr (YPE Generic) /\
  forallb straight_buildable [SIdx (-1)] = false /\ forallb straight_buildable [SKey "y" None; SIdx 0; SIdx (-2)] = false /\
  forallb straight_buildable [SIdx 1] = true /\
  match create_query no_lit [SKey "x" None; SIdx 1] (PStr "v") None d with
  | ROk (d', _, _) => erase d' = DMap [ (PStr "a", DLeaf (PInt 1)); (PStr "x", DSeq [DLeaf (PStr "v"); DLeaf (PStr "v")]) ]
  | RErr _ => False
  end.
Proof. vm_compute. repeat split. Qed.

(* the witness of the former C09_create_null_prefix_refuted (F10b through set_value: {a: null} set a.b.c := v
   gave {a: v}): the tail is built beneath the null and the value lands at a.b.c *)
Example C09_create_null_prefix_set :
  match create_set no_lit no_fl [SKey "a" (Some 1%N); SKey "b" None; SKey "c" None] (PStr "v") FBare None docN with
  | SDone (d, _) => erase d = DMap [ (PStr "a", DMap [ (PStr "b", DMap [ (PStr "c", DLeaf (PStr "v")) ]) ]) ]
  | SFailed _ _ => False
  end.
Proof. vm_compute. reflexivity. Qed.

(* known finding F25: {s: !!set {x}} set s.y := v replaces the whole set *)
Definition docS : node := NMap (ct 0) [ (sk 1 "s", NSet (ct 2) [sk 3 "x"]) ].
Theorem C09_create_set_member_refuted :
  match create_set no_lit no_fl [SKey "s" (Some 1%N); SKey "y" None] (PStr "v") FBare None docS with
  | SDone (d, _) => erase d = DMap [ (PStr "s", DLeaf (PStr "v")) ]
  | SFailed _ _ => False
  end.
Proof. vm_compute. reflexivity. Qed.
Print Assumptions C09_create_set_member_refuted.

(* ======================================================================== *)
(* SET MODE at document level (round gapE; proofs Proofs/C09set.v).

   set_value(path, value, mustexist=False, value_format=fmt) on a straight path that does not exist
   completely = the construction (Create.walk) followed by _update_node on the coordinate the walk yields
   (Create.create_set).  Composed here, for every document satisfying the invariants of a loaded
   document (C03guard.doc_inv: containers carry the anchor attribute and sit at one place, keys pairwise
   different, keys / set members scalars), every straight path, value, format and both oracles:
     - the yielded coordinate IS the place of the created node (parent object + normalised reference:
       C09set.gpath_last, seg_child_get_change), the created node's identity is fresh, so no container and
       no anchor-capable key on the way to it is taken for an alias (C09set.walk_gpath);
     - hence the whole-document walk of _update_node leaves every step of the path in place and puts the
       node make_new_node built where the created node was (C09set.recurse_path);
   so walking the path in the FINAL document reaches a node holding the value converted to the requested
   format ([conv]: C03_new_node_value).
   Guard [creates] = "something is to be created, and not below a set" (listed finding F25, witness
   C09_create_set_member_refuted above).  Input condition [vo_ok] (Spec/C09setguard.v): when the caller's value
   OBJECT is already an object of the document (vo = Some o: an interned scalar), it is neither a
   container nor an anchor-capable mapping key of it - a Python scalar never is. *)
From YP Require Import C03guard C09setguard C09set.

Theorem C09_create_set_composes_partial : forall lit fl segs value fmt vo d st',
  doc_inv d = true -> creates d segs = true -> vo_ok d vo = true ->
  create_set lit fl segs value fmt vo d = SDone st' ->
  exists nn i, conv lit fl fmt value = ROk nn /\ resolve (fst st') segs = Some (NLeaf i (nn_val nn)).
Proof. exact create_set_composes. Qed.
Print Assumptions C09_create_set_composes_partial.

(* the two halves, for any document / any identity roid: along a path on which no container is the object roid
   and no mapping key is an anchor-capable object roid, recurse() puts the new node at the end of the path *)
Theorem C09_update_along_path : forall roid w pc new, node_oid w = roid ->
  forall segs n poid pref,
  gpath roid w pc n segs -> path_last n segs = Some (poid, pref) ->
  resolve (recurse poid pref roid new n) segs = Some new.
Proof. exact recurse_path. Qed.
Print Assumptions C09_update_along_path.

(* non-vacuity: {a: [1]} set a[3].x := 7 as INT (three missing levels below an existing prefix); {a: null}
   set a.b.c := v (the prefix ends at a null); {a: [1]} set a[-1] ... exists already, so creates = false;
   a value object the document already holds (vo = Some 3, the interned int 1 at a[0]) is inside vo_ok *)
Example C09_create_set_composes_nonvacuous :
  doc_inv docA = true /\ creates docA [SKey "a" (Some 1%N); SIdx 3; SKey "x" None] = true /\
  vo_ok docA None = true /\ vo_ok docA (Some 3%N) = true /\
  (match create_set no_lit no_fl [SKey "a" (Some 1%N); SIdx 3; SKey "x" None] (PInt 7) FInt None docA with
   | SDone (d, _) =>
       option_map erase (resolve d [SKey "a" (Some 1%N); SIdx 3; SKey "x" None]) = Some (DLeaf (PInt 7))
   | SFailed _ _ => False
   end) /\
  doc_inv docN = true /\ creates docN [SKey "a" (Some 1%N); SKey "b" None; SKey "c" None] = true /\
  (match create_set no_lit no_fl [SKey "a" (Some 1%N); SKey "b" None; SKey "c" None] (PStr "v") FBare None docN with
   | SDone (d, _) =>
       option_map erase (resolve d [SKey "a" (Some 1%N); SKey "b" None; SKey "c" None]) = Some (DLeaf (PStr "v"))
   | SFailed _ _ => False
   end) /\
  (* the guard is needed: below a set the hypotheses fail (creates = false) and the path does not resolve *)
  creates docS [SKey "s" (Some 1%N); SKey "y" None] = false.
Proof. vm_compute. repeat split. Qed.
