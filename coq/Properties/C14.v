(* C14 -- Parsing any text as a YAML Path ends in segments or a YAML Path error.
   Statements only; proofs live in Proofs/ParserStep.v and Proofs/ParserTotal.v.
   Gallina functions terminate, so "never loops" is the Fixpoint [run] itself
   (structural recursion over the text); the content of the theorems is the
   absence of any PyCrash / OutOfFuel outcome, for every string, every separator
   setting, escaped and unescaped parses, and stringification. *)
From Coq Require Import List Ascii String.
From YP Require Import Outcome PyStr Generated PathParser PathPrinter ParserStep ParserTotal.
Import ListNotations.
Open Scope string_scope.

Theorem C14_total :
  forall (m : sepmode) (strip : bool) (text : string),
    (exists segs, parse m strip text = Ok segs) \/ (exists k, parse m strip text = Raise (YPE k)).
Proof. exact parse_total. Qed.
Print Assumptions C14_total.

Theorem C14_str_total :
  forall (m : sepmode) (text : string),
    (exists s, path_str m text = Ok s) \/ (exists k, path_str m text = Raise (YPE k)).
Proof. exact path_str_total. Qed.
Print Assumptions C14_str_total.

(* SearchKeywordTerms.parameters (anchored in the same property): a list of
   parameters, or ValueError for unbalanced quotes -- nothing else. *)
Theorem C14_params_total :
  forall raw : string,
    (exists l, keyword_parameters raw = Ok l) \/ keyword_parameters raw = Raise (PyCrash ValueError).
Proof. exact keyword_parameters_total. Qed.
Print Assumptions C14_params_total.

(* The side condition on the regenerated keyword table that the proof uses:
   every spelling is_keyword accepts is the lower-case form of a member name. *)
Theorem C14_keyword_table_ok : kw_table_ok = true.
Proof. exact kw_table_ok_true. Qed.

(* Non-vacuity: both disjuncts occur, on non-trivial inputs. *)
Example C14_ok_example :
  parse Auto true "a.b[c=d]" =
  Ok [(Some TKey, AStr "a"); (Some TKey, AStr "b"); (Some TSearch, ASearch false MEquals "c" "d")].
Proof. vm_compute. reflexivity. Qed.

Example C14_ype_example_unmatched_bracket : parse Auto true "a[b=c]]" = Raise (YPE Generic).
Proof. vm_compute. reflexivity. Qed.

Example C14_ype_example_bad_index : parse (Forced Slash) false "/a[x]" = Raise (YPE TypeMismatch).
Proof. vm_compute. reflexivity. Qed.
