(* C14 -- Parsing any text as a YAML Path ends in segments or a YAML Path error.
   Statements only; proofs live in Proofs/ParserStep.v and Proofs/ParserTotal.v.
   Gallina functions terminate, so "never loops" is the Fixpoint [run] itself
   (structural recursion over the text); the content of the theorems is the
   absence of any PyCrash / OutOfFuel outcome, for every string, every separator
   setting, escaped and unescaped parses, and stringification. *)
From Coq Require Import List Ascii String.
From YP Require Import Outcome PyStr Generated PathParser PathPrinter ParserStep ParserTotal C14Pairs ParserPairs.
Import ListNotations.
Open Scope string_scope.

Theorem C14_total :
  forall (m : sepmode) (strip : bool) (text : string),
    (exists segs, parse m strip text = Ok segs) \/ (exists k, parse m strip text = Raise (YPE k)).
Proof. exact parse_total. Qed.
Print Assumptions C14_total.

Theorem C14_str_total :
  forall (m : sepmode) (text : string),
    (exists s, path_str m text = Ok s) \/ (exists k, path_str m text = Raise (YPE k)).
Proof. exact path_str_total. Qed.
Print Assumptions C14_str_total.

(* SearchKeywordTerms.parameters (anchored in the same property): a list of
   parameters, or ValueError for unbalanced quotes -- nothing else. *)
Theorem C14_params_total :
  forall raw : string,
    (exists l, keyword_parameters raw = Ok l) \/ keyword_parameters raw = Raise (PyCrash ValueError).
Proof. exact keyword_parameters_total. Qed.
Print Assumptions C14_params_total.

(* The side condition on the regenerated keyword table that the proof uses:
   every spelling is_keyword accepts is the lower-case form of a member name. *)
Theorem C14_keyword_table_ok : kw_table_ok = true.
Proof. exact kw_table_ok_true. Qed.

(* Non-vacuity: both disjuncts occur, on non-trivial inputs. *)
Example C14_ok_example :
  parse Auto true "a.b[c=d]" =
  Ok [(Some TKey, AStr "a"); (Some TKey, AStr "b"); (Some TSearch, ASearch false MEquals "c" "d")].
Proof. vm_compute. reflexivity. Qed.

Example C14_ype_example_unmatched_bracket : parse Auto true "a[b=c]]" = Raise (YPE Generic).
Proof. vm_compute. reflexivity. Qed.

Example C14_ype_example_bad_index : parse (Forced Slash) false "/a[x]" = Raise (YPE TypeMismatch).
Proof. vm_compute. reflexivity. Qed.

(* Since the repair of finding F30 (C15): whatever the parser ACCEPTS is made of
   segments the evaluator has a handler for -- no stored segment is untyped, a
   COLLECTOR-typed segment carries collector terms, a KEYWORD_SEARCH-typed one
   keyword terms, a SEARCH-typed one search terms -- for every text, separator
   setting and escape mode.  Proof: an invariant over the rule chain
   (Proofs/ParserPairs.v) relating the demarcation stack to collector_level and
   segment_type. *)
Theorem C14_collector_segments_have_terms :
  forall (m : sepmode) (strip : bool) (text : string) (segs : list seg),
    parse m strip text = Ok segs ->
    forall ty a, In (ty, a) segs ->
      ty <> None /\
      (ty = Some TCollector -> exists op e, a = ACollector op e) /\
      (ty = Some TKeywordSearch -> exists i k p, a = AKeyword i k p) /\
      (ty = Some TSearch -> exists i mth attr term, a = ASearch i mth attr term).
Proof. exact parse_paired_explicit. Qed.
Print Assumptions C14_collector_segments_have_terms.

(* the computable form used by C15 *)
Theorem C14_segments_paired :
  forall (m : sepmode) (strip : bool) (text : string) (segs : list seg),
    parse m strip text = Ok segs -> segs_paired segs = true.
Proof. exact parse_paired. Qed.
Print Assumptions C14_segments_paired.

(* Non-vacuity: an accepted text with every attribute-carrying segment type ... *)
Example C14_paired_example :
  parse Auto true "(a)+(b)[max(c)][!d=~/e/].f" =
  Ok [(Some TCollector, ACollector CNone "a"); (Some TCollector, ACollector CAdd "b");
      (Some TKeywordSearch, AKeyword false KMax "c"); (Some TSearch, ASearch true MRegex "d" "e");
      (Some TKey, AStr "f")].
Proof. vm_compute. reflexivity. Qed.

(* ... and the malformed shapes that used to be accepted with an untyped or
   mistyped segment (finding F30) are YAML Path errors now. *)
Example C14_tangles_refused :
  forall text, In text ["[(a)]"; "a[(b)]"; "(][max(())]"; "[a=(b)]"; "[a='(b)'=c]"; "[a=[b(c)]=d]"; "[max()\])"; "[max('a)]]"] ->
    parse Auto true text = Raise (YPE Generic) /\ parse Auto false text = Raise (YPE Generic).
Proof.
  intros text H; repeat (destruct H as [<-|H]; [vm_compute; split; reflexivity|]); destruct H.
Qed.

(* Every remaining statement of this file, so that none is left unaudited. *)
Print Assumptions C14_keyword_table_ok.
