(* C12 -- Search operators compare values by the documented typed rules; an
   inverted search yields exactly the candidates the plain search does not.
   Statements only; proofs in Proofs/SearchProofs.v.

   Every theorem quantifies over ALL oracles [lit] (ast.literal_eval) and
   [re_search] (re.compile(p).search(s)), all haystacks [h] (any scalar, or a
   ruamel ScalarBoolean) and all term texts [needle].  [th]/[tn] are the typed
   readings of value and term (Nodes.typed_value). *)
From Coq Require Import List Ascii String ZArith QArith Bool.
From Coq Require Import NArith.
From YP Require Import Outcome PyStr PyVal Doc PathParser Searches SearchLoops SpecC12 SearchProofs Eval SearchCands SearchLink.
From YP Require Import SpecC12data SearchLinkData.
Import ListNotations.
Open Scope string_scope.

(* equality: numeric for two numbers of the same kind, textual otherwise *)
Theorem C12_equals :
  forall lit re_search needle h th tn,
    typed_haystack lit h = Ok th -> typed_value lit (PStr needle) = Ok tn ->
    search_matches_h lit re_search MEquals needle h = Ok (spec_equals th tn needle).
Proof. exact sm_equals. Qed.
Print Assumptions C12_equals.

(* booleans (plain and anchored) match their case-insensitive spellings *)
Theorem C12_bool_spellings :
  forall lit re_search needle b hb h,
    lit "True" = Ok (LVal (PBool true)) -> lit "False" = Ok (LVal (PBool false)) ->
    bool_spelling needle = Some b ->
    h = HVal (PBool hb) \/ h = HSBool hb ->
    search_matches_h lit re_search MEquals needle h = Ok (Bool.eqb hb b).
Proof. exact sm_bool_spellings. Qed.
Print Assumptions C12_bool_spellings.

(* prefix / suffix / substring act on the value's text *)
Theorem C12_prefix_suffix_contains :
  forall lit re_search needle h th tn,
    typed_haystack lit h = Ok th -> typed_value lit (PStr needle) = Ok tn ->
    search_matches_h lit re_search MStartsWith needle h = Ok (starts_with needle (py_str th)) /\
    search_matches_h lit re_search MEndsWith needle h = Ok (ends_with needle (py_str th)) /\
    search_matches_h lit re_search MContains needle h = Ok (str_contains needle (py_str th)).
Proof. exact sm_prefix_suffix_contains. Qed.
Print Assumptions C12_prefix_suffix_contains.

(* ordering of a numeric value: numeric against a numeric term, false otherwise *)
Theorem C12_order_numeric :
  forall lit re_search o needle h th tn a,
    typed_haystack lit h = Ok th -> typed_value lit (PStr needle) = Ok tn ->
    num_of th = Some a ->
    search_matches_h lit re_search (method_of_ordop o) needle h =
      Ok (match num_of tn with Some b => num_rel o a b | None => false end).
Proof. exact sm_order_numeric. Qed.
Print Assumptions C12_order_numeric.

(* ordering of text: lexicographic on the value's text against the term's text *)
Theorem C12_order_text :
  forall lit re_search o needle h th tn,
    typed_haystack lit h = Ok th -> typed_value lit (PStr needle) = Ok tn ->
    num_of th = None ->
    search_matches_h lit re_search (method_of_ordop o) needle h = Ok (text_rel o (py_str th) needle).
Proof. exact sm_order_text. Qed.
Print Assumptions C12_order_text.

(* a regular expression is SEARCHED in the value's text (anchoring is the
   oracle's business: the model hands it the unmodified pattern and text) *)
Theorem C12_regex :
  forall lit re_search needle h th tn,
    typed_haystack lit h = Ok th -> typed_value lit (PStr needle) = Ok tn ->
    search_matches_h lit re_search MRegex needle h =
      (do r <- re_search needle (py_str th);
       match r with RMatch b => Ok b | RError => Raise (YPE Generic) end).
Proof. exact sm_regex. Qed.
Print Assumptions C12_regex.

(* the nine operators at once, against the table of Spec/C12.v *)
Theorem C12_table :
  forall lit re_search m needle h th tn,
    typed_haystack lit h = Ok th -> typed_value lit (PStr needle) = Ok tn ->
    match spec_answer m th tn needle with
    | SBool b => search_matches_h lit re_search m needle h = Ok b
    | SRegex =>
        search_matches_h lit re_search m needle h =
          (do r <- re_search needle (py_str th);
           match r with RMatch b => Ok b | RError => Raise (YPE Generic) end)
    end.
Proof. exact sm_table. Qed.
Print Assumptions C12_table.

(* the comparison never raises for a well-formed term: literal_eval answers
   (with a value, or one of the exception classes typed_value catches) and,
   for =~, the pattern compiles *)
Theorem C12_never_raises :
  forall lit re_search m needle h,
    (forall s, lit_answers lit s) ->
    (m = MRegex -> forall text, exists b, re_search needle text = Ok (RMatch b)) ->
    exists b, search_matches_h lit re_search m needle h = Ok b.
Proof. exact sm_never_raises. Qed.
Print Assumptions C12_never_raises.

(* ---- inversion, for each candidate loop of Processor._get_nodes_by_search ---- *)

(* list elements: the yield of every element depends on that element alone ... *)
Theorem C12_list_pointwise :
  forall lit re_search invert m term cs res,
    list_loop lit re_search invert m term cs = Ok res ->
    (forall i, In i res -> i < List.length cs) /\
    forall i c, nth_error cs i = Some c ->
      exists mt, lcand_match lit re_search m term c = Ok mt /\ (In i res <-> verdict invert mt = true).
Proof. exact list_loop_pointwise. Qed.
Print Assumptions C12_list_pointwise.

(* ... and the inverted search yields exactly the elements the plain one does not *)
Theorem C12_inversion_list :
  forall lit re_search m term cs plain inv,
    list_loop lit re_search false m term cs = Ok plain ->
    list_loop lit re_search true m term cs = Ok inv ->
    complement (List.length cs) plain inv.
Proof. exact list_loop_complement. Qed.
Print Assumptions C12_inversion_list.

(* hash keys on '.' *)
Theorem C12_inversion_keys :
  forall lit re_search m term keys plain inv,
    keys_loop lit re_search false m term keys = Ok plain ->
    keys_loop lit re_search true m term keys = Ok inv ->
    complement (List.length keys) plain inv.
Proof. exact each_loop_complement. Qed.
Print Assumptions C12_inversion_keys.

(* set members *)
Theorem C12_inversion_set :
  forall lit re_search m term members plain inv,
    set_loop lit re_search false m term members = Ok plain ->
    set_loop lit re_search true m term members = Ok inv ->
    complement (List.length members) plain inv.
Proof. exact each_loop_complement. Qed.
Print Assumptions C12_inversion_set.

(* hash attribute *)
Theorem C12_inversion_attr :
  forall lit re_search m term v plain inv,
    attr_site lit re_search false m term v = Ok plain ->
    attr_site lit re_search true m term v = Ok inv ->
    complement 1 plain inv.
Proof. exact single_site_complement. Qed.
Print Assumptions C12_inversion_attr.

(* scalar self *)
Theorem C12_inversion_self :
  forall lit re_search m term v plain inv,
    self_site lit re_search false m term v = Ok plain ->
    self_site lit re_search true m term v = Ok inv ->
    complement 1 plain inv.
Proof. exact single_site_complement. Qed.
Print Assumptions C12_inversion_self.

(* hash without the attribute (descendant search): full statement is FALSE of
   the code -- when the attribute path reaches several nodes the code yields the
   hash if ANY node passes the (possibly inverted) comparison, so a hash with
   one node equal to the term and one not is yielded by both searches (known
   finding F12a).  Guard: the attribute path reaches at most one node. *)
Theorem C12_inversion_desc_partial :
  forall lit re_search m term ds plain inv,
    List.length ds <= 1 ->
    desc_site lit re_search false m term ds = Ok plain ->
    desc_site lit re_search true m term ds = Ok inv ->
    complement 1 plain inv.
Proof. exact desc_site_complement. Qed.
Print Assumptions C12_inversion_desc_partial.

Theorem C12_inversion_desc_refuted :
  exists m term ds plain inv,
    desc_site demo_lit demo_re false m term ds = Ok plain /\
    desc_site demo_lit demo_re true m term ds = Ok inv /\
    ~ complement 1 plain inv.
Proof. exact desc_site_complement_refuted. Qed.
Print Assumptions C12_inversion_desc_refuted.

(* the code BEFORE the fix "reset the match flag for every list element"
   (DESIGN section 5 defect #8): an element in which the descendant search found
   nothing was yielded by a plain search when its predecessor matched.  Kept as
   the record of what the fix repaired; C12_list_pointwise is about the code
   as it is now. *)
Theorem C12_list_pointwise_refuted_before_fix :
  exists m term cs res,
    list_loop_before_fix demo_lit demo_re false m term cs = Ok res /\
    nth_error cs 1 = Some (LDesc []) /\ In 1 res.
Proof. exact list_loop_before_fix_stale. Qed.

(* ---- inversion over DOCUMENTS ----
   The theorems above are about the loops of Model/SearchLoops.v, whose input is
   a candidate list.  Model/SearchCands.v computes that list from a Doc.node and
   a search segment ([sc_cands_of]: list elements incl. the Array-of-Hashes
   key-name shortcut, hash keys on '.', hash attribute, the nodes of the
   descendant search, set members, scalar self; [rq] is the evaluator of the
   attribute path, any function) and lists the NodeCoords under which each
   candidate is yielded ([sc_items]).  The evaluator model's [by_search]
   (Model/Eval.v, the function the query evaluator of C01 / C15 runs) REFINES
   the loops: it yields exactly the candidates whose positions the loop yields,
   in that order, and where a comparison raises it stops with that exception. *)
Theorem C12_search_refines :
  forall lit re_search nstr vstr rq inv m attr term n c cands,
    sc_cands_of nstr vstr rq attr term n c = Ok cands ->
    sc_refines (by_search lit re_search nstr vstr rq inv m attr term (RNode n) c)
               (sc_run lit re_search inv m term cands) (sc_items attr n c).
Proof. exact by_search_refines. Qed.
Print Assumptions C12_search_refines.

(* For every document node [n] (reached in any context [c]) and every search
   segment `[attr OP term]` whose attribute path can be evaluated at every
   candidate and reaches at most one node below a HASH candidate
   ([sc_guard] = the listed finding F12a; the list loop only ever looks at the
   first node, so lists need no guard): the items of the inverted search are
   exactly the candidates the plain search does not yield, in candidate order --
   [mask] marks the candidates the plain search yields ([sc_matches]: the
   comparison's answers), the inverted search yields the others. *)
Theorem C12_inversion_doc :
  forall lit re_search nstr vstr rq m attr term n c cands plain inv,
    sc_cands_of nstr vstr rq attr term n c = Ok cands ->
    sc_guard cands = true ->
    by_search lit re_search nstr vstr rq false m attr term (RNode n) c = (plain, Done) ->
    by_search lit re_search nstr vstr rq true m attr term (RNode n) c = (inv, Done) ->
    exists mask,
      sc_matches lit re_search m term cands = Ok mask /\
      List.length mask = List.length (sc_items attr n c) /\
      plain = sc_select mask (sc_items attr n c) /\
      inv = sc_select (map negb mask) (sc_items attr n c).
Proof. exact inversion_doc. Qed.
Print Assumptions C12_inversion_doc.

(* the same in the vocabulary of the loop theorems: positions and [complement] *)
Theorem C12_inversion_doc_positions :
  forall lit re_search nstr vstr rq m attr term n c cands plain inv,
    sc_cands_of nstr vstr rq attr term n c = Ok cands ->
    sc_guard cands = true ->
    by_search lit re_search nstr vstr rq false m attr term (RNode n) c = (plain, Done) ->
    by_search lit re_search nstr vstr rq true m attr term (RNode n) c = (inv, Done) ->
    exists pi ii,
      sc_run lit re_search false m term cands = Ok pi /\ sc_run lit re_search true m term cands = Ok ii /\
      plain = sc_pick pi (sc_items attr n c) /\ inv = sc_pick ii (sc_items attr n c) /\
      complement (sc_count cands) pi ii.
Proof. exact inversion_doc_positions. Qed.
Print Assumptions C12_inversion_doc_positions.

(* ... and for a search segment as the dispatcher of the query evaluator runs it
   (`_get_nodes_by_path_segment`): [segs] / [segs'] are any two prepared paths
   whose i-th segments differ only in the inversion flag *)
Theorem C12_inversion_doc_dispatch :
  forall lit re_search nstr vstr kw_handler self sg_next rqp segs i us sub sub2 m attr term n c cands plain inv segs',
    nth_error segs i = Some (PSeg (Some TSearch, ASearch false m attr term) us sub sub2) ->
    nth_error segs' i = Some (PSeg (Some TSearch, ASearch true m attr term) us sub sub2) ->
    sc_cands_of nstr vstr (rqp sub) attr term n c = Ok cands ->
    sc_guard cands = true ->
    dispatch lit re_search nstr vstr kw_handler self sg_next rqp segs i (RNode n) c = (plain, Done) ->
    dispatch lit re_search nstr vstr kw_handler self sg_next rqp segs' i (RNode n) c = (inv, Done) ->
    exists mask,
      sc_matches lit re_search m term cands = Ok mask /\
      List.length mask = List.length (sc_items attr n c) /\
      plain = sc_select mask (sc_items attr n c) /\
      inv = sc_select (map negb mask) (sc_items attr n c).
Proof. exact inversion_dispatch. Qed.
Print Assumptions C12_inversion_doc_dispatch.

(* without the guard the statement is FALSE of the code (listed finding F12a):
   {a: {x: 1, y: 2}} with [a.*=1] and [a.*!=1] -- the attribute path evaluated by
   the evaluator model itself -- both yield the hash *)
Theorem C12_inversion_doc_refuted :
  exists cands plain inv,
    sc_cands_of sc_demo_nstr sc_demo_vstr (sc_demo_rq "a.*") "a.*" "1" sc_doc_f12a root_ctx = Ok cands /\
    sc_guard cands = false /\
    by_search sc_demo_lit sc_demo_re sc_demo_nstr sc_demo_vstr (sc_demo_rq "a.*") false MEquals "a.*" "1"
              (RNode sc_doc_f12a) root_ctx = (plain, Done) /\
    by_search sc_demo_lit sc_demo_re sc_demo_nstr sc_demo_vstr (sc_demo_rq "a.*") true MEquals "a.*" "1"
              (RNode sc_doc_f12a) root_ctx = (inv, Done) /\
    sc_oids plain = [1%N] /\ sc_oids inv = [1%N] /\
    ~ exists mask, plain = sc_select mask (sc_items "a.*" sc_doc_f12a root_ctx) /\
                   inv = sc_select (map negb mask) (sc_items "a.*" sc_doc_f12a root_ctx).
Proof. exact inversion_doc_refuted. Qed.
Print Assumptions C12_inversion_doc_refuted.

(* ---- non-vacuity ---- *)
Definition ex_lit := lit_of_table
  [("1", LVal (PInt 1)); ("5", LVal (PInt 5)); ("5.0", LVal (PFloat (5 # 1) "5.0")); ("abc", LFail);
   ("True", LVal (PBool true)); ("False", LVal (PBool false)); ("b", LFail); ("^b", LFail); ("{[1]: 2}", LCrash TypeError)].
Definition ex_re := re_of_table [("b", "abc", RMatch true); ("^b", "abc", RMatch false)].

(* hypotheses of C12_equals hold and both branches of the rule occur *)
Example C12_ex_equals_numeric :
  typed_haystack ex_lit (HVal (PStr "5")) = Ok (PInt 5) /\ typed_value ex_lit (PStr "5") = Ok (PInt 5) /\
  search_matches_h ex_lit ex_re MEquals "5" (HVal (PStr "5")) = Ok true.
Proof. vm_compute. repeat split; reflexivity. Qed.
Example C12_ex_equals_textual_int_vs_float :
  search_matches_h ex_lit ex_re MEquals "5.0" (HVal (PInt 5)) = Ok false.
Proof. vm_compute. reflexivity. Qed.
Example C12_ex_bool_spelling_anchored :
  bool_spelling "tRuE" = Some true /\
  search_matches_h ex_lit ex_re MEquals "tRuE" (HSBool true) = Ok true.
Proof. vm_compute. split; reflexivity. Qed.
Example C12_ex_order_numeric_vs_text :
  search_matches_h ex_lit ex_re MGt "abc" (HVal (PInt 5)) = Ok false /\
  search_matches_h ex_lit ex_re MLe "abc" (HVal (PInt 5)) = Ok false /\
  search_matches_h ex_lit ex_re MGe "5.0" (HVal (PInt 5)) = Ok true.
Proof. vm_compute. repeat split; reflexivity. Qed.
Example C12_ex_order_text :
  num_of (PStr "abc") = None /\ search_matches_h ex_lit ex_re MGt "b" (HVal (PStr "abc")) = Ok false.
Proof. vm_compute. split; reflexivity. Qed.
Example C12_ex_regex_searched_not_anchored :
  search_matches_h ex_lit ex_re MRegex "b" (HVal (PStr "abc")) = Ok true /\
  search_matches_h ex_lit ex_re MRegex "^b" (HVal (PStr "abc")) = Ok false.
Proof. vm_compute. split; reflexivity. Qed.
(* a term literal_eval rejects with TypeError is read as text *)
Example C12_ex_unhashable_literal_term :
  search_matches_h ex_lit ex_re MEquals "{[1]: 2}" (HVal (PStr "abc")) = Ok false.
Proof. vm_compute. reflexivity. Qed.
(* hypotheses of the inversion theorems hold on a non-trivial list: a matching
   attribute, a non-matching one, a descendant search that finds nothing *)
Example C12_ex_inversion_list :
  list_loop ex_lit ex_re false MEquals "1" [LAttr (HVal (PInt 1)); LAttr (HVal (PInt 5)); LDesc []] = Ok [0] /\
  list_loop ex_lit ex_re true MEquals "1" [LAttr (HVal (PInt 1)); LAttr (HVal (PInt 5)); LDesc []] = Ok [1; 2].
Proof. vm_compute. split; reflexivity. Qed.
Example C12_ex_inversion_desc :
  desc_site ex_lit ex_re false MEquals "1" [HVal (PInt 1)] = Ok [0] /\
  desc_site ex_lit ex_re true MEquals "1" [HVal (PInt 1)] = Ok [] /\
  desc_site ex_lit ex_re true MEquals "1" [] = Ok [0].
Proof. vm_compute. repeat split; reflexivity. Qed.

(* ---- non-vacuity of C12_inversion_doc: its hypotheses hold, and this is what
   the two searches yield (objects by identity), on a list, a hash (key names,
   a named attribute, a descendant path reaching one node), a set and an
   Array-of-Hashes (key-name shortcut with a null element; named attribute with
   a record lacking it) ---- *)
Definition ex_rq0 (_ : rval) (_ : ctx) : gen rval := gnil.
Definition ex_doc_check (rq : rval -> ctx -> gen rval) (attr term : string) (n : node) (count : nat)
           (want_plain want_inv : list N) : Prop :=
  (exists cands, sc_cands_of sc_demo_nstr sc_demo_vstr rq attr term n root_ctx = Ok cands /\
                 sc_guard cands = true /\ sc_count cands = count) /\
  (let g := by_search sc_demo_lit sc_demo_re sc_demo_nstr sc_demo_vstr rq false MEquals attr term (RNode n) root_ctx in
   (sc_oids (fst g), snd g) = (want_plain, Done)) /\
  (let g := by_search sc_demo_lit sc_demo_re sc_demo_nstr sc_demo_vstr rq true MEquals attr term (RNode n) root_ctx in
   (sc_oids (fst g), snd g) = (want_inv, Done)).

(* [1, 5, abc] with [.=1] *)
Example C12_ex_doc_list :
  ex_doc_check ex_rq0 "." "1"
    (NSeq (sc_inf 1) [sc_leaf 2 (PInt 1); sc_leaf 3 (PInt 5); sc_leaf 4 (PStr "abc")]) 3 [2%N] [3%N; 4%N].
Proof. vm_compute. split; [eexists; repeat split|split; reflexivity]. Qed.
(* {a: 1, b: 5, 1: x} with [.=1]: key names, values yielded *)
Example C12_ex_doc_hash_keys :
  ex_doc_check ex_rq0 "." "1"
    (NMap (sc_inf 1) [(sc_leaf 2 (PStr "a"), sc_leaf 3 (PInt 1)); (sc_leaf 4 (PStr "b"), sc_leaf 5 (PInt 5));
                      (sc_leaf 6 (PInt 1), sc_leaf 7 (PStr "x"))]) 3 [7%N] [3%N; 5%N].
Proof. vm_compute. split; [eexists; repeat split|split; reflexivity]. Qed.
(* {a: 1, b: 5} with [a=1]: the attribute's value is the candidate *)
Example C12_ex_doc_hash_attr :
  ex_doc_check ex_rq0 "a" "1"
    (NMap (sc_inf 1) [(sc_leaf 2 (PStr "a"), sc_leaf 3 (PInt 1)); (sc_leaf 4 (PStr "b"), sc_leaf 5 (PInt 5))])
    1 [3%N] [].
Proof. vm_compute. split; [eexists; repeat split|split; reflexivity]. Qed.
(* {a: {k: 5}} with [a.k=1]: the descendant path (evaluated by the evaluator model) reaches one node *)
Example C12_ex_doc_hash_desc :
  ex_doc_check (sc_demo_rq "a.k") "a.k" "1"
    (NMap (sc_inf 1) [(sc_leaf 2 (PStr "a"), NMap (sc_inf 3) [(sc_leaf 4 (PStr "k"), sc_leaf 5 (PInt 5))])])
    1 [] [1%N].
Proof. vm_compute. split; [eexists; repeat split|split; reflexivity]. Qed.
(* !!set {a, 1, b} with [.=1] *)
Example C12_ex_doc_set :
  ex_doc_check ex_rq0 "." "1"
    (NSet (sc_inf 1) [sc_leaf 2 (PStr "a"); sc_leaf 3 (PInt 1); sc_leaf 4 (PStr "b")]) 3 [3%N] [2%N; 4%N].
Proof. vm_compute. split; [eexists; repeat split|split; reflexivity]. Qed.
(* [{a: 1}, ~, {b: 2}] with [.=a]: in an Array-of-Hashes a hash HAVING the key matches *)
Example C12_ex_doc_aoh_keyname :
  ex_doc_check ex_rq0 "." "a"
    (NSeq (sc_inf 1) [NMap (sc_inf 2) [(sc_leaf 3 (PStr "a"), sc_leaf 4 (PInt 1))]; sc_leaf 5 PNone;
                      NMap (sc_inf 6) [(sc_leaf 7 (PStr "b"), sc_leaf 8 (PInt 2))]]) 3 [2%N] [5%N; 6%N].
Proof. vm_compute. split; [eexists; repeat split|split; reflexivity]. Qed.
(* [{a: 1}, {a: 5}, {b: 1}] with [a=1]: the record lacking `a` is searched by descent, finds nothing,
   and is yielded by the inverted search *)
Example C12_ex_doc_aoh_attr :
  ex_doc_check (sc_demo_rq "a") "a" "1"
    (NSeq (sc_inf 1) [NMap (sc_inf 2) [(sc_leaf 3 (PStr "a"), sc_leaf 4 (PInt 1))];
                      NMap (sc_inf 5) [(sc_leaf 3 (PStr "a"), sc_leaf 6 (PInt 5))];
                      NMap (sc_inf 7) [(sc_leaf 8 (PStr "b"), sc_leaf 4 (PInt 1))]]) 3 [2%N] [5%N; 7%N].
Proof. vm_compute. split; [eexists; repeat split|split; reflexivity]. Qed.

(* ---- inversion over EVERY data shape, and when a comparison raises ----
   `_get_nodes_by_search` is also handed data that is not a node of the loaded
   document: a Python list the evaluator built (a slice `[0:2]`, the result list
   of a Collector; its elements may be nodes, NodeCoords, nested lists) and a
   NodeCoords.  Spec/SpecC12data.v extends the candidate abstraction to them
   ([scd_cands_of] / [scd_items]: on [RNode n] they ARE [sc_cands_of] /
   [sc_items]; an [RList] is searched by the list loop over its elements; an
   [RCoords] is one candidate, itself, compared through the node it wraps) and
   lists, candidate by candidate, what the comparison does ([sc_cmp]: an answer
   or the exception it raises).  [by_search] refines the loops on every shape: *)
Theorem C12_search_refines_data :
  forall lit re_search nstr vstr rq inv m attr term v c cands,
    scd_cands_of nstr vstr rq attr term v c = Ok cands ->
    sc_refines (by_search lit re_search nstr vstr rq inv m attr term v c)
               (sc_run lit re_search inv m term cands) (scd_items attr v c).
Proof. exact by_search_refines_data. Qed.
Print Assumptions C12_search_refines_data.

(* The stream of a search, EXACTLY, however it ends (guard = finding F12a, about
   HASH candidates of a document only): the verdicts of the answers before the
   first comparison that does not answer ([sc_scan]) select the yielded items;
   the items yielded before a raise stay in the stream; the candidate whose
   comparison raises and all later ones are absent; how the stream ends does
   not depend on the inversion flag. *)
Theorem C12_search_stream_data :
  forall lit re_search nstr vstr rq inv m attr term v c cands,
    scd_cands_of nstr vstr rq attr term v c = Ok cands ->
    sc_guard cands = true ->
    by_search lit re_search nstr vstr rq inv m attr term v c =
    (sc_select (map (verdict inv) (fst (sc_scan (sc_cmp lit re_search m term cands)))) (scd_items attr v c),
     snd (sc_scan (sc_cmp lit re_search m term cands))).
Proof. exact by_search_stream_data. Qed.
Print Assumptions C12_search_stream_data.

(* C12_inversion_doc for every data shape (the RNode case is C12_inversion_doc) *)
Theorem C12_inversion_data :
  forall lit re_search nstr vstr rq m attr term v c cands plain inv,
    scd_cands_of nstr vstr rq attr term v c = Ok cands ->
    sc_guard cands = true ->
    by_search lit re_search nstr vstr rq false m attr term v c = (plain, Done) ->
    by_search lit re_search nstr vstr rq true m attr term v c = (inv, Done) ->
    exists mask,
      sc_matches lit re_search m term cands = Ok mask /\
      List.length mask = List.length (scd_items attr v c) /\
      plain = sc_select mask (scd_items attr v c) /\
      inv = sc_select (map negb mask) (scd_items attr v c).
Proof. exact inversion_data. Qed.
Print Assumptions C12_inversion_data.

(* a list built by the evaluator: NO guard (the list loop only ever looks at
   the first node of an element's descendant search) *)
Theorem C12_inversion_list_data :
  forall lit re_search nstr vstr rq m attr term l c cands plain inv,
    scd_cands_of nstr vstr rq attr term (RList l) c = Ok cands ->
    by_search lit re_search nstr vstr rq false m attr term (RList l) c = (plain, Done) ->
    by_search lit re_search nstr vstr rq true m attr term (RList l) c = (inv, Done) ->
    exists mask,
      sc_matches lit re_search m term cands = Ok mask /\
      List.length mask = List.length (scd_items attr (RList l) c) /\
      plain = sc_select mask (scd_items attr (RList l) c) /\
      inv = sc_select (map negb mask) (scd_items attr (RList l) c).
Proof. exact inversion_list_data. Qed.
Print Assumptions C12_inversion_list_data.

(* a NodeCoords: one candidate, itself, compared through the node it wraps;
   nothing is assumed but that both searches end normally *)
Theorem C12_inversion_coords_data :
  forall lit re_search nstr vstr rq m attr term nd par rf path anc c plain inv,
    let v := RCoords nd par rf path anc in
    let self := ncoords v (x_par c) (x_ref c) (x_tp c) (x_anc c) in
    by_search lit re_search nstr vstr rq false m attr term v c = (plain, Done) ->
    by_search lit re_search nstr vstr rq true m attr term v c = (inv, Done) ->
    exists mt,
      sm lit re_search m term (sc_hay nstr vstr nd) = Ok mt /\
      plain = (if mt then [self] else []) /\
      inv = (if mt then [] else [self]).
Proof. exact inversion_coords_data. Qed.
Print Assumptions C12_inversion_coords_data.

(* ... and as the dispatcher of the query evaluator runs a search segment on
   ANY data it is handed (a NodeCoords is unwrapped once: [unwrap_ctx]) *)
Theorem C12_inversion_data_dispatch :
  forall lit re_search nstr vstr kw_handler self sg_next rqp segs i us sub sub2 m attr term v0 c0 cands plain inv segs',
    let v := fst (unwrap_ctx v0 c0) in
    let c := snd (unwrap_ctx v0 c0) in
    nth_error segs i = Some (PSeg (Some TSearch, ASearch false m attr term) us sub sub2) ->
    nth_error segs' i = Some (PSeg (Some TSearch, ASearch true m attr term) us sub sub2) ->
    scd_cands_of nstr vstr (rqp sub) attr term v c = Ok cands ->
    sc_guard cands = true ->
    dispatch lit re_search nstr vstr kw_handler self sg_next rqp segs i v0 c0 = (plain, Done) ->
    dispatch lit re_search nstr vstr kw_handler self sg_next rqp segs' i v0 c0 = (inv, Done) ->
    exists mask,
      sc_matches lit re_search m term cands = Ok mask /\
      List.length mask = List.length (scd_items attr v c) /\
      plain = sc_select mask (scd_items attr v c) /\
      inv = sc_select (map negb mask) (scd_items attr v c).
Proof. exact inversion_data_dispatch. Qed.
Print Assumptions C12_inversion_data_dispatch.

(* When a comparison raises.  Whichever of the two searches ([inv0]) is seen to
   end with an exception [e]: BOTH end with [e], at the same candidate k --
   candidates 0..k-1 answered [mask], the comparison of candidate k raises [e]
   ([sc_cmp] = the k answers, then [Raise e]), later candidates are never
   compared -- and on the candidates before k the inverted search has yielded
   exactly those the plain search has not, in candidate order. *)
Theorem C12_inversion_doc_raises :
  forall lit re_search nstr vstr rq inv0 m attr term n c cands e,
    sc_cands_of nstr vstr rq attr term n c = Ok cands ->
    sc_guard cands = true ->
    snd (by_search lit re_search nstr vstr rq inv0 m attr term (RNode n) c) = Err e ->
    exists k mask rest,
      List.length mask = k /\ k < List.length (sc_items attr n c) /\
      sc_cmp lit re_search m term cands = (map (@Ok bool) mask ++ Raise e :: rest)%list /\
      by_search lit re_search nstr vstr rq false m attr term (RNode n) c =
        (sc_select mask (firstn k (sc_items attr n c)), Err e) /\
      by_search lit re_search nstr vstr rq true m attr term (RNode n) c =
        (sc_select (map negb mask) (firstn k (sc_items attr n c)), Err e).
Proof. exact inversion_doc_raises. Qed.
Print Assumptions C12_inversion_doc_raises.

(* the same for every data shape *)
Theorem C12_inversion_data_raises :
  forall lit re_search nstr vstr rq inv0 m attr term v c cands e,
    scd_cands_of nstr vstr rq attr term v c = Ok cands ->
    sc_guard cands = true ->
    snd (by_search lit re_search nstr vstr rq inv0 m attr term v c) = Err e ->
    exists k mask rest,
      List.length mask = k /\ k < List.length (scd_items attr v c) /\
      sc_cmp lit re_search m term cands = (map (@Ok bool) mask ++ Raise e :: rest)%list /\
      by_search lit re_search nstr vstr rq false m attr term v c =
        (sc_select mask (firstn k (scd_items attr v c)), Err e) /\
      by_search lit re_search nstr vstr rq true m attr term v c =
        (sc_select (map negb mask) (firstn k (scd_items attr v c)), Err e).
Proof. exact inversion_data_raises. Qed.
Print Assumptions C12_inversion_data_raises.

(* ---- non-vacuity of the data-shape / raising theorems: the hypotheses hold
   ([scd_cands_of] = Ok, guard, candidate count, what every comparison does) and
   this is what the two streams are -- yielded NodeCoords shown as (identity of
   the document node finally wrapped, parentref), and how the stream ends.
   Every case was replayed on the real Processor.get_nodes (docs/C12.md). ---- *)
Definition ex_data_check (re : string -> string -> outcome reres) (rq : rval -> ctx -> gen rval)
           (m : smethod) (attr term : string) (vc : rval * ctx) (count : nat) (cmps : list (outcome bool))
           (want_plain want_inv : list (N * option pyval)) (st : stop) : Prop :=
  bind (scd_cands_of sc_demo_nstr sc_demo_vstr rq attr term (fst vc) (snd vc))
       (fun cands => Ok (sc_guard cands, sc_count cands, sc_cmp sc_demo_lit re m term cands))
  = Ok (true, count, cmps) /\
  (let g := by_search sc_demo_lit re sc_demo_nstr sc_demo_vstr rq false m attr term (fst vc) (snd vc) in
   (scd_ids (fst g), snd g) = (want_plain, st)) /\
  (let g := by_search sc_demo_lit re sc_demo_nstr sc_demo_vstr rq true m attr term (fst vc) (snd vc) in
   (scd_ids (fst g), snd g) = (want_inv, st)).

(* {x: [1, 5, 1, abc]}: the data `/x[0:3]` hands on is a list the evaluator
   built, of three NodeCoords; `[.=1]` yields elements 0 and 2, `[.!=1]` element 1 *)
Example C12_ex_data_slice :
  (exists l, fst (scd_data_at "/x[0:3]" scd_doc_slice) = RList l /\ List.length l = 3 /\
             forallb (fun e => match e with RCoords _ _ _ _ _ => true | _ => false end) l = true) /\
  ex_data_check scd_demo_re ex_rq0 MEquals "." "1" (scd_data_at "/x[0:3]" scd_doc_slice) 3
    [Ok true; Ok false; Ok true]
    [(4%N, Some (PInt 0)); (4%N, Some (PInt 2))] [(5%N, Some (PInt 1))] Done.
Proof. vm_compute. split; [eexists; repeat split|]. split; [reflexivity|split; reflexivity]. Qed.
(* the same through the whole evaluator: Processor.get_nodes("/x[0:3][.=1]") / ("/x[0:3][.!=1]") *)
Example C12_ex_data_slice_e2e :
  (let g := scd_run "/x[0:3][.=1]" scd_doc_slice in (scd_ids (fst g), snd g)) =
    ([(4%N, Some (PInt 0)); (4%N, Some (PInt 2))], Done) /\
  (let g := scd_run "/x[0:3][.!=1]" scd_doc_slice in (scd_ids (fst g), snd g)) =
    ([(5%N, Some (PInt 1))], Done).
Proof. vm_compute. split; reflexivity. Qed.
(* {x: [{b: 1}, {a: 2}, {c: 3}]}, the Collector `(/x[0])+(/x[1])+(/x[2])` then `[a=2]`: the
   elements are NodeCoords, so every one is searched by descent *)
Example C12_ex_data_collector :
  ex_data_check scd_demo_re (sc_demo_rq "a") MEquals "a" "2"
    (scd_data_at "(/x[0])+(/x[1])+(/x[2])" scd_doc_attr) 3
    [Ok false; Ok true; Ok false]
    [(7%N, Some (PInt 1))] [(4%N, Some (PInt 0)); (10%N, Some (PInt 2))] Done.
Proof. vm_compute. split; [reflexivity|split; reflexivity]. Qed.
(* a NodeCoords as data: one candidate, compared through the node it wraps *)
Example C12_ex_data_coords :
  ex_data_check scd_demo_re ex_rq0 MEquals "." "1"
    (RCoords (RNode (sc_leaf 4 (PInt 1))) None None "" [], root_ctx) 1 [Ok true]
    [(4%N, None)] [] Done.
Proof. vm_compute. split; [reflexivity|split; reflexivity]. Qed.
(* [{'(': 1}, {b: 2}, {c: 3}] with `[.=~/(/]` (a pattern `re` rejects): candidate 0
   matches by the Array-of-Hashes key-name shortcut without any comparison,
   the comparison of candidate 1 raises: the plain search has yielded element 0,
   the inverted search nothing, both end with the exception *)
Example C12_ex_doc_raises :
  ex_data_check scd_demo_re ex_rq0 MRegex "." "(" (RNode scd_seq_regex, root_ctx) 3
    [Ok true; Raise (YPE Generic); Raise (YPE Generic)]
    [(4%N, Some (PInt 0))] [] (Err (YPE Generic)).
Proof. vm_compute. split; [reflexivity|split; reflexivity]. Qed.
(* {x: [{b: 1}, {a: 2}, {c: 3}]}, `/x[0:3]` then `[a!=~/(/]`: the descendant search finds
   nothing in element 0 (no comparison: not a match, yielded by the inverted
   search), the comparison at element 1 raises *)
Example C12_ex_data_raises :
  ex_data_check scd_demo_re (sc_demo_rq "a") MRegex "a" "(" (scd_data_at "/x[0:3]" scd_doc_attr) 3
    [Ok false; Raise (YPE Generic); Ok false]
    [] [(4%N, Some (PInt 0))] (Err (YPE Generic)).
Proof. vm_compute. split; [reflexivity|split; reflexivity]. Qed.

(* Every remaining statement of this file, so that none is left unaudited. *)
Print Assumptions C12_list_pointwise_refuted_before_fix.
