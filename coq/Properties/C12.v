(* C12 -- Search operators compare values by the documented typed rules; an
   inverted search yields exactly the candidates the plain search does not.
   Statements only; proofs in Proofs/SearchProofs.v.

   Every theorem quantifies over ALL oracles [lit] (ast.literal_eval) and
   [re_search] (re.compile(p).search(s)), all haystacks [h] (any scalar, or a
   ruamel ScalarBoolean) and all term texts [needle].  [th]/[tn] are the typed
   readings of value and term (Nodes.typed_value). *)
From Coq Require Import List Ascii String ZArith QArith Bool.
From YP Require Import Outcome PyStr PyVal PathParser Searches SearchLoops SpecC12 SearchProofs.
Import ListNotations.
Open Scope string_scope.

(* equality: numeric for two numbers of the same kind, textual otherwise *)
Theorem C12_equals :
  forall lit re_search needle h th tn,
    typed_haystack lit h = Ok th -> typed_value lit (PStr needle) = Ok tn ->
    search_matches_h lit re_search MEquals needle h = Ok (spec_equals th tn needle).
Proof. exact sm_equals. Qed.
Print Assumptions C12_equals.

(* booleans (plain and anchored) match their case-insensitive spellings *)
Theorem C12_bool_spellings :
  forall lit re_search needle b hb h,
    lit "True" = Ok (LVal (PBool true)) -> lit "False" = Ok (LVal (PBool false)) ->
    bool_spelling needle = Some b ->
    h = HVal (PBool hb) \/ h = HSBool hb ->
    search_matches_h lit re_search MEquals needle h = Ok (Bool.eqb hb b).
Proof. exact sm_bool_spellings. Qed.
Print Assumptions C12_bool_spellings.

(* prefix / suffix / substring act on the value's text *)
Theorem C12_prefix_suffix_contains :
  forall lit re_search needle h th tn,
    typed_haystack lit h = Ok th -> typed_value lit (PStr needle) = Ok tn ->
    search_matches_h lit re_search MStartsWith needle h = Ok (starts_with needle (py_str th)) /\
    search_matches_h lit re_search MEndsWith needle h = Ok (ends_with needle (py_str th)) /\
    search_matches_h lit re_search MContains needle h = Ok (str_contains needle (py_str th)).
Proof. exact sm_prefix_suffix_contains. Qed.
Print Assumptions C12_prefix_suffix_contains.

(* ordering of a numeric value: numeric against a numeric term, false otherwise *)
Theorem C12_order_numeric :
  forall lit re_search o needle h th tn a,
    typed_haystack lit h = Ok th -> typed_value lit (PStr needle) = Ok tn ->
    num_of th = Some a ->
    search_matches_h lit re_search (method_of_ordop o) needle h =
      Ok (match num_of tn with Some b => num_rel o a b | None => false end).
Proof. exact sm_order_numeric. Qed.
Print Assumptions C12_order_numeric.

(* ordering of text: lexicographic on the value's text against the term's text *)
Theorem C12_order_text :
  forall lit re_search o needle h th tn,
    typed_haystack lit h = Ok th -> typed_value lit (PStr needle) = Ok tn ->
    num_of th = None ->
    search_matches_h lit re_search (method_of_ordop o) needle h = Ok (text_rel o (py_str th) needle).
Proof. exact sm_order_text. Qed.
Print Assumptions C12_order_text.

(* a regular expression is SEARCHED in the value's text (anchoring is the
   oracle's business: the model hands it the unmodified pattern and text) *)
Theorem C12_regex :
  forall lit re_search needle h th tn,
    typed_haystack lit h = Ok th -> typed_value lit (PStr needle) = Ok tn ->
    search_matches_h lit re_search MRegex needle h =
      (do r <- re_search needle (py_str th);
       match r with RMatch b => Ok b | RError => Raise (YPE Generic) end).
Proof. exact sm_regex. Qed.
Print Assumptions C12_regex.

(* the nine operators at once, against the table of Spec/C12.v *)
Theorem C12_table :
  forall lit re_search m needle h th tn,
    typed_haystack lit h = Ok th -> typed_value lit (PStr needle) = Ok tn ->
    match spec_answer m th tn needle with
    | SBool b => search_matches_h lit re_search m needle h = Ok b
    | SRegex =>
        search_matches_h lit re_search m needle h =
          (do r <- re_search needle (py_str th);
           match r with RMatch b => Ok b | RError => Raise (YPE Generic) end)
    end.
Proof. exact sm_table. Qed.
Print Assumptions C12_table.

(* the comparison never raises for a well-formed term: literal_eval answers
   (with a value, or one of the exception classes typed_value catches) and,
   for =~, the pattern compiles *)
Theorem C12_never_raises :
  forall lit re_search m needle h,
    (forall s, lit_answers lit s) ->
    (m = MRegex -> forall text, exists b, re_search needle text = Ok (RMatch b)) ->
    exists b, search_matches_h lit re_search m needle h = Ok b.
Proof. exact sm_never_raises. Qed.
Print Assumptions C12_never_raises.

(* ---- inversion, for each candidate loop of Processor._get_nodes_by_search ---- *)

(* list elements: the yield of every element depends on that element alone ... *)
Theorem C12_list_pointwise :
  forall lit re_search invert m term cs res,
    list_loop lit re_search invert m term cs = Ok res ->
    (forall i, In i res -> i < List.length cs) /\
    forall i c, nth_error cs i = Some c ->
      exists mt, lcand_match lit re_search m term c = Ok mt /\ (In i res <-> verdict invert mt = true).
Proof. exact list_loop_pointwise. Qed.
Print Assumptions C12_list_pointwise.

(* ... and the inverted search yields exactly the elements the plain one does not *)
Theorem C12_inversion_list :
  forall lit re_search m term cs plain inv,
    list_loop lit re_search false m term cs = Ok plain ->
    list_loop lit re_search true m term cs = Ok inv ->
    complement (List.length cs) plain inv.
Proof. exact list_loop_complement. Qed.
Print Assumptions C12_inversion_list.

(* hash keys on '.' *)
Theorem C12_inversion_keys :
  forall lit re_search m term keys plain inv,
    keys_loop lit re_search false m term keys = Ok plain ->
    keys_loop lit re_search true m term keys = Ok inv ->
    complement (List.length keys) plain inv.
Proof. exact each_loop_complement. Qed.
Print Assumptions C12_inversion_keys.

(* set members *)
Theorem C12_inversion_set :
  forall lit re_search m term members plain inv,
    set_loop lit re_search false m term members = Ok plain ->
    set_loop lit re_search true m term members = Ok inv ->
    complement (List.length members) plain inv.
Proof. exact each_loop_complement. Qed.
Print Assumptions C12_inversion_set.

(* hash attribute *)
Theorem C12_inversion_attr :
  forall lit re_search m term v plain inv,
    attr_site lit re_search false m term v = Ok plain ->
    attr_site lit re_search true m term v = Ok inv ->
    complement 1 plain inv.
Proof. exact single_site_complement. Qed.
Print Assumptions C12_inversion_attr.

(* scalar self *)
Theorem C12_inversion_self :
  forall lit re_search m term v plain inv,
    self_site lit re_search false m term v = Ok plain ->
    self_site lit re_search true m term v = Ok inv ->
    complement 1 plain inv.
Proof. exact single_site_complement. Qed.
Print Assumptions C12_inversion_self.

(* hash without the attribute (descendant search): full statement is FALSE of
   the code -- when the attribute path reaches several nodes the code yields the
   hash if ANY node passes the (possibly inverted) comparison, so a hash with
   one node equal to the term and one not is yielded by both searches (known
   finding F12a).  Guard: the attribute path reaches at most one node. *)
Theorem C12_inversion_desc_partial :
  forall lit re_search m term ds plain inv,
    List.length ds <= 1 ->
    desc_site lit re_search false m term ds = Ok plain ->
    desc_site lit re_search true m term ds = Ok inv ->
    complement 1 plain inv.
Proof. exact desc_site_complement. Qed.
Print Assumptions C12_inversion_desc_partial.

Theorem C12_inversion_desc_refuted :
  exists m term ds plain inv,
    desc_site demo_lit demo_re false m term ds = Ok plain /\
    desc_site demo_lit demo_re true m term ds = Ok inv /\
    ~ complement 1 plain inv.
Proof. exact desc_site_complement_refuted. Qed.
Print Assumptions C12_inversion_desc_refuted.

(* the code BEFORE the fix "reset the match flag for every list element"
   (DESIGN section 5 defect #8): an element in which the descendant search found
   nothing was yielded by a plain search when its predecessor matched.  Kept as
   the record of what the fix repaired; C12_list_pointwise is about the code
   as it is now. *)
Theorem C12_list_pointwise_refuted_before_fix :
  exists m term cs res,
    list_loop_before_fix demo_lit demo_re false m term cs = Ok res /\
    nth_error cs 1 = Some (LDesc []) /\ In 1 res.
Proof. exact list_loop_before_fix_stale. Qed.

(* ---- non-vacuity ---- *)
Definition ex_lit := lit_of_table
  [("1", LVal (PInt 1)); ("5", LVal (PInt 5)); ("5.0", LVal (PFloat (5 # 1) "5.0")); ("abc", LFail);
   ("True", LVal (PBool true)); ("False", LVal (PBool false)); ("b", LFail); ("^b", LFail); ("{[1]: 2}", LCrash TypeError)].
Definition ex_re := re_of_table [("b", "abc", RMatch true); ("^b", "abc", RMatch false)].

(* hypotheses of C12_equals hold and both branches of the rule occur *)
Example C12_ex_equals_numeric :
  typed_haystack ex_lit (HVal (PStr "5")) = Ok (PInt 5) /\ typed_value ex_lit (PStr "5") = Ok (PInt 5) /\
  search_matches_h ex_lit ex_re MEquals "5" (HVal (PStr "5")) = Ok true.
Proof. vm_compute. repeat split; reflexivity. Qed.
Example C12_ex_equals_textual_int_vs_float :
  search_matches_h ex_lit ex_re MEquals "5.0" (HVal (PInt 5)) = Ok false.
Proof. vm_compute. reflexivity. Qed.
Example C12_ex_bool_spelling_anchored :
  bool_spelling "tRuE" = Some true /\
  search_matches_h ex_lit ex_re MEquals "tRuE" (HSBool true) = Ok true.
Proof. vm_compute. split; reflexivity. Qed.
Example C12_ex_order_numeric_vs_text :
  search_matches_h ex_lit ex_re MGt "abc" (HVal (PInt 5)) = Ok false /\
  search_matches_h ex_lit ex_re MLe "abc" (HVal (PInt 5)) = Ok false /\
  search_matches_h ex_lit ex_re MGe "5.0" (HVal (PInt 5)) = Ok true.
Proof. vm_compute. repeat split; reflexivity. Qed.
Example C12_ex_order_text :
  num_of (PStr "abc") = None /\ search_matches_h ex_lit ex_re MGt "b" (HVal (PStr "abc")) = Ok false.
Proof. vm_compute. split; reflexivity. Qed.
Example C12_ex_regex_searched_not_anchored :
  search_matches_h ex_lit ex_re MRegex "b" (HVal (PStr "abc")) = Ok true /\
  search_matches_h ex_lit ex_re MRegex "^b" (HVal (PStr "abc")) = Ok false.
Proof. vm_compute. split; reflexivity. Qed.
(* a term literal_eval rejects with TypeError is read as text *)
Example C12_ex_unhashable_literal_term :
  search_matches_h ex_lit ex_re MEquals "{[1]: 2}" (HVal (PStr "abc")) = Ok false.
Proof. vm_compute. reflexivity. Qed.
(* hypotheses of the inversion theorems hold on a non-trivial list: a matching
   attribute, a non-matching one, a descendant search that finds nothing *)
Example C12_ex_inversion_list :
  list_loop ex_lit ex_re false MEquals "1" [LAttr (HVal (PInt 1)); LAttr (HVal (PInt 5)); LDesc []] = Ok [0] /\
  list_loop ex_lit ex_re true MEquals "1" [LAttr (HVal (PInt 1)); LAttr (HVal (PInt 5)); LDesc []] = Ok [1; 2].
Proof. vm_compute. split; reflexivity. Qed.
Example C12_ex_inversion_desc :
  desc_site ex_lit ex_re false MEquals "1" [HVal (PInt 1)] = Ok [0] /\
  desc_site ex_lit ex_re true MEquals "1" [HVal (PInt 1)] = Ok [] /\
  desc_site ex_lit ex_re true MEquals "1" [] = Ok [0].
Proof. vm_compute. repeat split; reflexivity. Qed.
