(* C19 -- EYAML key rotation re-keys every secret once and touches nothing else.
   Statements only; model Model/Eyaml.v (module Ey), notions Spec/C19Spec.v,
   proofs Proofs/EyamlProofs.v.

   What is proved, for EVERY value / document / cipher obeying the stated laws:
   the marker rule; that a document without encrypted values is left alone (no
   rewrite, no backup: r_changed = false); and, per value, that what the tool
   stores after decrypt-with-old / encrypt-with-new is an encrypted value that
   decrypts under the new key to the same plaintext and is refused under the
   old key -- under the guard [plain_ok] on the plaintext, whose complement is
   the known finding F19a (witnesses below).
   Document level (second half of this file): for EVERY loaded document
   ([loaded_doc]: identity-consistent, fresh [next], proper keys, container at the
   root), every cipher obeying the laws [cipher_laws] and every successful run:
   C19_rekeyed_partial / C19_old_key_dead_partial at every encrypted value
   position, C19_shared_once, C19_frame; the invariant [Inv] and its preservation
   by one replacement (C19_inv_step) and by the run (C19_inv_run). *)
From Coq Require Import List Ascii String NArith Bool.
From YP Require Import Outcome PyStr PyVal Doc Eyaml C19Spec C19DocSpec C19FilesSpec C19InvB EyamlProofs EyamlSubst EyamlDoc EyamlFinal EyamlFiles EyamlCount EyamlInvB.
Import ListNotations.
Open Scope string_scope.
Import Ey.

(* "A value is treated as encrypted exactly when, ignoring whitespace and line
   breaks, it begins with the ENC[ marker" (whitespace = blank and line feed,
   the two characters YAML folding puts into a ciphertext) *)
Theorem C19_marker :
  forall v : pyval,
    is_eyaml_value v = true <-> exists s, v = PStr s /\ begins_ignoring_blanks marker s.
Proof. exact marker_rule_value. Qed.
Print Assumptions C19_marker.

(* "a file holding no such value is neither rewritten nor backed up": the run
   ends with file_changed = False, exit_state 0 and the document as loaded; with
   Sv.plan_of (CRotate backup false) = no I/O call at all (C17) *)
Theorem C19_untouched_if_none :
  forall (key : Type) (enc dec : key -> string -> option string) (layout : out_fmt -> string -> string)
         (oldk newk : key) (d : node) (next : N) (folded : list N),
    has_secret d = false ->
    rotate_file key enc dec layout oldk newk d next folded = Ok (mkrs d [] false 0 next folded []).
Proof. exact untouched_if_none. Qed.
Print Assumptions C19_untouched_if_none.

(* per value: re-keyed, and dead under the old key (guard: plain_ok) *)
Theorem C19_rekeyed_value_partial :
  forall (key : Type) (enc dec : key -> string -> option string) (layout : out_fmt -> string -> string)
         (oldk newk : key),
    (forall k p c, enc k p = Some c -> dec k c = Some p) ->
    (forall k k' p c, k <> k' -> enc k p = Some c -> dec k' c = None) ->
    (forall k p c, enc k p = Some c -> cipher_ok c = true) ->
    (forall fmt c, cipher_ok c = true ->
        exists stored, post_encrypt fmt (layout fmt c) = Ok stored /\ clean stored = c) ->
    forall (p : string) (fmt : out_fmt) (stored : string),
      plain_ok p = true ->
      encrypt_eyaml key enc layout newk p fmt = Ok stored ->
      is_eyaml_str stored = true
      /\ decrypt_eyaml key dec newk (PStr stored) = Ok (PStr p)
      /\ (oldk <> newk -> decrypt_eyaml key dec oldk (PStr stored) = Raise EyamlExc).
Proof. exact rekey_value. Qed.
Print Assumptions C19_rekeyed_value_partial.

(* the plaintext handed to `encrypt` is the plaintext the value had under the old key *)
Theorem C19_old_plaintext_forwarded_partial :
  forall (key : Type) (dec : key -> string -> option string) (oldk : key) (s c p : string),
    is_eyaml_str s = true -> rstrip_py (clean s) = c -> is_ascii_str c = true ->
    dec oldk c = Some p -> plain_ok p = true -> p <> c ->
    decrypt_eyaml key dec oldk (PStr s) = Ok (PStr p).
Proof. exact decrypt_old_value. Qed.
Print Assumptions C19_old_plaintext_forwarded_partial.

(* a node whose Anchor was already seen is skipped: rotated once *)
Theorem C19_shared_once_step :
  forall (key : Type) (enc dec : key -> string -> option string) (layout : out_fmt -> string -> string)
         (oldk newk : key) (st : rstate) (p : ypath) (l : loc) (i : info) (v : pyval) (a : string),
    lookup (r_doc st) l = Some (NLeaf i v) -> anchor_name (NLeaf i v) = Some a ->
    mem_string a (r_seen st) = true ->
    rotate_at key enc dec layout oldk newk st p l = Ok st.
Proof. exact rotate_at_seen_skip. Qed.
Print Assumptions C19_shared_once_step.

(* seen_anchors, the list of Anchor names whose object was handed to decrypt,
   never holds a name twice: with the previous theorem, an anchored value is
   processed at most once per run, however many aliases it has *)
Theorem C19_shared_once_anchors :
  forall (key : Type) (enc dec : key -> string -> option string) (layout : out_fmt -> string -> string)
         (oldk newk : key) (d : node) (next : N) (folded : list N) (st : rstate),
    rotate_file key enc dec layout oldk newk d next folded = Ok st -> NoDup (r_seen st).
Proof. exact seen_anchors_nodup. Qed.
Print Assumptions C19_shared_once_anchors.

(* known finding F19a: without the guard the statement is false *)
Theorem C19_rekeyed_refuted_trailing_space :
  forall (key : Type) (dec : key -> string -> option string) (k : key) (s c : string),
    clean s = c -> cipher_ok c = true ->
    dec k c = Some ("secret" ++ String (ch 10) EmptyString)%string ->
    decrypt_eyaml key dec k (PStr s) = Ok (PStr "secret").
Proof. exact trailing_newline_lost. Qed.

Theorem C19_rekeyed_refuted_marker_plaintext :
  forall (key : Type) (enc : key -> string -> option string) (layout : out_fmt -> string -> string)
         (k : key) (fmt : out_fmt),
    encrypt_eyaml key enc layout k "ENC[looks encrypted]" fmt = Ok "ENC[looks encrypted]".
Proof. exact marker_plaintext_stored_in_clear. Qed.

(* ---- non-vacuity ---------------------------------------------------------------------- *)

Example C19_ex_marker_folded :
  is_eyaml_value (PStr (" EN" ++ String (ch 10) "C[PKCS7,abc]")) = true
  /\ is_eyaml_value (PStr "xENC[") = false /\ is_eyaml_value PNone = false.
Proof. repeat split. Qed.

Example C19_ex_guards : plain_ok "s3cret" = true /\ cipher_ok "ENC[PKCS7,hdL+xKijjA==]" = true
                        /\ plain_ok ("secret" ++ String (ch 10) EmptyString) = false
                        /\ plain_ok "ENC[looks encrypted]" = false.
Proof. vm_compute. repeat split. Qed.

(* the layout hypothesis is met by the stand-in's block layout (indent 4, one line) *)
Example C19_ex_layout :
  post_encrypt OBlock ("    ENC[PKCS7,abc]" ++ String (ch 10) EmptyString)
    = Ok ("ENC[PKCS7,abc]" ++ String (ch 10) EmptyString)%string
  /\ clean ("ENC[PKCS7,abc]" ++ String (ch 10) EmptyString) = "ENC[PKCS7,abc]".
Proof. vm_compute. split; reflexivity. Qed.

(* a whole run on a toy cipher: an anchored secret in a hash with its alias in a
   list elsewhere -- one decryption, one encryption, both places share the new
   object, the anchor survives *)
Definition toy_enc (k p : string) : option string :=
  if String.eqb k "new" && String.eqb p "one" then Some "ENC[N,one]" else None.
Definition toy_dec (k c : string) : option string :=
  if String.eqb k "old" && String.eqb c "ENC[O,one]" then Some "one"
  else if String.eqb k "new" && String.eqb c "ENC[N,one]" then Some "one" else None.
Definition toy_layout (f : out_fmt) (c : string) : string := (c ++ String (ch 10) EmptyString)%string.
Definition toy_leaf (o : N) (a : option string) (s : string) : node := NLeaf (mkinfo o a true None) (PStr s).
Definition toy_key (o : N) (s : string) : node := NLeaf (mkinfo o None false None) (PStr s).
Definition toy_doc (secret : node) : node :=
  NMap (mkinfo 0 None true None)
       [(toy_key 1 "a", secret);
        (toy_key 3 "l", NSeq (mkinfo 4 None true None) [secret; toy_key 5 "plain"])].

Example C19_ex_rotation :
  rotate_file string toy_enc toy_dec toy_layout "old" "new" (toy_doc (toy_leaf 2 (Some "x") "ENC[O,one]")) 10 []
  = Ok (mkrs (toy_doc (toy_leaf 10 (Some "x") "ENC[N,one]")) ["x"] true 0 11 [] [(2%N, "one", "ENC[N,one]")]).
Proof. vm_compute. reflexivity. Qed.

(* ======================================================================================== *)
(* Document level.                                                                           *)

(* "ignoring whitespace and line breaks, it begins with the ENC[ marker", for every value *)
Theorem C19_marker_all :
  forall v : pyval,
    is_eyaml_value v = match v with PStr s => starts_with marker (strip_ws s) | _ => false end.
Proof. exact marker_all. Qed.
Print Assumptions C19_marker_all.

(* the identity-consistency / freshness invariant survives one replacement
   (Processor.set_value at one matched location: the leaf there and, when it can
   carry an Anchor, every alias of it give way to ONE new object) ... *)
Theorem C19_inv_step :
  forall (st : rstate) (l : loc) (value : string) (fmt : out_fmt) (st' : rstate),
    Inv (r_doc st) (r_next st) -> is_leaf (r_doc st) = false -> (forall m, ~ In (RMember m) l) ->
    set_at st l value fmt = Ok st' ->
    Inv (r_doc st') (r_next st') /\ is_leaf (r_doc st') = false.
Proof. exact set_at_inv. Qed.
Print Assumptions C19_inv_step.

(* ... and the whole run of one file *)
Theorem C19_inv_run :
  forall (key : Type) (enc dec : key -> string -> option string) (layout : out_fmt -> string -> string)
         (oldk newk : key),
    cipher_laws key enc dec layout -> oldk <> newk ->
    forall (d : node) (next : N) (folded : list N) (st : rstate),
      loaded_doc d next ->
      rotate_file key enc dec layout oldk newk d next folded = Ok st ->
      Inv (r_doc st) (r_next st).
Proof. exact stmt_inv_run. Qed.
Print Assumptions C19_inv_run.

(* "every non-encrypted key, value, ordering and anchor is unchanged": the document
   written is the document loaded with exactly the encrypted leaves substituted,
   each by an encrypted scalar carrying the same Anchor (whatever the exit status) *)
Theorem C19_frame :
  forall (key : Type) (enc dec : key -> string -> option string) (layout : out_fmt -> string -> string)
         (oldk newk : key),
    cipher_laws key enc dec layout -> oldk <> newk ->
    forall (d : node) (next : N) (folded : list N) (st : rstate),
      loaded_doc d next ->
      rotate_file key enc dec layout oldk newk d next folded = Ok st ->
      rotated frame_leaf d (r_doc st) /\ frame_of (r_doc st) = frame_of d.
Proof. exact stmt_frame. Qed.
Print Assumptions C19_frame.

(* "values shared through an anchor are rotated once and stay shared": two places
   that held ONE anchored encrypted object hold ONE object afterwards, again
   encrypted and under the same Anchor; no Anchor is handed to the cipher twice *)
Theorem C19_shared_once :
  forall (key : Type) (enc dec : key -> string -> option string) (layout : out_fmt -> string -> string)
         (oldk newk : key),
    cipher_laws key enc dec layout -> oldk <> newk ->
    forall (d : node) (next : N) (folded : list N) (st : rstate),
      loaded_doc d next ->
      rotate_file key enc dec layout oldk newk d next folded = Ok st ->
      (forall l1 l2 x a, (forall m, ~ In (RMember m) l1) -> (forall m, ~ In (RMember m) l2) ->
         lookup d l1 = Some x -> lookup d l2 = Some x -> is_eyaml_node x = true -> anchor_name x = Some a ->
         exists y, lookup (r_doc st) l1 = Some y /\ lookup (r_doc st) l2 = Some y /\
                   anchor_name y = Some a /\ is_eyaml_node y = true)
      /\ NoDup (r_seen st).
Proof. exact stmt_shared. Qed.
Print Assumptions C19_shared_once.

(* "every encrypted value decrypts under the new keys to the same plaintext it had
   under the old keys": every value position of every document (guard plain_ok on
   the plaintext = known finding F19a) *)
Theorem C19_rekeyed_partial :
  forall (key : Type) (enc dec : key -> string -> option string) (layout : out_fmt -> string -> string)
         (oldk newk : key),
    cipher_laws key enc dec layout -> oldk <> newk ->
    forall (d : node) (next : N) (folded : list N) (st : rstate),
      loaded_doc d next ->
      rotate_file key enc dec layout oldk newk d next folded = Ok st ->
      r_exit st = 0 ->
      forall l i s, In l (positions d) -> lookup d l = Some (NLeaf i (PStr s)) -> is_eyaml_str s = true ->
        exists i' s' p, lookup (r_doc st) l = Some (NLeaf i' (PStr s')) /\
          decrypt_eyaml key dec oldk (PStr s) = Ok (PStr p) /\
          (plain_ok p = true -> decrypt_eyaml key dec newk (PStr s') = Ok (PStr p)).
Proof. exact stmt_rekeyed. Qed.
Print Assumptions C19_rekeyed_partial.

(* "... and no longer decrypts under the old ones" *)
Theorem C19_old_key_dead_partial :
  forall (key : Type) (enc dec : key -> string -> option string) (layout : out_fmt -> string -> string)
         (oldk newk : key),
    cipher_laws key enc dec layout -> oldk <> newk ->
    forall (d : node) (next : N) (folded : list N) (st : rstate),
      loaded_doc d next ->
      rotate_file key enc dec layout oldk newk d next folded = Ok st ->
      r_exit st = 0 ->
      forall l i s, In l (positions d) -> lookup d l = Some (NLeaf i (PStr s)) -> is_eyaml_str s = true ->
        exists i' s' p, lookup (r_doc st) l = Some (NLeaf i' (PStr s')) /\ is_eyaml_str s' = true /\
          decrypt_eyaml key dec oldk (PStr s) = Ok (PStr p) /\
          (plain_ok p = true -> decrypt_eyaml key dec oldk (PStr s') = Raise EyamlExc).
Proof. exact stmt_old_key_dead. Qed.
Print Assumptions C19_old_key_dead_partial.

(* a document that is one encrypted scalar is outside [loaded_doc]: it is never searched *)
Example C19_ex_root_scalar_not_rotated :
  forall (key : Type) (enc dec : key -> string -> option string) (layout : out_fmt -> string -> string)
         (oldk newk : key) (i : info),
    rotate_file key enc dec layout oldk newk (NLeaf i (PStr "ENC[O,one]")) 10 []
    = Ok (mkrs (NLeaf i (PStr "ENC[O,one]")) [] false 0 10 [] []).
Proof. reflexivity. Qed.

(* ---- non-vacuity of the document-level theorems ------------------------------------------- *)
(* a toy cipher that obeys the laws: three plaintexts, two keys *)
Definition toy3_enc (k p : string) : option string :=
  if String.eqb k "new" then
    if String.eqb p "one" then Some "ENC[N,one]"
    else if String.eqb p "two" then Some "ENC[N,two]"
    else if String.eqb p "three" then Some "ENC[N,three]" else None
  else None.
Definition toy3_dec (k c : string) : option string :=
  if String.eqb k "old" then
    if String.eqb c "ENC[O,one]" then Some "one"
    else if String.eqb c "ENC[O,two]" then Some "two"
    else if String.eqb c "ENC[O,three]" then Some "three" else None
  else if String.eqb k "new" then
    if String.eqb c "ENC[N,one]" then Some "one"
    else if String.eqb c "ENC[N,two]" then Some "two"
    else if String.eqb c "ENC[N,three]" then Some "three" else None
  else None.

Example C19_ex_toy_laws : cipher_laws string toy3_enc toy3_dec toy_layout.
Proof.
  assert (T : forall k p c, toy3_enc k p = Some c ->
            k = "new" /\ ((p = "one" /\ c = "ENC[N,one]") \/ (p = "two" /\ c = "ENC[N,two]") \/ (p = "three" /\ c = "ENC[N,three]"))).
  { intros k p c H; unfold toy3_enc in H.
    destruct (String.eqb k "new") eqn:K; [|discriminate H]. apply String.eqb_eq in K. split; [exact K|].
    destruct (String.eqb p "one") eqn:P1; [apply String.eqb_eq in P1; inversion H; left; split; [exact P1 | reflexivity]|].
    destruct (String.eqb p "two") eqn:P2; [apply String.eqb_eq in P2; inversion H; right; left; split; [exact P2 | reflexivity]|].
    destruct (String.eqb p "three") eqn:P3; [apply String.eqb_eq in P3; inversion H; right; right; split; [exact P3 | reflexivity]|].
    discriminate H. }
  repeat split.
  - intros k p c H. destruct (T k p c H) as [-> [[-> ->]|[[-> ->]|[-> ->]]]]; reflexivity.
  - intros k k' p c Hk H. destruct (T k p c H) as [-> Hc]. unfold toy3_dec.
    destruct (String.eqb k' "new") eqn:K'; [apply String.eqb_eq in K'; subst k'; exfalso; apply Hk; reflexivity|].
    destruct (String.eqb k' "old"); [|reflexivity].
    destruct Hc as [[_ ->]|[[_ ->]|[_ ->]]]; reflexivity.
  - intros k p c H. destruct (T k p c H) as [_ [[_ ->]|[[_ ->]|[_ ->]]]]; vm_compute; reflexivity.
  - intros k p c fmt H. destruct (T k p c H) as [_ [[_ ->]|[[_ ->]|[_ ->]]]]; destruct fmt; eexists; vm_compute; split; reflexivity.
Qed.

(* a plain value, two secrets, an anchored secret with two aliases (one object: identity 8) *)
Definition toy3_shared : node := toy_leaf 8 (Some "x") "ENC[O,three]".
Definition toy3_doc (s1 s2 sh : node) : node :=
  NMap (mkinfo 0 None true None)
       [(toy_key 1 "plain", toy_key 2 "value");
        (toy_key 3 "s1", s1);
        (toy_key 5 "s2", s2);
        (toy_key 7 "l", NSeq (mkinfo 9 None true None) [sh; sh; toy_key 10 "p"; sh])].
Definition toy3_before : node := toy3_doc (toy_leaf 4 None "ENC[O,one]") (toy_leaf 6 None "ENC[O,two]") toy3_shared.

Ltac in_cases H :=
  simpl in H; repeat match type of H with _ \/ _ => destruct H as [H|H] | False => destruct H end.

Example C19_ex_loaded : loaded_doc toy3_before 20.
Proof.
  split; [|split; [|reflexivity]].
  - constructor.
    + intros a b Ha Hb E. in_cases Ha; in_cases Hb; subst a b; try reflexivity; vm_compute in E; discriminate E.
    + intros a Ha. in_cases Ha; subst a; vm_compute; reflexivity.
    + intros a b x Ha Hb Ea Eb. in_cases Ha; in_cases Hb; subst a b; try reflexivity; vm_compute in Ea, Eb; try discriminate Ea; try discriminate Eb.
    + intros a Ha. in_cases Ha; subst a; vm_compute; discriminate.
  - intros i kvs H. in_cases H; try discriminate H. inversion H; subst i kvs.
    simpl. repeat (split || eexists || constructor); vm_compute; reflexivity.
Qed.

Example C19_ex_run :
  rotate_file string toy3_enc toy3_dec toy_layout "old" "new" toy3_before 20 []
  = Ok (mkrs (toy3_doc (toy_leaf 20 None "ENC[N,one]") (toy_leaf 21 None "ENC[N,two]") (toy_leaf 24 (Some "x") "ENC[N,three]"))
             ["x"] true 0 25 []
             [(4%N, "one", "ENC[N,one]"); (6%N, "two", "ENC[N,two]"); (8%N, "three", "ENC[N,three]")]).
Proof. vm_compute. reflexivity. Qed.

Lemma toy3_keys_differ : "old" <> "new".
Proof. discriminate. Qed.

(* the theorems applied to it: hypotheses met, conclusions as expected *)
Example C19_ex_frame :
  frame_of (toy3_doc (toy_leaf 20 None "ENC[N,one]") (toy_leaf 21 None "ENC[N,two]") (toy_leaf 24 (Some "x") "ENC[N,three]"))
  = frame_of toy3_before.
Proof.
  exact (proj2 (C19_frame string toy3_enc toy3_dec toy_layout "old" "new" C19_ex_toy_laws toy3_keys_differ
                          toy3_before 20 [] _ C19_ex_loaded C19_ex_run)).
Qed.

Example C19_ex_shared_once :
  exists y, lookup (toy3_doc (toy_leaf 20 None "ENC[N,one]") (toy_leaf 21 None "ENC[N,two]") (toy_leaf 24 (Some "x") "ENC[N,three]"))
                   [RKey (PStr "l"); RIdx 0] = Some y
            /\ lookup (toy3_doc (toy_leaf 20 None "ENC[N,one]") (toy_leaf 21 None "ENC[N,two]") (toy_leaf 24 (Some "x") "ENC[N,three]"))
                   [RKey (PStr "l"); RIdx 3] = Some y
            /\ anchor_name y = Some "x" /\ is_eyaml_node y = true.
Proof.
  refine (proj1 (C19_shared_once string toy3_enc toy3_dec toy_layout "old" "new" C19_ex_toy_laws toy3_keys_differ
                          toy3_before 20 [] _ C19_ex_loaded C19_ex_run)
                [RKey (PStr "l"); RIdx 0] [RKey (PStr "l"); RIdx 3] toy3_shared "x" _ _ _ _ _ _);
    try reflexivity; intros m H; in_cases H; discriminate H.
Qed.

Example C19_ex_rekeyed :
  exists i' s' p,
    lookup (toy3_doc (toy_leaf 20 None "ENC[N,one]") (toy_leaf 21 None "ENC[N,two]") (toy_leaf 24 (Some "x") "ENC[N,three]"))
           [RKey (PStr "l"); RIdx 1] = Some (NLeaf i' (PStr s')) /\
    decrypt_eyaml string toy3_dec "old" (PStr "ENC[O,three]") = Ok (PStr p) /\
    (plain_ok p = true -> decrypt_eyaml string toy3_dec "new" (PStr s') = Ok (PStr p)).
Proof.
  refine (C19_rekeyed_partial string toy3_enc toy3_dec toy_layout "old" "new" C19_ex_toy_laws toy3_keys_differ
            toy3_before 20 [] _ C19_ex_loaded C19_ex_run eq_refl [RKey (PStr "l"); RIdx 1] _ "ENC[O,three]" _ eq_refl eq_refl).
  vm_compute. tauto.
Qed.

Example C19_ex_old_key_dead :
  exists i' s' p,
    lookup (toy3_doc (toy_leaf 20 None "ENC[N,one]") (toy_leaf 21 None "ENC[N,two]") (toy_leaf 24 (Some "x") "ENC[N,three]"))
           [RKey (PStr "s2")] = Some (NLeaf i' (PStr s')) /\ is_eyaml_str s' = true /\
    decrypt_eyaml string toy3_dec "old" (PStr "ENC[O,two]") = Ok (PStr p) /\
    (plain_ok p = true -> decrypt_eyaml string toy3_dec "old" (PStr s') = Raise EyamlExc).
Proof.
  refine (C19_old_key_dead_partial string toy3_enc toy3_dec toy_layout "old" "new" C19_ex_toy_laws toy3_keys_differ
            toy3_before 20 [] _ C19_ex_loaded C19_ex_run eq_refl [RKey (PStr "s2")] _ "ENC[O,two]" _ eq_refl eq_refl).
  vm_compute. tauto.
Qed.

(* the guard is met by the plaintexts of the example *)
Example C19_ex_plain_ok : plain_ok "one" = true /\ plain_ok "two" = true /\ plain_ok "three" = true.
Proof. vm_compute. repeat split. Qed.

(* ======================================================================================== *)
(* The run over several files (`for yaml_file in args.yaml_files`, Ey.rotate_files / rotate_main). *)

(* A file inside a run is rotated exactly as that file ALONE (fresh seen_anchors, fresh
   file_changed, fresh log): the only thing that reaches it from the files before is the exit
   status, and a file without a failure of its own hands it on unchanged. *)
Theorem C19_file_in_run_is_file_alone :
  forall (key : Type) (enc dec : key -> string -> option string) (layout : out_fmt -> string -> string)
         (oldk newk : key) (ex : nat) (d : node) (next : N) (folded : list N),
    rotate_file_from key enc dec layout oldk newk ex d next folded
    = match rotate_file key enc dec layout oldk newk d next folded with
      | Ok st => Ok (with_exit (carry_exit ex (r_exit st)) st)
      | Raise e => Raise e
      | OutOfFuel => OutOfFuel
      end.
Proof. exact rotate_file_from_alone. Qed.
Print Assumptions C19_file_in_run_is_file_alone.

(* The whole run ([run_spec], Spec/C19FilesSpec.v), for EVERY list of arguments and every cipher:
   - the loop gets through a prefix of the arguments; argument j of that prefix is `skipped` when it
     is not a file / not loadable, and otherwise holds what [rotate_file] returns on that document
     alone (document written, seen_anchors, file_changed, log), with the exit status
     [status_from 0 (the first j+1 arguments)];
   - when main() reaches sys.exit, every argument was got through and the status is the fold
     [status_from 0 fs]: 2 after a non-file, 3 after an unloadable file or a file with a failed
     decryption / encryption, else what it was;
   - when an exception leaves main(), it is the exception the rotation of argument n = (number of
     arguments got through) raises on its own: the arguments before n are done - a changed file
     among them was saved (C17: Sv.CRotate) before argument n was looked at -, the ones after n
     are not touched. *)
Theorem C19_files_independent :
  forall (key : Type) (enc dec : key -> string -> option string) (layout : out_fmt -> string -> string)
         (oldk newk : key) (fs : list file_in),
    run_spec key enc dec layout oldk newk fs (rotate_main key enc dec layout oldk newk fs).
Proof. exact rotate_main_spec. Qed.
Print Assumptions C19_files_independent.

(* exit status 0 at the end: every argument was a loadable file (and, next theorems, rotated without failure) *)
Theorem C19_run_success_only_documents :
  forall (key : Type) (enc dec : key -> string -> option string) (layout : out_fmt -> string -> string)
         (oldk newk : key) (fs : list file_in),
    ro_end (rotate_main key enc dec layout oldk newk fs) = Ok 0 ->
    forall f, In f fs -> exists d next folded, f = FiDoc d next folded.
Proof. exact run_success_docs. Qed.
Print Assumptions C19_run_success_only_documents.

(* the document-level theorems, for EVERY file of EVERY run *)
Theorem C19_run_frame :
  forall (key : Type) (enc dec : key -> string -> option string) (layout : out_fmt -> string -> string)
         (oldk newk : key),
    cipher_laws key enc dec layout -> oldk <> newk ->
    forall (fs : list file_in) (j : nat) (d : node) (next : N) (folded : list N),
      nth_error fs j = Some (FiDoc d next folded) -> loaded_doc d next ->
      forall st, nth_error (ro_files (rotate_main key enc dec layout oldk newk fs)) j = Some (FrDone st) ->
        rotated frame_leaf d (r_doc st) /\ frame_of (r_doc st) = frame_of d.
Proof. exact run_frame. Qed.
Print Assumptions C19_run_frame.

Theorem C19_run_inv :
  forall (key : Type) (enc dec : key -> string -> option string) (layout : out_fmt -> string -> string)
         (oldk newk : key),
    cipher_laws key enc dec layout -> oldk <> newk ->
    forall (fs : list file_in) (j : nat) (d : node) (next : N) (folded : list N),
      nth_error fs j = Some (FiDoc d next folded) -> loaded_doc d next ->
      forall st, nth_error (ro_files (rotate_main key enc dec layout oldk newk fs)) j = Some (FrDone st) ->
        Inv (r_doc st) (r_next st).
Proof. exact run_inv. Qed.
Print Assumptions C19_run_inv.

Theorem C19_run_shared_once :
  forall (key : Type) (enc dec : key -> string -> option string) (layout : out_fmt -> string -> string)
         (oldk newk : key),
    cipher_laws key enc dec layout -> oldk <> newk ->
    forall (fs : list file_in) (j : nat) (d : node) (next : N) (folded : list N),
      nth_error fs j = Some (FiDoc d next folded) -> loaded_doc d next ->
      forall st, nth_error (ro_files (rotate_main key enc dec layout oldk newk fs)) j = Some (FrDone st) ->
        (forall l1 l2 x a, (forall m, ~ In (RMember m) l1) -> (forall m, ~ In (RMember m) l2) ->
           lookup d l1 = Some x -> lookup d l2 = Some x -> is_eyaml_node x = true -> anchor_name x = Some a ->
           exists y, lookup (r_doc st) l1 = Some y /\ lookup (r_doc st) l2 = Some y /\
                     anchor_name y = Some a /\ is_eyaml_node y = true)
        /\ NoDup (r_seen st).
Proof. exact run_shared. Qed.
Print Assumptions C19_run_shared_once.

(* a successful run (sys.exit(0)): EVERY file was got through, and every encrypted value position
   of every file is re-keyed (guard plain_ok = F19a) *)
Theorem C19_run_rekeyed_partial :
  forall (key : Type) (enc dec : key -> string -> option string) (layout : out_fmt -> string -> string)
         (oldk newk : key),
    cipher_laws key enc dec layout -> oldk <> newk ->
    forall (fs : list file_in) (j : nat) (d : node) (next : N) (folded : list N),
      nth_error fs j = Some (FiDoc d next folded) -> loaded_doc d next ->
      ro_end (rotate_main key enc dec layout oldk newk fs) = Ok 0 ->
      exists st, nth_error (ro_files (rotate_main key enc dec layout oldk newk fs)) j = Some (FrDone st) /\ r_exit st = 0 /\
        forall l i s, In l (positions d) -> lookup d l = Some (NLeaf i (PStr s)) -> is_eyaml_str s = true ->
          exists i' s' p, lookup (r_doc st) l = Some (NLeaf i' (PStr s')) /\
            decrypt_eyaml key dec oldk (PStr s) = Ok (PStr p) /\
            (plain_ok p = true -> decrypt_eyaml key dec newk (PStr s') = Ok (PStr p)).
Proof. exact run_rekeyed. Qed.
Print Assumptions C19_run_rekeyed_partial.

Theorem C19_run_old_key_dead_partial :
  forall (key : Type) (enc dec : key -> string -> option string) (layout : out_fmt -> string -> string)
         (oldk newk : key),
    cipher_laws key enc dec layout -> oldk <> newk ->
    forall (fs : list file_in) (j : nat) (d : node) (next : N) (folded : list N),
      nth_error fs j = Some (FiDoc d next folded) -> loaded_doc d next ->
      ro_end (rotate_main key enc dec layout oldk newk fs) = Ok 0 ->
      exists st, nth_error (ro_files (rotate_main key enc dec layout oldk newk fs)) j = Some (FrDone st) /\ r_exit st = 0 /\
        forall l i s, In l (positions d) -> lookup d l = Some (NLeaf i (PStr s)) -> is_eyaml_str s = true ->
          exists i' s' p, lookup (r_doc st) l = Some (NLeaf i' (PStr s')) /\ is_eyaml_str s' = true /\
            decrypt_eyaml key dec oldk (PStr s) = Ok (PStr p) /\
            (plain_ok p = true -> decrypt_eyaml key dec oldk (PStr s') = Raise EyamlExc).
Proof. exact run_old_key_dead. Qed.
Print Assumptions C19_run_old_key_dead_partial.

(* non-vacuity, and the point of the per-file reset: the SAME anchor name `x` carries a secret in
   two files of one run, with a non-file and an unloadable file around them - both are rotated,
   each with its own seen_anchors = ["x"]; the status is 3 (carried from the unloadable file) *)
Definition toy_file_a : file_in := FiDoc (toy_doc (toy_leaf 2 (Some "x") "ENC[O,one]")) 10 [].
Definition toy_file_b : file_in :=
  FiDoc (NSeq (mkinfo 0 None true None) [toy_leaf 1 (Some "x") "ENC[O,one]"; toy_leaf 1 (Some "x") "ENC[O,one]"]) 2 [].

Example C19_ex_two_files_same_anchor :
  rotate_main string toy_enc toy_dec toy_layout "old" "new" [FiNotFile; toy_file_a; FiUnloadable; toy_file_b]
  = mkro [FrSkipped;
          FrDone (mkrs (toy_doc (toy_leaf 10 (Some "x") "ENC[N,one]")) ["x"] true 2 11 [] [(2%N, "one", "ENC[N,one]")]);
          FrSkipped;
          FrDone (mkrs (NSeq (mkinfo 0 None true None) [toy_leaf 3 (Some "x") "ENC[N,one]"; toy_leaf 3 (Some "x") "ENC[N,one]"])
                       ["x"] true 3 4 [] [(1%N, "one", "ENC[N,one]")])]
         (Ok 3).
Proof. vm_compute. reflexivity. Qed.

Example C19_ex_two_files_success :
  ro_end (rotate_main string toy_enc toy_dec toy_layout "old" "new" [toy_file_a; toy_file_b]) = Ok 0.
Proof. vm_compute. reflexivity. Qed.

(* a run that is left by an exception: the first file is done (and saved), the third never looked at *)
Example C19_ex_run_stopped :
  rotate_main string toy_enc toy_dec toy_layout "old" "new"
    [toy_file_a; FiDoc (toy_doc (toy_leaf 2 None ("ENC[" ++ String (ascii_of_nat 233) "]"))) 10 []; toy_file_b]
  = mkro [FrDone (mkrs (toy_doc (toy_leaf 10 (Some "x") "ENC[N,one]")) ["x"] true 0 11 [] [(2%N, "one", "ENC[N,one]")])]
         (Raise (PyCrash ValueError)).
Proof. vm_compute. reflexivity. Qed.

(* ======================================================================================== *)
(* "rotated ONCE", counted on the log of encryptions r_log.                                  *)

(* every entry of the log is one call of encrypt_eyaml under the NEW key, and what it returned is
   what was stored *)
Theorem C19_log_is_encrypt_calls :
  forall (key : Type) (enc dec : key -> string -> option string) (layout : out_fmt -> string -> string)
         (oldk newk : key),
    cipher_laws key enc dec layout -> oldk <> newk ->
    forall (d : node) (next : N) (folded : list N) (st : rstate),
      loaded_doc d next ->
      rotate_file key enc dec layout oldk newk d next folded = Ok st ->
      Forall (fun e : N * string * string =>
                exists fmt, encrypt_eyaml key enc layout newk (snd (fst e)) fmt = Ok (snd e)) (r_log st).
Proof. exact stmt_log_calls. Qed.
Print Assumptions C19_log_is_encrypt_calls.

(* seen_anchors at the end of a file (any exit status): the Anchor names of its secrets, each once *)
Theorem C19_seen_anchors_exact :
  forall (key : Type) (enc dec : key -> string -> option string) (layout : out_fmt -> string -> string)
         (oldk newk : key),
    cipher_laws key enc dec layout -> oldk <> newk ->
    forall (d : node) (next : N) (folded : list N) (st : rstate),
      loaded_doc d next ->
      rotate_file key enc dec layout oldk newk d next folded = Ok st ->
      NoDup (r_seen st) /\
      forall a, In a (r_seen st) <-> exists l, In l (secret_positions d) /\ anchor_at d l = Some a.
Proof. exact stmt_seen_exact. Qed.
Print Assumptions C19_seen_anchors_exact.

(* full strength, no guard: a successful rotation asked for AT LEAST one encryption per Anchor name
   that carries a secret and one per unanchored secret position *)
Theorem C19_encrypt_calls_at_least :
  forall (key : Type) (enc dec : key -> string -> option string) (layout : out_fmt -> string -> string)
         (oldk newk : key),
    cipher_laws key enc dec layout -> oldk <> newk ->
    forall (d : node) (next : N) (folded : list N) (st : rstate),
      loaded_doc d next ->
      rotate_file key enc dec layout oldk newk d next folded = Ok st ->
      r_exit st = 0 ->
      expected_encryptions d <= List.length (r_log st).
Proof. exact stmt_encrypt_calls_expected_at_least. Qed.
Print Assumptions C19_encrypt_calls_at_least.

(* EXACTLY once per anchored secret (per Anchor name: = length seen_anchors) and once per unanchored
   secret position - under the F19a guard, on the whole document: every secret's plaintext is
   plain_ok (no trailing white space, not itself beginning with the marker) *)
Theorem C19_encrypt_calls_partial :
  forall (key : Type) (enc dec : key -> string -> option string) (layout : out_fmt -> string -> string)
         (oldk newk : key),
    cipher_laws key enc dec layout -> oldk <> newk ->
    forall (d : node) (next : N) (folded : list N) (st : rstate),
      loaded_doc d next ->
      rotate_file key enc dec layout oldk newk d next folded = Ok st ->
      r_exit st = 0 ->
      plain_guard key dec oldk d = true ->
      List.length (r_log st) = expected_encryptions d /\
      List.length (r_log st) = List.length (r_seen st) + List.length (unanchored_secret_positions d) /\
      (* ... and every logged call did reach the cipher (no plaintext was passed through as it is) *)
      Forall (fun e : N * string * string =>
                plain_ok (snd (fst e)) = true /\ exists c, enc newk (snd (fst e)) = Some c) (r_log st).
Proof.
  intros key enc dec layout oldk newk laws kd d next folded st Hd Hr Hex G. split; [|split].
  - exact (stmt_encrypt_calls_expected key enc dec layout oldk newk laws kd d next folded st Hd Hr Hex G).
  - exact (stmt_encrypt_calls key enc dec layout oldk newk laws kd d next folded st Hd Hr Hex G).
  - exact (stmt_log_cipher_calls key enc dec layout oldk newk laws kd d next folded st Hd Hr G).
Qed.
Print Assumptions C19_encrypt_calls_partial.

(* without the guard the count is false (F19a: a plaintext that begins with the marker is stored
   as it is - here a value encrypted four times under the old key, inside a list that is aliased
   in its parent list: the two positions are visited four times, every visit peels one layer, the
   run ends with status 0 after FOUR calls of encrypt_eyaml - of which ONE reaches the cipher - for
   TWO unanchored secret positions; replayed on the real tool: status 0, four `decrypt` and one
   `encrypt` subprocess) *)
Definition nest_enc (k p : string) : option string :=
  if String.eqb k "new" && String.eqb p "x" then Some "ENC[N,x]" else None.
Definition nest_dec (k c : string) : option string :=
  if String.eqb k "old" then
    if String.eqb c "ENC[O,4]" then Some "ENC[O,3]"
    else if String.eqb c "ENC[O,3]" then Some "ENC[O,2]"
    else if String.eqb c "ENC[O,2]" then Some "ENC[O,1]"
    else if String.eqb c "ENC[O,1]" then Some "x" else None
  else if String.eqb k "new" && String.eqb c "ENC[N,x]" then Some "x" else None.
Definition nest_inner : node := NSeq (mkinfo 1 (Some "c") true None) [toy_leaf 2 None "ENC[O,4]"].
Definition nest_doc : node := NSeq (mkinfo 0 None true None) [nest_inner; nest_inner].

Lemma nest_laws : cipher_laws string nest_enc nest_dec toy_layout.
Proof.
  assert (T : forall k p c, nest_enc k p = Some c -> k = "new" /\ p = "x" /\ c = "ENC[N,x]").
  { intros k p c H; unfold nest_enc in H.
    destruct (String.eqb k "new") eqn:K; [|discriminate H]. destruct (String.eqb p "x") eqn:P; [|discriminate H].
    apply String.eqb_eq in K, P. inversion H. repeat split; assumption. }
  repeat split.
  - intros k p c H. destruct (T k p c H) as (-> & -> & ->); reflexivity.
  - intros k k' p c Hk H. destruct (T k p c H) as (-> & -> & ->). unfold nest_dec.
    destruct (String.eqb k' "new") eqn:K'; [apply String.eqb_eq in K'; subst k'; exfalso; apply Hk; reflexivity|].
    destruct (String.eqb k' "old"); reflexivity.
  - intros k p c H. destruct (T k p c H) as (_ & _ & ->); vm_compute; reflexivity.
  - intros k p c fmt H. destruct (T k p c H) as (_ & _ & ->); destruct fmt; eexists; vm_compute; split; reflexivity.
Qed.

Lemma nest_loaded : loaded_doc nest_doc 3.
Proof.
  split; [|split; [|reflexivity]].
  - constructor.
    + intros a b Ha Hb E. in_cases Ha; in_cases Hb; subst a b; try reflexivity; vm_compute in E; discriminate E.
    + intros a Ha. in_cases Ha; subst a; vm_compute; reflexivity.
    + intros a b x Ha Hb Ea Eb. in_cases Ha; in_cases Hb; subst a b; try reflexivity; vm_compute in Ea, Eb; try discriminate Ea; try discriminate Eb.
    + intros a Ha. in_cases Ha; subst a; vm_compute; discriminate.
  - intros i kvs H. in_cases H; discriminate H.
Qed.

Theorem C19_encrypt_calls_refuted :
  exists (enc dec : string -> string -> option string) (d : node) (next : N) (st : rstate),
    cipher_laws string enc dec toy_layout /\ loaded_doc d next /\
    rotate_file string enc dec toy_layout "old" "new" d next [] = Ok st /\ r_exit st = 0 /\
    List.length (r_log st) = 4 /\ expected_encryptions d = 2 /\
    List.length (filter (fun e : N * string * string => negb (is_eyaml_str (snd (fst e)))) (r_log st)) = 1.
Proof.
  exists nest_enc, nest_dec, nest_doc, 3%N.
  eexists. split; [exact nest_laws|]. split; [exact nest_loaded|].
  split; [vm_compute; reflexivity|]. vm_compute. repeat split.
Qed.
Print Assumptions C19_encrypt_calls_refuted.

(* non-vacuity: the document of C19_ex_run meets the guard; three encryptions = one Anchor name
   (three alias positions) + two unanchored secret positions *)
Example C19_ex_encrypt_calls :
  plain_guard string toy3_dec "old" toy3_before = true /\ expected_encryptions toy3_before = 3 /\
  secret_anchor_names toy3_before = ["x"] /\
  unanchored_secret_positions toy3_before = [[RKey (PStr "s1")]; [RKey (PStr "s2")]].
Proof. vm_compute. repeat split. Qed.

Example C19_ex_encrypt_calls_applied :
  List.length [(4%N, "one", "ENC[N,one]"); (6%N, "two", "ENC[N,two]"); (8%N, "three", "ENC[N,three]")] = expected_encryptions toy3_before.
Proof.
  exact (proj1 (C19_encrypt_calls_partial string toy3_enc toy3_dec toy_layout "old" "new" C19_ex_toy_laws toy3_keys_differ
                  toy3_before 20 [] _ C19_ex_loaded C19_ex_run eq_refl (proj1 C19_ex_encrypt_calls))).
Qed.

(* ======================================================================================== *)
(* The hypothesis [loaded_doc] is decidable: the boolean [c19_loaded_doc_b] (Spec/C19InvB.v) is
   extracted, and harness/c19.py evaluates it on EVERY document of EVERY case it encodes (request
   `loaded-doc-b`; a `false` is a disagreement), so the hypothesis of the document-level theorems
   is tested on the inputs of the tie, not assumed of docenc.py. *)
Theorem C19_loaded_doc_b_sound :
  forall (d : node) (next : N), c19_loaded_doc_b d next = true -> loaded_doc d next.
Proof. exact c19_loaded_doc_b_sound. Qed.
Print Assumptions C19_loaded_doc_b_sound.

Example C19_ex_loaded_b :
  c19_loaded_doc_b toy3_before 20 = true /\ c19_loaded_doc_b nest_doc 3 = true
  /\ c19_loaded_doc_b toy3_before 8 = false                                     (* 8 is not fresh *)
  /\ c19_loaded_doc_b (toy_doc (toy_leaf 1 None "clash with the key's identity")) 10 = true  (* keys are not value positions *)
  /\ c19_loaded_doc_b (NSeq (mkinfo 0 None true None) [toy_leaf 1 (Some "x") "a"; toy_leaf 2 (Some "x") "b"]) 3 = false. (* one anchor, two objects *)
Proof. vm_compute. repeat split. Qed.

(* Every remaining statement of this file, so that none is left unaudited. *)
Print Assumptions C19_rekeyed_refuted_trailing_space.
Print Assumptions C19_rekeyed_refuted_marker_plaintext.
Print Assumptions toy3_keys_differ.
Print Assumptions nest_laws.
Print Assumptions nest_loaded.
