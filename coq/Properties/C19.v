(* C19 -- EYAML key rotation re-keys every secret once and touches nothing else.
   Statements only; model Model/Eyaml.v (module Ey), notions Spec/C19Spec.v,
   proofs Proofs/EyamlProofs.v.

   What is proved, for EVERY value / document / cipher obeying the stated laws:
   the marker rule; that a document without encrypted values is left alone (no
   rewrite, no backup: r_changed = false); and, per value, that what the tool
   stores after decrypt-with-old / encrypt-with-new is an encrypted value that
   decrypts under the new key to the same plaintext and is refused under the
   old key -- under the guard [plain_ok] on the plaintext, whose complement is
   the known finding F19a (witnesses below).
   What is NOT proved in Coq (see docs/C19.md): the document-level composition
   of the per-value facts through the identity-driven replacement (every
   position, aliases stay shared, frame unchanged); those clauses are covered by
   the correspondence run and by the judge of harness/c19.py only. *)
From Coq Require Import List Ascii String NArith Bool.
From YP Require Import Outcome PyStr PyVal Doc Eyaml C19Spec EyamlProofs.
Import ListNotations.
Open Scope string_scope.
Import Ey.

(* "A value is treated as encrypted exactly when, ignoring whitespace and line
   breaks, it begins with the ENC[ marker" (whitespace = blank and line feed,
   the two characters YAML folding puts into a ciphertext) *)
Theorem C19_marker :
  forall v : pyval,
    is_eyaml_value v = true <-> exists s, v = PStr s /\ begins_ignoring_blanks marker s.
Proof. exact marker_rule_value. Qed.
Print Assumptions C19_marker.

(* "a file holding no such value is neither rewritten nor backed up": the run
   ends with file_changed = False, exit_state 0 and the document as loaded; with
   Sv.plan_of (CRotate backup false) = no I/O call at all (C17) *)
Theorem C19_untouched_if_none :
  forall (key : Type) (enc dec : key -> string -> option string) (layout : out_fmt -> string -> string)
         (oldk newk : key) (d : node) (next : N) (folded : list N),
    has_secret d = false ->
    rotate_file key enc dec layout oldk newk d next folded = Ok (mkrs d [] false 0 next folded []).
Proof. exact untouched_if_none. Qed.
Print Assumptions C19_untouched_if_none.

(* per value: re-keyed, and dead under the old key (guard: plain_ok) *)
Theorem C19_rekeyed_value_partial :
  forall (key : Type) (enc dec : key -> string -> option string) (layout : out_fmt -> string -> string)
         (oldk newk : key),
    (forall k p c, enc k p = Some c -> dec k c = Some p) ->
    (forall k k' p c, k <> k' -> enc k p = Some c -> dec k' c = None) ->
    (forall k p c, enc k p = Some c -> cipher_ok c = true) ->
    (forall fmt c, cipher_ok c = true ->
        exists stored, post_encrypt fmt (layout fmt c) = Ok stored /\ clean stored = c) ->
    forall (p : string) (fmt : out_fmt) (stored : string),
      plain_ok p = true ->
      encrypt_eyaml key enc layout newk p fmt = Ok stored ->
      is_eyaml_str stored = true
      /\ decrypt_eyaml key dec newk (PStr stored) = Ok (PStr p)
      /\ (oldk <> newk -> decrypt_eyaml key dec oldk (PStr stored) = Raise EyamlExc).
Proof. exact rekey_value. Qed.
Print Assumptions C19_rekeyed_value_partial.

(* the plaintext handed to `encrypt` is the plaintext the value had under the old key *)
Theorem C19_old_plaintext_forwarded_partial :
  forall (key : Type) (dec : key -> string -> option string) (oldk : key) (s c p : string),
    is_eyaml_str s = true -> rstrip_py (clean s) = c -> is_ascii_str c = true ->
    dec oldk c = Some p -> plain_ok p = true -> p <> c ->
    decrypt_eyaml key dec oldk (PStr s) = Ok (PStr p).
Proof. exact decrypt_old_value. Qed.
Print Assumptions C19_old_plaintext_forwarded_partial.

(* a node whose Anchor was already seen is skipped: rotated once *)
Theorem C19_shared_once_step :
  forall (key : Type) (enc dec : key -> string -> option string) (layout : out_fmt -> string -> string)
         (oldk newk : key) (st : rstate) (p : ypath) (l : loc) (i : info) (v : pyval) (a : string),
    lookup (r_doc st) l = Some (NLeaf i v) -> anchor_name (NLeaf i v) = Some a ->
    mem_string a (r_seen st) = true ->
    rotate_at key enc dec layout oldk newk st p l = Ok st.
Proof. exact rotate_at_seen_skip. Qed.
Print Assumptions C19_shared_once_step.

(* seen_anchors, the list of Anchor names whose object was handed to decrypt,
   never holds a name twice: with the previous theorem, an anchored value is
   processed at most once per run, however many aliases it has *)
Theorem C19_shared_once_anchors :
  forall (key : Type) (enc dec : key -> string -> option string) (layout : out_fmt -> string -> string)
         (oldk newk : key) (d : node) (next : N) (folded : list N) (st : rstate),
    rotate_file key enc dec layout oldk newk d next folded = Ok st -> NoDup (r_seen st).
Proof. exact seen_anchors_nodup. Qed.
Print Assumptions C19_shared_once_anchors.

(* known finding F19a: without the guard the statement is false *)
Theorem C19_rekeyed_refuted_trailing_space :
  forall (key : Type) (dec : key -> string -> option string) (k : key) (s c : string),
    clean s = c -> cipher_ok c = true ->
    dec k c = Some ("secret" ++ String (ch 10) EmptyString)%string ->
    decrypt_eyaml key dec k (PStr s) = Ok (PStr "secret").
Proof. exact trailing_newline_lost. Qed.

Theorem C19_rekeyed_refuted_marker_plaintext :
  forall (key : Type) (enc : key -> string -> option string) (layout : out_fmt -> string -> string)
         (k : key) (fmt : out_fmt),
    encrypt_eyaml key enc layout k "ENC[looks encrypted]" fmt = Ok "ENC[looks encrypted]".
Proof. exact marker_plaintext_stored_in_clear. Qed.

(* ---- non-vacuity ---------------------------------------------------------------------- *)

Example C19_ex_marker_folded :
  is_eyaml_value (PStr (" EN" ++ String (ch 10) "C[PKCS7,abc]")) = true
  /\ is_eyaml_value (PStr "xENC[") = false /\ is_eyaml_value PNone = false.
Proof. repeat split. Qed.

Example C19_ex_guards : plain_ok "s3cret" = true /\ cipher_ok "ENC[PKCS7,hdL+xKijjA==]" = true
                        /\ plain_ok ("secret" ++ String (ch 10) EmptyString) = false
                        /\ plain_ok "ENC[looks encrypted]" = false.
Proof. vm_compute. repeat split. Qed.

(* the layout hypothesis is met by the stand-in's block layout (indent 4, one line) *)
Example C19_ex_layout :
  post_encrypt OBlock ("    ENC[PKCS7,abc]" ++ String (ch 10) EmptyString)
    = Ok ("ENC[PKCS7,abc]" ++ String (ch 10) EmptyString)%string
  /\ clean ("ENC[PKCS7,abc]" ++ String (ch 10) EmptyString) = "ENC[PKCS7,abc]".
Proof. vm_compute. split; reflexivity. Qed.

(* a whole run on a toy cipher: an anchored secret in a hash with its alias in a
   list elsewhere -- one decryption, one encryption, both places share the new
   object, the anchor survives *)
Definition toy_enc (k p : string) : option string :=
  if String.eqb k "new" && String.eqb p "one" then Some "ENC[N,one]" else None.
Definition toy_dec (k c : string) : option string :=
  if String.eqb k "old" && String.eqb c "ENC[O,one]" then Some "one"
  else if String.eqb k "new" && String.eqb c "ENC[N,one]" then Some "one" else None.
Definition toy_layout (f : out_fmt) (c : string) : string := (c ++ String (ch 10) EmptyString)%string.
Definition toy_leaf (o : N) (a : option string) (s : string) : node := NLeaf (mkinfo o a true None) (PStr s).
Definition toy_key (o : N) (s : string) : node := NLeaf (mkinfo o None false None) (PStr s).
Definition toy_doc (secret : node) : node :=
  NMap (mkinfo 0 None true None)
       [(toy_key 1 "a", secret);
        (toy_key 3 "l", NSeq (mkinfo 4 None true None) [secret; toy_key 5 "plain"])].

Example C19_ex_rotation :
  rotate_file string toy_enc toy_dec toy_layout "old" "new" (toy_doc (toy_leaf 2 (Some "x") "ENC[O,one]")) 10 []
  = Ok (mkrs (toy_doc (toy_leaf 10 (Some "x") "ENC[N,one]")) ["x"] true 0 11 [] [(2%N, "one", "ENC[N,one]")]).
Proof. vm_compute. reflexivity. Qed.
