(* C04 - A delete removes exactly the matched nodes, whatever their number or
   position.  Statements only; proofs in Proofs/C04delete.v.

   Model: Mutate.delete_nodes = Processor._delete_nodes (processor.py, after
   fix 42610a8) run on the coordinates the read side gathered.
   Spec:  C04.delete_spec = the document with exactly the designated children
   removed (everything else untouched, relative order kept by construction). *)
From Coq Require Import List ZArith NArith Bool String.
From YP Require Import Outcome PyStr PyVal Doc Searches Mutate C04spec C04lists C04delete C04order C04merge.
Import ListNotations.
Open Scope string_scope.

(* Every gathered coordinate, processed without duplicate and without disorder
   (true of every single path without Collectors, see docs/C04.md), is removed -
   all of them, several per sequence, empty containers, negative indexes - and
   nothing else changes; no exception is raised. *)
Theorem C04_delete_exact_partial : forall d cs,
  wf_doc d ->
  no_dup_no_disorder d (map pc_pair (del_order cs)) = true ->
  delete_nodes cs d = MDone (delete_spec d (map pc_pair (del_order cs))).
Proof. exact delete_exact. Qed.
Print Assumptions C04_delete_exact_partial.

(* The guard is implied by what the read side promises for one path: in gather
   order the coordinates locate distinct nodes, in document order within each
   parent (C04spec.doc_ordered, computable; "results come in document order,
   each once" is the read-side theorem that discharges it). *)
Theorem C04_guard_from_document_order : forall d ps,
  wf_doc d -> doc_ordered d ps = true -> no_dup_no_disorder d (rev ps) = true.
Proof. exact ordered_guard. Qed.
Print Assumptions C04_guard_from_document_order.

(* Hence: whatever was gathered (Collector nesting included), if the
   coordinates in gather order locate distinct nodes in document order within
   each parent, exactly those nodes are removed and nothing else changes. *)
Theorem C04_delete_exact_ordered : forall d cs,
  wf_doc d ->
  doc_ordered d (rev (map pc_pair (del_order cs))) = true ->
  delete_nodes cs d = MDone (delete_spec d (rev (map pc_pair (del_order cs)))).
Proof. exact delete_exact_ordered. Qed.
Print Assumptions C04_delete_exact_ordered.

(* ... in particular for the plain coordinates of a single path without Collectors. *)
Theorem C04_delete_exact_single_path : forall d ps,
  wf_doc d ->
  doc_ordered d (map pc_pair ps) = true ->
  delete_nodes (map (fun p => CNode p false) ps) d = MDone (delete_spec d (map pc_pair ps)).
Proof. exact delete_exact_plain. Qed.
Print Assumptions C04_delete_exact_single_path.

(* The dict branch of _delete_nodes first tests for a YAML-merge-key removal
   (parentref is the anchor name of a mapping AND the parent has merge keys);
   Mutate.delete_nodes_mg models that test (mg = the mappings that have merge
   keys), the removal itself is outside the model.  In a document without merge
   keys - and more generally whenever no processed coordinate passes the test -
   the run is the ordinary one all theorems here speak about. *)
Theorem C04_no_merge_keys : forall cs d, delete_nodes_mg [] cs d = delete_nodes cs d.
Proof. exact delete_nodes_mg_nil. Qed.
Print Assumptions C04_no_merge_keys.

Theorem C04_merge_test_not_passed : forall mg ps d,
  no_ymk_hit mg ps d = true -> run_del_mg mg ps d = run_del ps d.
Proof. exact run_del_mg_no_hit. Qed.
Print Assumptions C04_merge_test_not_passed.

(* Deleting the document root is refused with a YAML Path error and changes
   nothing (the root coordinate is the one the loop meets first). *)
Theorem C04_root_refused : forall cs r rest d,
  del_order cs = mkpc None r :: rest ->
  delete_nodes cs d = Failed d (YPE NoDocument).
Proof. exact root_refused. Qed.
Print Assumptions C04_root_refused.

(* ...and whatever else was gathered, a root coordinate never lets a delete complete. *)
Theorem C04_root_never_deleted : forall ps d,
  In None (map pc_parent ps) -> exists d' e, run_del ps d = Failed d' e.
Proof. exact run_del_root_fails. Qed.
Print Assumptions C04_root_never_deleted.

(* ---- concrete documents ---- *)
Definition pl (o : N) : info := mkinfo o None false None.
Definition ct (o : N) : info := mkinfo o None true None.
Definition sk (o : N) (s : string) : node := NLeaf (pl o) (PStr s).
Definition iv (o : N) (z : Z) : node := NLeaf (pl o) (PInt z).

(* {a: [1, [], 1, x], b: 5}: the two 1s are one CPython object (oid 3) *)
Definition doc1 : node :=
  NMap (ct 0) [ (sk 1 "a", NSeq (ct 2) [iv 3 1; NSeq (ct 4) []; iv 3 1; sk 5 "x"]);
                (sk 6 "b", iv 7 5) ].

Definition plain (o : N) (r : pyval) : coord := CNode (mkpc (Some o) r) false.

(* non-vacuity: a[0], a[1] (an empty list), a[2] (equal to a[0]) and a[-1] all at once *)
Example C04_guard_nonvacuous :
  wf_docb doc1 = true /\
  no_dup_no_disorder doc1 (map pc_pair (del_order [plain 2 (PInt 0); plain 2 (PInt 1); plain 2 (PInt 2); plain 2 (PInt (-1))])) = true /\
  delete_nodes [plain 2 (PInt 0); plain 2 (PInt 1); plain 2 (PInt 2); plain 2 (PInt (-1))] doc1
  = MDone (NMap (ct 0) [ (sk 1 "a", NSeq (ct 2) []); (sk 6 "b", iv 7 5) ]).
Proof. vm_compute. repeat split. Qed.

(* a nested match: a[1] and the whole of a *)
Example C04_nested_nonvacuous :
  no_dup_no_disorder doc1 (map pc_pair (del_order [plain 0 (PStr "a"); plain 2 (PInt 1)])) = true /\
  delete_nodes [plain 0 (PStr "a"); plain 2 (PInt 1)] doc1 = MDone (NMap (ct 0) [ (sk 6 "b", iv 7 5) ]).
Proof. vm_compute. repeat split. Qed.

(* non-vacuity of the document-order hypothesis: a.* style gather a[0], a[1], a[2], a[3] and b, in document order;
   a[-1] alone in its parent; and it is NOT satisfied by a duplicate or by a reversed pair *)
Example C04_ordered_nonvacuous :
  doc_ordered doc1 [(Some 2%N, PInt 0); (Some 2%N, PInt 1); (Some 2%N, PInt 2); (Some 2%N, PInt 3); (Some 0%N, PStr "b")] = true /\
  doc_ordered doc1 [(Some 0%N, PStr "a"); (Some 2%N, PInt (-1))] = true /\
  doc_ordered doc1 [(Some 2%N, PInt 0); (Some 2%N, PInt 0)] = false /\
  doc_ordered doc1 [(Some 2%N, PInt 2); (Some 2%N, PInt 0)] = false /\
  doc_ordered doc1 [(Some 2%N, PInt (-2)); (Some 2%N, PInt 3)] = false /\
  delete_nodes (map (fun p => CNode p false)
                  [mkpc (Some 2%N) (PInt 0); mkpc (Some 2%N) (PInt 1); mkpc (Some 2%N) (PInt 2); mkpc (Some 2%N) (PInt 3);
                   mkpc (Some 0%N) (PStr "b")]) doc1
  = MDone (NMap (ct 0) [ (sk 1 "a", NSeq (ct 2) []) ]).
Proof. vm_compute. repeat split. Qed.

(* {m1: 1, base: &m1 {x: 1}, u: {z: 3 + merged x}}: key m1 is spelled like the anchor of the mapping `base`;
   the root has no merge keys (only u, oid 9, has), so `m1` is an ordinary delete; the same key inside u would
   enter the merge-key removal *)
Definition docM : node :=
  NMap (ct 0) [ (sk 1 "m1", iv 2 1);
                (sk 3 "base", NMap (mkinfo 4 (Some "m1") true None) [ (sk 5 "x", iv 2 1) ]);
                (sk 8 "u", NMap (ct 9) [ (sk 10 "z", iv 11 3); (sk 5 "x", iv 2 1) ]) ].
Example C04_merge_test_nonvacuous :
  is_ymk_anchor (PStr "m1") docM = true /\
  no_ymk_hit [9%N] [mkpc (Some 0%N) (PStr "m1")] docM = true /\
  delete_nodes_mg [9%N] [plain 0 (PStr "m1")] docM
  = MDone (NMap (ct 0) [ (sk 3 "base", NMap (mkinfo 4 (Some "m1") true None) [ (sk 5 "x", iv 2 1) ]);
                        (sk 8 "u", NMap (ct 9) [ (sk 10 "z", iv 11 3); (sk 5 "x", iv 2 1) ]) ]) /\
  delete_nodes_mg [9%N] [plain 9 (PStr "m1")] docM = Failed docM (PyCrash NotImplemented).
Proof. vm_compute. repeat split. Qed.

Example C04_root_nonvacuous :
  del_order [CNode (mkpc None PNone) false] = [mkpc None PNone].
Proof. reflexivity. Qed.

(* ---- known finding F15: the unguarded statement is false ----
   `(a[0])+(a[0])` on {a: [1, 2, 3]}: both coordinates designate a[0], the
   spec removes one node, the loop removes two. *)
Definition doc2 : node := NMap (ct 0) [ (sk 1 "a", NSeq (ct 2) [iv 3 1; iv 4 2; iv 5 3]) ].
Definition dup_coords : list coord :=
  [CList [plain 2 (PInt 0); plain 2 (PInt 0)] (mkpc None PNone) false].

Theorem C04_delete_exact_refuted : exists d cs,
  wf_doc d /\
  delete_nodes cs d <> MDone (delete_spec d (map pc_pair (del_order cs))).
Proof.
  exists doc2, dup_coords. split.
  - apply wf_docb_sound. vm_compute. reflexivity.
  - vm_compute. discriminate.
Qed.
Print Assumptions C04_delete_exact_refuted.

(* `(a[2])+(a[0])` on {a: [1, 2, 3, 4]}: removes 1 and 4 instead of 1 and 3 *)
Definition doc3 : node := NMap (ct 0) [ (sk 1 "a", NSeq (ct 2) [iv 3 1; iv 4 2; iv 5 3; iv 6 4]) ].
Example C04_disorder_witness :
  delete_nodes [CList [plain 2 (PInt 2); plain 2 (PInt 0)] (mkpc None PNone) false] doc3
  = MDone (NMap (ct 0) [ (sk 1 "a", NSeq (ct 2) [iv 4 2; iv 5 3]) ]).
Proof. vm_compute. reflexivity. Qed.

(* known finding F_rootmix: `(b)+(/)`-style gathers delete b before refusing the root *)
Theorem C04_root_mixed_refuted : exists d cs d',
  In None (map pc_parent (del_order cs)) /\
  delete_nodes cs d = Failed d' (YPE NoDocument) /\ d' <> d.
Proof.
  exists doc1, [CList [CNode (mkpc None PNone) false; plain 0 (PStr "b")] (mkpc None PNone) false].
  eexists. split; [|split].
  - vm_compute. auto.
  - vm_compute. reflexivity.
  - discriminate.
Qed.
Print Assumptions C04_root_mixed_refuted.

(* ======================================================================== *)
(* END TO END: the coordinates are the ones the read-side model gathers.
   [gathered p d] = parent identity and parentref of every result of the
   required query of Model/Eval.v (Proofs/EvalDelete.v: coord_of).  Whenever
   those coordinates are in document order within each parent, each node once
   (computable on the query's own answer; the harness evaluates it on the real
   NodeCoords), deleting at the path removes exactly the gathered nodes. *)
From YP Require Import PathParser Eval EvalDelete.

Theorem C04_delete_exact_end_to_end_partial :
  forall lit re_search nstr vstr kw_handler creator p d,
    wf_doc d ->
    doc_ordered d (map pc_pair (gathered lit re_search nstr vstr kw_handler creator p d)) = true ->
    delete_nodes (map (fun c => CNode c false) (gathered lit re_search nstr vstr kw_handler creator p d)) d
    = MDone (delete_spec d (map pc_pair (gathered lit re_search nstr vstr kw_handler creator p d))).
Proof. exact delete_gathered_exact. Qed.
Print Assumptions C04_delete_exact_end_to_end_partial.

Definition e2e_lit (s : string) : outcome litres := Ok LFail.
Definition e2e_re (_ _ : string) : outcome reres := Ok (RMatch false).
Definition e2e_kw (_ : bool) (_ : keyword) (_ : string) (_ : rval) (_ : ctx) : gen rval := gnil.
Definition e2e_cr (_ : list pseg) (_ : nat) (_ : rval) (_ : ctx) : gen rval := gnil.
Definition e2e_gathered (text : string) (d : node) : list (option N * pyval) :=
  match prepare 20 text with
  | Ok p => map pc_pair (gathered e2e_lit e2e_re (fun _ => "") (fun _ => "") e2e_kw e2e_cr p d)
  | _ => []
  end.

(* non-vacuity: a.* and a[1:3] style gathers on doc1 = {a: [1, [], 1, x], b: 5} *)
Example C04_end_to_end_nonvacuous :
  e2e_gathered "a.*" doc1 = [(Some 2%N, PInt 0); (Some 2%N, PInt 1); (Some 2%N, PInt 2); (Some 2%N, PInt 3)] /\
  doc_ordered doc1 (e2e_gathered "a.*" doc1) = true /\
  doc_ordered doc1 (e2e_gathered "**" doc1) = true /\
  doc_ordered doc1 (e2e_gathered "a[.=1]" doc1) = true.
Proof. vm_compute. repeat split. Qed.

(* the guard is not implied by the fragment: a deep traversal followed by a
   search on `.` meets a scalar twice -- as the child of the hash whose KEY
   matches and as the scalar whose VALUE matches ({a: aa}, **[.^a]) -- and can
   meet two children of one hash against document order ({a: b, b: zz},
   **[.=b]: first zz under key b, then b under key a).  The documented meaning
   (Spec/SpecC01.v) enumerates them the same way; the delete loop tolerates it
   for hashes, so this is a limit of the guard, not a defect. *)
Definition doc_dup : node := NMap (ct 0) [ (sk 1 "a", sk 2 "aa") ].
Definition doc_rev : node := NMap (ct 0) [ (sk 1 "a", sk 2 "b"); (sk 2 "b", sk 3 "zz") ].
Definition e2e_lit_str (s : string) : outcome litres := Ok LFail.
Theorem C01_results_doc_ordered_refuted :
  e2e_gathered "**[.^a]" doc_dup = [(Some 0%N, PStr "a"); (Some 0%N, PStr "a")] /\
  doc_ordered doc_dup (e2e_gathered "**[.^a]" doc_dup) = false /\
  e2e_gathered "**[.=b]" doc_rev = [(Some 0%N, PStr "b"); (Some 0%N, PStr "a")] /\
  doc_ordered doc_rev (e2e_gathered "**[.=b]" doc_rev) = false.
Proof. vm_compute. repeat split. Qed.
