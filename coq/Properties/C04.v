(* C04 - A delete removes exactly the matched nodes, whatever their number or
   position.  Statements only; proofs in Proofs/C04delete.v, Proofs/C04plan.v.

   Model: Mutate.delete_nodes = Processor._delete_nodes (processor.py, after
   fixes 42610a8 and 17f9ea8) run on the coordinates the read side gathered.
   Spec:  C04.delete_spec = the document with exactly the designated children
   removed (everything else untouched, relative order kept by construction). *)
From Coq Require Import List ZArith NArith Bool String.
From YP Require Import Outcome PyStr PyVal Doc Searches Mutate C04spec C04lists C04delete C04plan C04merge.
Import ListNotations.
Open Scope string_scope.

(* THE FULL THEOREM.  Whatever was gathered - Collector results nested to any
   depth, the same node any number of times, the nodes of one sequence in any
   order, negative indexes, empty containers, a node together with its
   ancestor - if every gathered coordinate locates a node of the document
   (del_all_located: its parent is a container object of the document and its
   parentref names a child of it; what the read side owes, C02), then exactly
   the located nodes are removed, nothing else changes, no exception is raised.
   (Before fix 17f9ea8 this held only under the guard no_dup_no_disorder: known
   finding F15.) *)
Theorem C04_delete_exact : forall d cs,
  wf_doc d ->
  del_all_located d (map pc_pair (leaf_coords cs)) = true ->
  delete_nodes cs d = MDone (delete_spec d (map pc_pair (leaf_coords cs))).
Proof. exact delete_exact. Qed.
Print Assumptions C04_delete_exact.

(* ... in particular for the plain coordinates of a single path without Collectors. *)
Theorem C04_delete_exact_single_path : forall d ps,
  wf_doc d ->
  del_all_located d (map pc_pair ps) = true ->
  delete_nodes (map (fun p => CNode p false) ps) d = MDone (delete_spec d (map pc_pair ps)).
Proof. exact delete_exact_plain. Qed.
Print Assumptions C04_delete_exact_single_path.

(* How the repaired code gets there: the order in which it processes the places
   (every place once, list elements by descending position) always satisfies
   the invariant of the deletion loop, and names the same nodes. *)
Theorem C04_plan_ordered : forall d ps,
  wf_doc d -> del_all_located d (map pc_pair ps) = true ->
  ordered_from d [] (map pc_pair (map snd (plan_entries d ps))) = true.
Proof. exact plan_ordered. Qed.
Print Assumptions C04_plan_ordered.

(* The dict branch of _delete_nodes first tests for a YAML-merge-key removal
   (parentref is the anchor name of a mapping AND the parent has merge keys);
   Mutate.delete_nodes_mg models that test (mg = the mappings that have merge
   keys), the removal itself is outside the model.  In a document without merge
   keys - and more generally whenever no processed coordinate passes the test -
   the run is the ordinary one all theorems here speak about. *)
Theorem C04_no_merge_keys : forall cs d, delete_nodes_mg [] cs d = delete_nodes cs d.
Proof. exact delete_nodes_mg_nil. Qed.
Print Assumptions C04_no_merge_keys.

Theorem C04_merge_test_not_passed : forall mg ps d,
  no_ymk_hit mg ps d = true -> run_del_mg mg ps d = run_del ps d.
Proof. exact run_del_mg_no_hit. Qed.
Print Assumptions C04_merge_test_not_passed.

(* THE FULL ROOT CLAUSE.  Deleting the document root is refused with a YAML Path
   error and changes nothing - wherever the root coordinate stands among the
   gathered ones, however deep in Collector results, and whatever else was
   gathered (since fix 1c243db the refusal comes before anything is deleted;
   before, this held only when the root was the coordinate the loop met first:
   known finding F15b). *)
Theorem C04_root_refused : forall cs d,
  In None (map pc_parent (leaf_coords cs)) ->
  delete_nodes cs d = Failed d (YPE NoDocument).
Proof. exact root_refused. Qed.
Print Assumptions C04_root_refused.

(* ... also in a document whose mappings carry merge keys *)
Theorem C04_root_refused_merge_keys : forall mg cs d,
  In None (map pc_parent (leaf_coords cs)) ->
  delete_nodes_mg mg cs d = Failed d (YPE NoDocument).
Proof. exact root_refused_mg. Qed.
Print Assumptions C04_root_refused_merge_keys.

(* ---- concrete documents ---- *)
Definition pl (o : N) : info := mkinfo o None false None.
Definition ct (o : N) : info := mkinfo o None true None.
Definition sk (o : N) (s : string) : node := NLeaf (pl o) (PStr s).
Definition iv (o : N) (z : Z) : node := NLeaf (pl o) (PInt z).

(* {a: [1, [], 1, x], b: 5}: the two 1s are one CPython object (oid 3) *)
Definition doc1 : node :=
  NMap (ct 0) [ (sk 1 "a", NSeq (ct 2) [iv 3 1; NSeq (ct 4) []; iv 3 1; sk 5 "x"]);
                (sk 6 "b", iv 7 5) ].

Definition plain (o : N) (r : pyval) : coord := CNode (mkpc (Some o) r) false.

(* non-vacuity: a[0], a[1] (an empty list), a[2] (equal to a[0]) and a[-1] all at once *)
Example C04_located_nonvacuous :
  wf_docb doc1 = true /\
  del_all_located doc1 (map pc_pair (leaf_coords [plain 2 (PInt 0); plain 2 (PInt 1); plain 2 (PInt 2); plain 2 (PInt (-1))])) = true /\
  delete_nodes [plain 2 (PInt 0); plain 2 (PInt 1); plain 2 (PInt 2); plain 2 (PInt (-1))] doc1
  = MDone (NMap (ct 0) [ (sk 1 "a", NSeq (ct 2) []); (sk 6 "b", iv 7 5) ]).
Proof. vm_compute. repeat split. Qed.

(* a nested match: a[1] and the whole of a *)
Example C04_nested_nonvacuous :
  del_all_located doc1 (map pc_pair (leaf_coords [plain 0 (PStr "a"); plain 2 (PInt 1)])) = true /\
  delete_nodes [plain 0 (PStr "a"); plain 2 (PInt 1)] doc1 = MDone (NMap (ct 0) [ (sk 6 "b", iv 7 5) ]).
Proof. vm_compute. repeat split. Qed.

(* the hypothesis is satisfied by what used to be outside the guard: a duplicate, a reversed pair, a negative
   index before a positive one, a Collector nested in a Collector; it fails only for a coordinate that names
   no child (index 9, key zz, the root) *)
Example C04_located_any_order :
  del_all_located doc1 [(Some 2%N, PInt 0); (Some 2%N, PInt 0)] = true /\
  del_all_located doc1 [(Some 2%N, PInt 2); (Some 2%N, PInt 0)] = true /\
  del_all_located doc1 [(Some 2%N, PInt (-2)); (Some 2%N, PInt 3); (Some 0%N, PStr "b")] = true /\
  del_all_located doc1 [(Some 2%N, PInt 9)] = false /\
  del_all_located doc1 [(Some 0%N, PStr "zz")] = false /\
  del_all_located doc1 [(None, PNone)] = false /\
  delete_nodes [CList [CList [plain 2 (PInt (-2)); plain 2 (PInt 3)] (mkpc None PNone) false; plain 2 (PInt 2);
                       plain 0 (PStr "b"); plain 2 (PInt 3)] (mkpc None PNone) false] doc1
  = MDone (NMap (ct 0) [ (sk 1 "a", NSeq (ct 2) [iv 3 1; NSeq (ct 4) []]) ]).
Proof. vm_compute. repeat split. Qed.

(* {m1: 1, base: &m1 {x: 1}, u: {z: 3 + merged x}}: key m1 is spelled like the anchor of the mapping `base`;
   the root has no merge keys (only u, oid 9, has), so `m1` is an ordinary delete; the same key inside u would
   enter the merge-key removal *)
Definition docM : node :=
  NMap (ct 0) [ (sk 1 "m1", iv 2 1);
                (sk 3 "base", NMap (mkinfo 4 (Some "m1") true None) [ (sk 5 "x", iv 2 1) ]);
                (sk 8 "u", NMap (ct 9) [ (sk 10 "z", iv 11 3); (sk 5 "x", iv 2 1) ]) ].
Example C04_merge_test_nonvacuous :
  is_ymk_anchor (PStr "m1") docM = true /\
  no_ymk_hit [9%N] [mkpc (Some 0%N) (PStr "m1")] docM = true /\
  delete_nodes_mg [9%N] [plain 0 (PStr "m1")] docM
  = MDone (NMap (ct 0) [ (sk 3 "base", NMap (mkinfo 4 (Some "m1") true None) [ (sk 5 "x", iv 2 1) ]);
                        (sk 8 "u", NMap (ct 9) [ (sk 10 "z", iv 11 3); (sk 5 "x", iv 2 1) ]) ]) /\
  delete_nodes_mg [9%N] [plain 9 (PStr "m1")] docM = Failed docM (PyCrash NotImplemented).
Proof. vm_compute. repeat split. Qed.

Example C04_root_nonvacuous :
  In None (map pc_parent (leaf_coords [CNode (mkpc None PNone) false])) /\
  delete_nodes [CNode (mkpc None PNone) false] doc1 = Failed doc1 (YPE NoDocument).
Proof. vm_compute. auto. Qed.

(* ---- former known finding F15, repaired by fix 17f9ea8: the witnesses of the
   former C04_delete_exact_refuted now satisfy the full theorem ----
   `(a[0])+(a[0])` on {a: [1, 2, 3]}: both coordinates designate a[0]; ONE node is removed
   (the old loop removed two and left [3]). *)
Definition doc2 : node := NMap (ct 0) [ (sk 1 "a", NSeq (ct 2) [iv 3 1; iv 4 2; iv 5 3]) ].
Definition dup_coords : list coord :=
  [CList [plain 2 (PInt 0); plain 2 (PInt 0)] (mkpc None PNone) false].

Example C04_duplicate_repaired :
  wf_docb doc2 = true /\
  del_all_located doc2 (map pc_pair (leaf_coords dup_coords)) = true /\
  del_plan doc2 dup_coords = [mkpc (Some 2%N) (PInt 0)] /\
  delete_nodes dup_coords doc2 = MDone (NMap (ct 0) [ (sk 1 "a", NSeq (ct 2) [iv 4 2; iv 5 3]) ]) /\
  delete_spec doc2 (map pc_pair (leaf_coords dup_coords)) = NMap (ct 0) [ (sk 1 "a", NSeq (ct 2) [iv 4 2; iv 5 3]) ].
Proof. vm_compute. repeat split. Qed.

(* `(a[2])+(a[0])` on {a: [1, 2, 3, 4]}: removes 1 and 3 (the old loop removed 1 and 4) *)
Definition doc3 : node := NMap (ct 0) [ (sk 1 "a", NSeq (ct 2) [iv 3 1; iv 4 2; iv 5 3; iv 6 4]) ].
Example C04_disorder_repaired :
  del_plan doc3 [CList [plain 2 (PInt 2); plain 2 (PInt 0)] (mkpc None PNone) false]
  = [mkpc (Some 2%N) (PInt 2); mkpc (Some 2%N) (PInt 0)] /\
  delete_nodes [CList [plain 2 (PInt 2); plain 2 (PInt 0)] (mkpc None PNone) false] doc3
  = MDone (NMap (ct 0) [ (sk 1 "a", NSeq (ct 2) [iv 4 2; iv 6 4]) ]).
Proof. vm_compute. repeat split. Qed.

(* former known finding F15b, repaired by fix 1c243db: `(/)+(b)` and `(b)+(/)` gathers are refused with the
   document unchanged (the old loop deleted b before refusing: the former C04_root_mixed_refuted witness) *)
Example C04_root_mixed_repaired :
  In None (map pc_parent (leaf_coords [CList [CNode (mkpc None PNone) false; plain 0 (PStr "b")] (mkpc None PNone) false])) /\
  delete_nodes [CList [CNode (mkpc None PNone) false; plain 0 (PStr "b")] (mkpc None PNone) false] doc1
  = Failed doc1 (YPE NoDocument) /\
  delete_nodes [CList [plain 0 (PStr "b"); plain 2 (PInt 0); CNode (mkpc None PNone) false] (mkpc None PNone) false] doc1
  = Failed doc1 (YPE NoDocument).
Proof. vm_compute. auto. Qed.

(* ======================================================================== *)
(* END TO END: the coordinates are the ones the read-side model gathers.
   [gathered p d] = parent identity and parentref of every result of the
   required query of Model/Eval.v (Proofs/EvalDelete.v: coord_of).  Whenever
   each of those coordinates locates a node (computable on the query's own
   answer; the harness evaluates it on the real NodeCoords; C02's subject),
   deleting at the path removes exactly the gathered nodes - in whatever order
   and however often the query yielded them. *)
From YP Require Import PathParser Eval EvalDelete.

Theorem C04_delete_exact_end_to_end :
  forall lit re_search nstr vstr kw_handler creator p d,
    wf_doc d ->
    del_all_located d (map pc_pair (gathered lit re_search nstr vstr kw_handler creator p d)) = true ->
    delete_nodes (map (fun c => CNode c false) (gathered lit re_search nstr vstr kw_handler creator p d)) d
    = MDone (delete_spec d (map pc_pair (gathered lit re_search nstr vstr kw_handler creator p d))).
Proof. exact delete_gathered_exact. Qed.
Print Assumptions C04_delete_exact_end_to_end.

Definition e2e_lit (s : string) : outcome litres := Ok LFail.
Definition e2e_re (_ _ : string) : outcome reres := Ok (RMatch false).
Definition e2e_kw (_ : bool) (_ : keyword) (_ : string) (_ : rval) (_ : ctx) : gen rval := gnil.
Definition e2e_cr (_ : list pseg) (_ : nat) (_ : rval) (_ : ctx) : gen rval := gnil.
Definition e2e_gathered (text : string) (d : node) : list (option N * pyval) :=
  match prepare 20 text with
  | Ok p => map pc_pair (gathered e2e_lit e2e_re (fun _ => "") (fun _ => "") e2e_kw e2e_cr p d)
  | _ => []
  end.

(* non-vacuity: a.*, ** and a search on doc1 = {a: [1, [], 1, x], b: 5} *)
Example C04_end_to_end_nonvacuous :
  e2e_gathered "a.*" doc1 = [(Some 2%N, PInt 0); (Some 2%N, PInt 1); (Some 2%N, PInt 2); (Some 2%N, PInt 3)] /\
  del_all_located doc1 (e2e_gathered "a.*" doc1) = true /\
  del_all_located doc1 (e2e_gathered "**" doc1) = true /\
  del_all_located doc1 (e2e_gathered "a[.=1]" doc1) = true.
Proof. vm_compute. repeat split. Qed.

(* queries of the fragment DO yield a node twice or against document order: a
   deep traversal followed by a search on `.` meets a scalar twice -- as the
   child of the hash whose KEY matches and as the scalar whose VALUE matches
   ({a: aa}, **[.^a]) -- and can meet two children of one hash against
   document order ({a: b, b: zz}, **[.=b]: first zz under key b, then b under
   key a).  Such answers were outside the former guard doc_ordered; they are
   inside the hypothesis of the full theorem (every coordinate locates a node). *)
Definition doc_dup : node := NMap (ct 0) [ (sk 1 "a", sk 2 "aa") ].
Definition doc_rev : node := NMap (ct 0) [ (sk 1 "a", sk 2 "b"); (sk 2 "b", sk 3 "zz") ].
Example C04_end_to_end_dup_and_disorder :
  e2e_gathered "**[.^a]" doc_dup = [(Some 0%N, PStr "a"); (Some 0%N, PStr "a")] /\
  del_all_located doc_dup (e2e_gathered "**[.^a]" doc_dup) = true /\
  e2e_gathered "**[.=b]" doc_rev = [(Some 0%N, PStr "b"); (Some 0%N, PStr "a")] /\
  del_all_located doc_rev (e2e_gathered "**[.=b]" doc_rev) = true.
Proof. vm_compute. repeat split. Qed.

(* ======================================================================== *)
(* END TO END WITH NOTHING LEFT TO ASSUME ABOUT THE READ SIDE (round proofs2;
   proofs: Proofs/EvalLocSet.v, Proofs/EvalDeleteLoc.v).  For every document in
   which every container object occurs once ([wf_doc]) and keys / set members are
   scalars, pairwise unequal ([c02_doc_ok]: true of every loaded document), every
   path of the C01 fragment WITHOUT slice segments ([no_slice]: the array form of
   a slice gathers a virtual list, witness below) - negative indexes, anchors,
   `**` followed by a filter, duplicates and disorder included -, every oracle:
   every gathered coordinate is the root coordinate or locates a node, hence
   deleting at the path either is refused with the document unchanged (the root
   was matched) or removes exactly the gathered nodes. *)
From YP Require Import SpecC01 SpecC02 EvalLocAll EvalDeleteLoc.

Theorem C04_gathered_located :
  forall lit re_search nstr vstr kw_handler creator segs d,
    wf_doc d -> c02_doc_ok d = true -> c01_frag (PPath segs) = true -> no_slice segs = true ->
    Forall (fun q => pc_parent q = None \/ del_located d (pc_pair q) = true)
           (gathered lit re_search nstr vstr kw_handler creator (PPath segs) d).
Proof. exact gathered_located. Qed.
Print Assumptions C04_gathered_located.

Theorem C04_delete_end_to_end_full :
  forall lit re_search nstr vstr kw_handler creator segs d,
    wf_doc d -> c02_doc_ok d = true -> c01_frag (PPath segs) = true -> no_slice segs = true ->
    delete_nodes (map (fun c => CNode c false) (gathered lit re_search nstr vstr kw_handler creator (PPath segs) d)) d
    = if has_root_coord (gathered lit re_search nstr vstr kw_handler creator (PPath segs) d)
      then Failed d (YPE NoDocument)
      else MDone (delete_spec d (map pc_pair (gathered lit re_search nstr vstr kw_handler creator (PPath segs) d))).
Proof. exact delete_gathered_full. Qed.
Print Assumptions C04_delete_end_to_end_full.

Definition e2e_guards (text : string) (d : node) : bool :=
  match prepare 20 text with
  | Ok (PPath segs) => wf_docb d && c02_doc_ok d && c01_frag (PPath segs) && no_slice segs
  | _ => false
  end.
Definition e2e_delete (text : string) (d : node) : option final :=
  match prepare 20 text with
  | Ok p => Some (delete_nodes (map (fun c => CNode c false) (gathered e2e_lit e2e_re (fun _ => "") (fun _ => "") e2e_kw e2e_cr p d)) d)
  | _ => None
  end.

(* non-vacuity on doc1 = {a: [1, [], 1, x], b: 5}: a negative index, a wildcard, `**` + filter (gathers a node
   twice), a search; a descendant search that matches the ROOT (refused, document unchanged) *)
Example C04_end_to_end_full_nonvacuous :
  e2e_guards "a[-1]" doc1 = true /\
  e2e_delete "a[-1]" doc1 = Some (MDone (NMap (ct 0) [ (sk 1 "a", NSeq (ct 2) [iv 3 1; NSeq (ct 4) []; iv 3 1]); (sk 6 "b", iv 7 5) ])) /\
  e2e_guards "a.*" doc1 = true /\
  e2e_delete "a.*" doc1 = Some (MDone (NMap (ct 0) [ (sk 1 "a", NSeq (ct 2) []); (sk 6 "b", iv 7 5) ])) /\
  e2e_guards "**[.=x]" doc1 = true /\
  e2e_delete "**[.=x]" doc1 = Some (MDone (NMap (ct 0) [ (sk 1 "a", NSeq (ct 2) [iv 3 1; NSeq (ct 4) []; iv 3 1]); (sk 6 "b", iv 7 5) ])) /\
  e2e_guards "**[.^a]" doc_dup = true /\ e2e_delete "**[.^a]" doc_dup = Some (MDone (NMap (ct 0) [])) /\
  e2e_guards "[a.3=x]" doc1 = true /\ e2e_gathered "[a.3=x]" doc1 = [(None, PNone)] /\
  e2e_delete "[a.3=x]" doc1 = Some (Failed doc1 (YPE NoDocument)).
Proof. vm_compute. repeat split. Qed.

(* why slices are outside: the array form gathers ONE virtual list whose parentref is the slice start; a start
   past the end names no child *)
Example C04_end_to_end_slice_unlocated :
  e2e_guards "a[5:9]" doc1 = false /\
  e2e_gathered "a[5:9]" doc1 = [(Some 2%N, PInt 5)] /\ del_all_located doc1 (e2e_gathered "a[5:9]" doc1) = false.
Proof. vm_compute. repeat split. Qed.

(* Round `compose`: C04's hypothesis DERIVED for the read-side model (Proofs/EvalSet.v).
   For a path of the C01 fragment (guards of C01_required_sem_partial: the strict reading of the
   specification marks nothing - F12a -, the document is not null; C02's slices_last; no virtual
   array-slice result), a loaded document (every container object once, keys and set members are
   leaves, keys pairwise different) and an answer none of whose results is the root or a set member
   (ce_elem_parent: computable on the answer), EVERY gathered coordinate locates a node:
   del_all_located holds - from C02_results_located (parent[parentref] is the node, the ancestry
   walks from the root).  Hence the delete is exactly delete_spec at the locations of exactly the
   nodes sem_doc selects, with no hypothesis about the answer left but ce_elem_parent.
   (Set members: C02's child relation says only "a member of that set", not that the parentref
   spells it; they stay under the hypothesis of C04_delete_exact_end_to_end.) *)
From YP Require Import SpecC01 EvalLocAll C03spec C03e2e EvalSet.

Theorem C04_gathered_located_end_to_end :
  forall lit re_search nstr vstr kw_handler creator segs d,
    c01_frag (PPath segs) = true -> is_null_node d = false ->
    specified (sem_doc lit re_search nstr true (PPath segs) d) = true ->
    slices_last segs = true -> ce_plain (sem_doc lit re_search nstr false (PPath segs) d) = true ->
    wf_doc d -> ce_flat d = true -> mkeys_distinct d = true ->
    forallb ce_elem_parent (fst (get_required lit re_search nstr vstr kw_handler creator (PPath segs) d)) = true ->
    del_all_located d (map pc_pair (gathered lit re_search nstr vstr kw_handler creator (PPath segs) d)) = true.
Proof. exact gathered_all_located. Qed.
Print Assumptions C04_gathered_located_end_to_end.

Theorem C04_delete_sem_end_to_end :
  forall lit re_search nstr vstr kw_handler creator segs d,
    c01_frag (PPath segs) = true -> is_null_node d = false ->
    specified (sem_doc lit re_search nstr true (PPath segs) d) = true ->
    slices_last segs = true -> ce_plain (sem_doc lit re_search nstr false (PPath segs) d) = true ->
    wf_doc d -> ce_flat d = true -> ce_small d = true -> mkeys_distinct d = true ->
    forallb ce_elem_parent (fst (get_required lit re_search nstr vstr kw_handler creator (PPath segs) d)) = true ->
    (* the gathered coordinates are the locations of exactly the selected nodes, in order ... *)
    Forall2 (ce_holds d) (map pc_pair (gathered lit re_search nstr vstr kw_handler creator (PPath segs) d))
            (sem_doc lit re_search nstr false (PPath segs) d) /\
    (* ... and the delete removes exactly the nodes at those locations *)
    delete_nodes (map (fun c => CNode c false) (gathered lit re_search nstr vstr kw_handler creator (PPath segs) d)) d
    = MDone (delete_spec d (map pc_pair (gathered lit re_search nstr vstr kw_handler creator (PPath segs) d))).
Proof. exact delete_required_e2e. Qed.
Print Assumptions C04_delete_sem_end_to_end.

(* non-vacuity on doc1 = {a: [1, [], 1, x], b: 5}: a.* (the shared int twice), a[-1], ** *)
Definition ce_e2e_guards (text : string) : bool :=
  match prepare 20 text with
  | Ok (PPath segs) =>
      let p := PPath segs in
      c01_frag p && specified (sem_doc e2e_lit e2e_re (fun _ => "") true p doc1) && slices_last segs &&
      ce_plain (sem_doc e2e_lit e2e_re (fun _ => "") false p doc1) && wf_docb doc1 && ce_flat doc1 && ce_small doc1 &&
      mkeys_distinct doc1 &&
      forallb ce_elem_parent (fst (get_required e2e_lit e2e_re (fun _ => "") (fun _ => "") e2e_kw e2e_cr p doc1))
  | _ => false
  end.
Example C04_delete_sem_end_to_end_nonvacuous :
  ce_e2e_guards "a.*" = true /\ ce_e2e_guards "a[-1]" = true /\ ce_e2e_guards "**" = true /\ ce_e2e_guards "/b" = true /\
  del_all_located doc1 (e2e_gathered "a.*" doc1) = true /\
  erase (delete_spec doc1 (e2e_gathered "a[-1]" doc1))
  = DMap [ (PStr "a", DSeq [DLeaf (PInt 1); DSeq []; DLeaf (PInt 1)]); (PStr "b", DLeaf (PInt 5)) ].
Proof. vm_compute. repeat split. Qed.

(* ---- the Array slice that selects nothing (fix f20b613; Proofs/C03slice.v) ----
   delete_nodes("a[2:1]") on {a: [1, 2, 3]} removed a[2]: the empty virtual list of the slice was gathered with the
   sliced Array and the START of the slice as its coordinates, and _delete_nodes took that for an element.  Now
   _leaf_node_coords leaves it out (Compose.ce_coord: the coordinate CList [], no leaf): nothing is deleted. *)
From YP Require Import Compose C03slice.

Theorem C04_empty_slice_deletes_nothing :
  forall cs1 cs2 pc nk d, delete_nodes (cs1 ++ CList [] pc nk :: cs2) d = delete_nodes (cs1 ++ cs2) d.
Proof. exact delete_empty_slice_skipped. Qed.
Print Assumptions C04_empty_slice_deletes_nothing.

Theorem C04_empty_slice_end_to_end :
  forall lit re_search nstr vstr kw_handler creator p d items,
    ce_required_raw lit re_search nstr vstr kw_handler creator p d = (items, Done) ->
    forallb empty_slice_itemb items = true ->
    ce_delete lit re_search nstr vstr kw_handler creator p d = CsDone d.
Proof. exact delete_empty_slices_e2e. Qed.
Print Assumptions C04_empty_slice_end_to_end.

(* on doc1 = {a: [1, [], 1, x], b: 5}: a[3:1] (was: a[3] deleted), a[7:9]; the non-empty slice a[0:2] still deletes *)
Definition e2e_slice_del (text : string) : Prop :=
  match prepare 20 text with
  | Ok p =>
      let g := ce_required_raw e2e_lit e2e_re (fun _ => "") (fun _ => "") e2e_kw e2e_cr p doc1 in
      snd g = Done /\ List.length (fst g) = 1 /\ forallb empty_slice_itemb (fst g) = true /\
      ce_delete e2e_lit e2e_re (fun _ => "") (fun _ => "") e2e_kw e2e_cr p doc1 = CsDone doc1
  | _ => False
  end.
Example C04_empty_slice_repaired :
  e2e_slice_del "a[3:1]" /\ e2e_slice_del "a[7:9]" /\
  match prepare 20 "a[0:2]" with
  | Ok p => match ce_delete e2e_lit e2e_re (fun _ => "") (fun _ => "") e2e_kw e2e_cr p doc1 with
            | CsDone d => erase d = DMap [ (PStr "a", DSeq [DLeaf (PInt 1); DLeaf (PStr "x")]); (PStr "b", DLeaf (PInt 5)) ]
            | _ => False
            end
  | _ => False
  end.
Proof. vm_compute. repeat split. Qed.
