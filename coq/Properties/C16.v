(* C16 -- The command-line tools deliver the library's answers and honest exit codes.
   Statements only; proofs live in Proofs/CliGetDiff.v, CliValidate.v, CliMerge.v, CliSetPaths.v.

   The model (Model/Cli.v) is the GLUE of the six main() functions.  Everything the
   library computes (the query result, the diff report, every merge step, the set/delete
   steps, the path searches), what ruamel does on each source, and argparse are INPUTS of
   the model; every theorem below is universally quantified over them.  Documents are
   abstract identifiers.  What a run "delivers" is the list of documents it dumps to STDOUT
   or writes to its target file. *)
From Coq Require Import List Ascii String ZArith Bool Arith.
From YP Require Import Outcome PyStr Cli CliSpec CliGetDiff CliValidate CliMerge CliSetPaths.
From YP Require Import MergeConfig MultiDoc CliLibSpec CliMergeModes.
Import ListNotations.
Open Scope string_scope.
Open Scope list_scope.

(* ------------------------------------------------------------------ *)
(* yaml-get *)

(* exit 0 exactly when: the command line is valid, the document loaded, the query ended
   normally with AT LEAST ONE node, and every matched container could be rendered as JSON *)
Theorem C16_get_exit_iff :
  forall a tty load qverb query,
    r_status (get_main a tty load qverb query) = Exit 0 <->
    (get_reaches_query a tty load /\
     exists nodes, query = LOk nodes /\ nodes <> [] /\ json_ok nodes = true).
Proof. exact get_exit_iff. Qed.
Print Assumptions C16_get_exit_iff.

(* the property's own wording: once the query was evaluated, exit 0 <-> something matched *)
Theorem C16_get_exit_matched :
  forall a tty load qverb nodes,
    get_reaches_query a tty load -> json_ok nodes = true ->
    (r_status (get_main a tty load qverb (LOk nodes)) = Exit 0 <-> nodes <> []).
Proof. exact get_exit_matched. Qed.
Print Assumptions C16_get_exit_matched.

(* stdout's data lines = one rendering per matched node, same number, same order:
   JSON for dict / list / set, "\x00" for None, ISO text for dates, str() with newlines escaped otherwise *)
Theorem C16_get_lines :
  forall a tty load qverb query,
    r_status (get_main a tty load qverb query) = Exit 0 ->
    exists nodes, query = LOk nodes /\
      data_lines (r_out (get_main a tty load qverb query)) = map render_node nodes.
Proof. exact get_lines. Qed.
Print Assumptions C16_get_lines.

Definition ex_args_get := mkget "doc.yaml" false (mknoise false false false) false false false false.
Definition ex_nodes :=
  [ mkobj 0 KDict false false "{}" "" "" JOk;
    mkobj 1 KNone false false "None" "" "" JOk;
    mkobj 2 KOther true true "2020-01-02 00:00:00" "2020-01-02" "2020-01-02T00:00:00" JOk;
    mkobj 3 KOther false false ("a" ++ nl ++ "b") "" "" JOk ].
Example C16_get_example :
  get_main ex_args_get true (R1Doc (Some 0)) 0 (LOk ex_nodes) =
  mkrun (Exit 0) [OJson 0; OText nul; OText "2020-01-02"; OText ("a" ++ backslash_n ++ "b")] [].
Proof. vm_compute. reflexivity. Qed.
Example C16_get_example_hyps : get_reaches_query ex_args_get true (R1Doc (Some 0)) /\ json_ok ex_nodes = true.
Proof. split; [split; [reflexivity|eexists; reflexivity]|reflexivity]. Qed.
Example C16_get_example_nomatch :
  r_status (get_main ex_args_get true (R1Doc None) 0 (LOk [])) = Exit 1 /\
  r_status (get_main ex_args_get true (R1Doc (Some 0)) 0 (LRaise UYpe)) = Exit 1.
Proof. split; reflexivity. Qed.

(* ------------------------------------------------------------------ *)
(* yaml-diff *)

(* once two documents were picked, the differ returned its report and every entry renders
   (str(entry) raises nothing): exit 0 <-> no entry is a difference; exit 1 otherwise *)
Theorem C16_diff_exit_iff :
  forall estr a lhs rhs entries li ri,
    dr_picked (diff_main estr a lhs rhs (LOk entries)) = Some (li, ri) -> all_render entries ->
    (r_status (dr_run (diff_main estr a lhs rhs (LOk entries))) = Exit 0 <-> no_difference (map fst entries)) /\
    (r_status (dr_run (diff_main estr a lhs rhs (LOk entries))) = Exit 1 <-> ~ no_difference (map fst entries)).
Proof. exact diff_exit_iff. Qed.
Print Assumptions C16_diff_exit_iff.

(* what is printed is exactly the entries the options select, in report order; nothing under --quiet *)
Theorem C16_diff_prints_entries :
  forall estr a lhs rhs entries li ri,
    dr_picked (diff_main estr a lhs rhs (LOk entries)) = Some (li, ri) -> all_render entries ->
    printed_entries (r_out (dr_run (diff_main estr a lhs rhs (LOk entries)))) =
    if n_quiet (da_noise a) then [] else selected_from a (map fst entries) 0.
Proof. exact diff_prints_entries. Qed.
Print Assumptions C16_diff_prints_entries.

Definition ex_args_diff :=
  mkdiff "l.yaml" "r.yaml" (mknoise false false false) false false false false false false false false None None.
Definition ex_src (name : string) (docs : list nat) := mksrc name true (mkraw docs None).
Example C16_diff_example :
  diff_main 9 ex_args_diff (ex_src "l.yaml" [1]) (ex_src "r.yaml" [2]) (LOk [(DSame, None); (DChange, None); (DAdd, None); (DSame, None)]) =
  mkdrun (mkrun (Exit 1) [OEntry 1; OSep; OEntry 2] []) (Some (0, 0)).
Proof. vm_compute. reflexivity. Qed.
Example C16_diff_example_equal :
  diff_main 9 ex_args_diff (ex_src "l.yaml" [1]) (ex_src "r.yaml" [1]) (LOk [(DSame, None); (DSame, None)]) =
  mkdrun (mkrun (Exit 0) [] []) (Some (0, 0)).
Proof. vm_compute. reflexivity. Qed.

(* ------------------------------------------------------------------ *)
(* yaml-validate *)

(* with an accepted command line: exit 0 exactly when every document of every named file
   loads AND, when a STDIN document waits (no "-" named, no --nostdin, not a TTY), every
   document of STDIN loads too.  (When a named file already failed the waiting STDIN is not
   read at all - the status is 2 either way, so the equivalence is unaffected.) *)
Theorem C16_validate_exit_iff :
  forall estr a tty srcs stdin_src,
    val_validate_errors (List.length srcs) (map s_name srcs) (va_nostdin a) tty = 0 ->
    (r_status (val_main estr a tty srcs stdin_src) = Exit 0 <->
     Forall loads srcs /\ (stdin_waits a tty srcs = true -> loads stdin_src)).
Proof. exact validate_exit_iff. Qed.
Print Assumptions C16_validate_exit_iff.

(* and the only other endings are status 2, or an exception the loader does not trap *)
Theorem C16_validate_status_range :
  forall estr a tty srcs stdin_src,
    val_validate_errors (List.length srcs) (map s_name srcs) (va_nostdin a) tty = 0 ->
    r_status (val_main estr a tty srcs stdin_src) = Exit 0 \/
    r_status (val_main estr a tty srcs stdin_src) = Exit 2 \/
    exists c, r_status (val_main estr a tty srcs stdin_src) = Uncaught (UCrash c).
Proof. exact validate_status_range. Qed.
Print Assumptions C16_validate_status_range.

Definition ex_args_val := mkval ["a.yaml"; "b.yaml"] false (mknoise false true false).
Example C16_validate_example :
  val_main 9 ex_args_val true
    [ex_src "a.yaml" [1; 2]; mksrc "b.yaml" true (mkraw [3] (Some ["ScannerError"; "MarkedYAMLError"; "YAMLError"; "Exception"]))]
    (ex_src "-" []) =
  mkrun (Exit 2) [OValid "a.yaml" 0; OValid "a.yaml" 1; OValid "b.yaml" 0; OInvalid "b.yaml" 1] [].
Proof. vm_compute. reflexivity. Qed.
Example C16_validate_example_hyp :
  val_validate_errors 2 ["a.yaml"; "b.yaml"] false true = 0.
Proof. reflexivity. Qed.
Example C16_validate_example_stdin :
  (* a failing waiting STDIN turns an otherwise clean run into status 2 *)
  r_status (val_main 9 (mkval ["a.yaml"] false (mknoise false false false)) false [ex_src "a.yaml" [1]]
              (mksrc "-" false (mkraw [] (Some ["ParserError"])))) = Exit 2.
Proof. reflexivity. Qed.

(* ------------------------------------------------------------------ *)
(* yaml-merge *)

(* default mode (condense_all), every source loads, no merge step raises: the run exits 0 and
   delivers exactly ONE document: the left-to-right fold of the library's pairwise merges over
   all input documents (named files in order, then a waiting STDIN), rendered in the format
   chosen from --document-format / the output file's extension / the first document's style *)
Theorem C16_merge_output :
  forall merge2 flow jview estr a tty srcs stdin_src nerr vl n',
    merges_clean merge2 ->
    ma_mode a = CondenseAll ->
    merge_validate a (List.length srcs) (map s_name srcs) tty = (nerr, vl, n') -> nerr = 0 -> ma_config_err a = None ->
    Forall (src_loads estr) srcs ->
    (stdin_waits_m a tty srcs = true -> src_loads estr stdin_src) ->
    ma_backup a && negb (ma_overwrite_exists a) = false ->
    forall d rest,
      flat_map (src_docs estr) srcs ++ (if stdin_waits_m a tty srcs then src_docs estr stdin_src else []) = d :: rest ->
      let m := fold_merge merge2 d rest in
      r_status (cli_merge_main merge2 flow jview estr a tty srcs stdin_src) = Exit 0 /\
      delivered (cli_merge_main merge2 flow jview estr a tty srcs stdin_src) =
        [(doc_is_json flow a m, [prepared flow jview a (prepared flow jview a m)])].
Proof. exact merge_output_condense. Qed.
Print Assumptions C16_merge_output.

(* any ending other than exit 0 (argument errors 1, unreadable input 3/4, a failing merge step
   11-14 / 31-32 / 41-42, an escaping exception) delivers no document at all *)
Theorem C16_merge_error_no_output :
  forall merge2 flow jview estr a tty srcs stdin_src,
    r_status (cli_merge_main merge2 flow jview estr a tty srcs stdin_src) <> Exit 0 ->
    delivered (cli_merge_main merge2 flow jview estr a tty srcs stdin_src) = [].
Proof. exact merge_fail_delivers_nothing. Qed.
Print Assumptions C16_merge_error_no_output.

Definition ex_merge2 (l r : nat) : option ufam * nat := (None, 10 * l + r).
Definition ex_args_merge :=
  mkmerge true (mknoise false false false) false false "" false "" false false FAuto CondenseAll "" None.
Example C16_merge_example :
  cli_merge_main ex_merge2 (fun _ => false) (fun d => d) 9 ex_args_merge true
    [ex_src "a.yaml" [1; 2]; ex_src "b.yaml" [3]] (ex_src "-" []) =
  mkrun (Exit 0) [ODump false [123]] [].
Proof. vm_compute. reflexivity. Qed.
Example C16_merge_example_clean : merges_clean ex_merge2.
Proof. intros l r. reflexivity. Qed.
Example C16_merge_example_error :
  (* the second step raises MergeException: status 13, nothing delivered *)
  cli_merge_main (fun l r => if Nat.eqb r 3 then (Some UMerge, l) else (None, 10 * l + r)) (fun _ => false) (fun d => d)
    9 ex_args_merge true [ex_src "a.yaml" [1]; ex_src "b.yaml" [2; 3]] (ex_src "-" []) =
  mkrun (Exit 13) [OHint] [].
Proof. vm_compute. reflexivity. Qed.
Example C16_merge_example_stdin_only :
  (* the repaired case: no YAML_FILE, a waiting STDIN supplies the documents *)
  cli_merge_main ex_merge2 (fun _ => false) (fun d => d) 9
    (mkmerge false (mknoise false false false) false false "" false "" false false FAuto CondenseAll "" None)
    false [] (ex_src "-" [4; 5]) =
  mkrun (Exit 0) [ODump false [45]] [].
Proof. vm_compute. reflexivity. Qed.

(* ---- the three multi-document modes ARE the library's (Model/MultiDoc.v, the model of C18) ---- *)

(* merge_docs of the glue on a source that loads = MultiDoc.merge_docs on the loaded stream, for ANY
   pairwise merge (failing steps included): same documents, same exit state, same exception family *)
Theorem C16_merge_docs_is_library :
  forall merge2 estr mode lhs s ds,
    get_doc_mergers estr s = MgOk ds ->
    same_drive (Cli.merge_docs merge2 estr mode lhs s)
               (MultiDoc.merge_docs nat (lib_merge2 merge2) (Ok (lib_mode mode)) (Some ds) lhs).
Proof. exact merge_docs_adapt. Qed.
Print Assumptions C16_merge_docs_is_library.

(* -M merge_across / -M matrix_merge, every source loads: when the library-level drivers, applied
   stream by stream in command-line order (named files, then a waiting STDIN; the first non-empty
   stream supplies the left-hand documents), end with state 0 and the documents d :: rest, the run
   exits 0 and delivers exactly those documents - the first decides the output format *)
Theorem C16_merge_modes_output :
  forall merge2 flow jview estr a tty srcs stdin_src nerr vl n',
    ma_mode a <> CondenseAll ->
    merge_validate a (List.length srcs) (map s_name srcs) tty = (nerr, vl, n') -> nerr = 0 -> ma_config_err a = None ->
    Forall (src_loads estr) srcs ->
    (stdin_waits_m a tty srcs = true -> src_loads estr stdin_src) ->
    ma_backup a && negb (ma_overwrite_exists a) = false ->
    forall d rest,
      lib_merge_streams merge2 (ma_mode a) [] (merge_streams estr a tty srcs stdin_src) = Ok (d :: rest, 0) ->
      r_status (cli_merge_main merge2 flow jview estr a tty srcs stdin_src) = Exit 0 /\
      delivered (cli_merge_main merge2 flow jview estr a tty srcs stdin_src) =
        [(doc_is_json flow a d,
          prepared flow jview a (prepared flow jview a d) :: map (prepared flow jview a) rest)].
Proof. exact merge_modes_output. Qed.
Print Assumptions C16_merge_modes_output.

(* ... and when a step of the selected mode fails, its exit state (31/32, 41/42) is the tool's exit
   status and nothing is delivered *)
Theorem C16_merge_modes_error :
  forall merge2 flow jview estr a tty srcs stdin_src nerr vl n',
    ma_mode a <> CondenseAll ->
    merge_validate a (List.length srcs) (map s_name srcs) tty = (nerr, vl, n') -> nerr = 0 -> ma_config_err a = None ->
    Forall (src_loads estr) srcs ->
    (stdin_waits_m a tty srcs = true -> src_loads estr stdin_src) ->
    forall out n,
      lib_merge_streams merge2 (ma_mode a) [] (merge_streams estr a tty srcs stdin_src) = Ok (out, S n) ->
      r_status (cli_merge_main merge2 flow jview estr a tty srcs stdin_src) = Exit (S n) /\
      delivered (cli_merge_main merge2 flow jview estr a tty srcs stdin_src) = [].
Proof. exact merge_modes_error. Qed.
Print Assumptions C16_merge_modes_error.

(* with C18_across: no step raises -> the i-th document of every later stream is merged into the
   i-th document so far, surplus documents are appended (MultiDoc.across_spec folded over the streams) *)
Theorem C16_merge_across_output :
  forall merge2 flow jview estr a tty srcs stdin_src nerr vl n',
    merges_clean merge2 ->
    ma_mode a = MergeAcross ->
    merge_validate a (List.length srcs) (map s_name srcs) tty = (nerr, vl, n') -> nerr = 0 -> ma_config_err a = None ->
    Forall (src_loads estr) srcs ->
    (stdin_waits_m a tty srcs = true -> src_loads estr stdin_src) ->
    ma_backup a && negb (ma_overwrite_exists a) = false ->
    forall d rest,
      across_streams merge2 (merge_streams estr a tty srcs stdin_src) = d :: rest ->
      r_status (cli_merge_main merge2 flow jview estr a tty srcs stdin_src) = Exit 0 /\
      delivered (cli_merge_main merge2 flow jview estr a tty srcs stdin_src) =
        [(doc_is_json flow a d,
          prepared flow jview a (prepared flow jview a d) :: map (prepared flow jview a) rest)].
Proof. exact merge_across_output. Qed.
Print Assumptions C16_merge_across_output.

(* with C18_matrix: no step raises -> every document of every later stream is merged, in order, into
   every document so far *)
Theorem C16_merge_matrix_output :
  forall merge2 flow jview estr a tty srcs stdin_src nerr vl n',
    merges_clean merge2 ->
    ma_mode a = MatrixMerge ->
    merge_validate a (List.length srcs) (map s_name srcs) tty = (nerr, vl, n') -> nerr = 0 -> ma_config_err a = None ->
    Forall (src_loads estr) srcs ->
    (stdin_waits_m a tty srcs = true -> src_loads estr stdin_src) ->
    ma_backup a && negb (ma_overwrite_exists a) = false ->
    forall d rest,
      matrix_streams merge2 (merge_streams estr a tty srcs stdin_src) = d :: rest ->
      r_status (cli_merge_main merge2 flow jview estr a tty srcs stdin_src) = Exit 0 /\
      delivered (cli_merge_main merge2 flow jview estr a tty srcs stdin_src) =
        [(doc_is_json flow a d,
          prepared flow jview a (prepared flow jview a d) :: map (prepared flow jview a) rest)].
Proof. exact merge_matrix_output. Qed.
Print Assumptions C16_merge_matrix_output.

Definition ex_args_mode (m : Cli.mdmode) :=
  mkmerge true (mknoise false false false) false false "" false "" false false FAuto m "" None.
Definition ex_mode_srcs := [ex_src "a.yaml" [1; 2]; ex_src "b.yaml" [3; 4; 5]].
Example C16_merge_across_example :
  cli_merge_main ex_merge2 (fun _ => false) (fun d => d) 9 (ex_args_mode MergeAcross) true ex_mode_srcs (ex_src "-" []) =
    mkrun (Exit 0) [ODump false [13; 24; 5]] [] /\
  across_streams ex_merge2 (merge_streams 9 (ex_args_mode MergeAcross) true ex_mode_srcs (ex_src "-" [])) = [13; 24; 5].
Proof. split; vm_compute; reflexivity. Qed.
Example C16_merge_matrix_example :
  cli_merge_main ex_merge2 (fun _ => false) (fun d => d) 9 (ex_args_mode MatrixMerge) true ex_mode_srcs (ex_src "-" []) =
    mkrun (Exit 0) [ODump false [1345; 2345]] [] /\
  matrix_streams ex_merge2 (merge_streams 9 (ex_args_mode MatrixMerge) true ex_mode_srcs (ex_src "-" [])) = [1345; 2345].
Proof. split; vm_compute; reflexivity. Qed.
Example C16_merge_modes_example_hyps :
  ma_mode (ex_args_mode MergeAcross) <> CondenseAll /\
  Forall (src_loads 9) ex_mode_srcs /\
  merge_validate (ex_args_mode MergeAcross) 2 ["a.yaml"; "b.yaml"] true = (0, [], mknoise true false false) /\
  stdin_waits_m (ex_args_mode MergeAcross) true ex_mode_srcs = false.
Proof.
  split; [discriminate|]. split; [|split; reflexivity].
  repeat constructor; eexists; reflexivity.
Qed.
Example C16_merge_modes_example_error :
  (* -M merge_across, the second pair raises MergeException: state 31 is the exit status, nothing delivered *)
  let m2 := fun l r => if Nat.eqb r 4 then (Some UMerge, l) else (None, 10 * l + r) in
  lib_merge_streams m2 MergeAcross [] (merge_streams 9 (ex_args_mode MergeAcross) true ex_mode_srcs (ex_src "-" [])) = Ok ([13; 2], 31) /\
  cli_merge_main m2 (fun _ => false) (fun d => d) 9 (ex_args_mode MergeAcross) true ex_mode_srcs (ex_src "-" []) =
    mkrun (Exit 31) [OHint] [].
Proof. split; vm_compute; reflexivity. Qed.

(* ------------------------------------------------------------------ *)
(* yaml-set *)

(* exit 0 => exactly one document is delivered (written to the file, or dumped to STDOUT when
   the document came from STDIN) and it is the library's post-state of the loaded document
   (for an empty file: of the freshly built one): --saveto applied first, then the change the
   options select - precisely, what the text written for that state loads back to: [yamlview] of it for
   YAML (the state itself when ruamel's emitter is faithful, CliSpec.dump_faithful), its JSON view for
   JSON (flow-style root or a .json name); every other ending - a failed --check (20), an unmatched path that must
   exist (1), a library error, an unreadable file - delivers nothing *)
Theorem C16_set_file :
  forall built saveto change flow dump_fail jsonview yamlview change_verb a tty valfile_err load gather,
    (r_status (cli_set_main built saveto change flow dump_fail jsonview yamlview change_verb a tty valfile_err load gather) = Exit 0 /\
     exists d0 j,
       (get_yaml_data load = L1Ok (Some d0) \/ (get_yaml_data load = L1Ok None /\ built = LOk d0)) /\
       delivered (cli_set_main built saveto change flow dump_fail jsonview yamlview change_verb a tty valfile_err load gather) =
         [(j, [set_written a flow yamlview jsonview (set_post a saveto change d0)])]) \/
    (r_status (cli_set_main built saveto change flow dump_fail jsonview yamlview change_verb a tty valfile_err load gather) <> Exit 0 /\
     delivered (cli_set_main built saveto change flow dump_fail jsonview yamlview change_verb a tty valfile_err load gather) = []).
Proof. exact set_file. Qed.
Print Assumptions C16_set_file.

Theorem C16_set_check_stops :
  forall saveto change flow dump_fail jsonview yamlview change_verb a n file d0 ns s h,
    sa_check a = true -> set_check a ns = CheckStop s h ->
    set_apply saveto change flow dump_fail jsonview yamlview change_verb a n file d0 ns = mkrun s (hints h) [].
Proof. exact set_check_stops. Qed.
Print Assumptions C16_set_check_stops.

(* the YAML dumper refuses the changed document (a tagged non-string scalar): the run ends with that
   exception, delivers nothing, and - after the fix - a file target is given its original bytes back *)
Theorem C16_set_dump_failure :
  forall a n file fl c yd jd d,
    negb fl && negb (sa_is_json_ext a) = true ->
    r_status (set_write a n file fl (Some c) yd jd d) = Uncaught (UCrash c) /\
    delivered (set_write a n file fl (Some c) yd jd d) = [] /\
    (is_dash file = false -> r_fx (set_write a n file fl (Some c) yd jd d) = [ERestore]).
Proof. exact set_write_dump_fails. Qed.
Print Assumptions C16_set_dump_failure.

Definition ex_args_set (check saveto mustexist : bool) :=
  mkset "doc.yaml" false (mknoise false false false) (Some "new") false false false false None false false ""
        false check saveto false mustexist true false false false false false 62 false.
Example C16_set_example :
  cli_set_main (LRaise UYpe) (fun d => LOk (d + 100)) (fun d => ChOk (d + 1)) (fun _ => false) (fun _ => None) (fun d => d) (fun d => d) (fun _ => 0)
    (ex_args_set true true false) true None (R1Doc (Some 5)) (LOk [mksn false (LOk false) true]) =
  mkrun (Exit 0) [] [EBackup; EWrite false [106]].
Proof. vm_compute. reflexivity. Qed.
(* "a file that reloads to the document the set/delete model predicts": true of a YAML write whenever
   ruamel's emitter is faithful on the post-state ... *)
Theorem C16_set_reloads_partial :
  forall a flow yamlview jsonview d,
    dump_faithful yamlview -> negb (flow d) && negb (sa_is_json_ext a) = true ->
    set_written a flow yamlview jsonview d = d.
Proof. exact set_written_faithful. Qed.
Print Assumptions C16_set_reloads_partial.
(* ... and false otherwise.  Real witness (known finding ruamel_block_scalar_indent): `yaml-set -g a
   -a '  padded' -F literal` writes `a: |4-` + `    padded`, which loads back as "padded" *)
Theorem C16_set_reloads_refuted :
  exists a flow yamlview jsonview d, set_written a flow yamlview jsonview d <> d.
Proof.
  exists (ex_args_set false false false), (fun _ => false), S, (fun d => d), 0. vm_compute. discriminate.
Qed.

Example C16_set_example_check_fails :
  cli_set_main (LRaise UYpe) (fun d => LOk (d + 100)) (fun d => ChOk (d + 1)) (fun _ => false) (fun _ => None) (fun d => d) (fun d => d) (fun _ => 0)
    (ex_args_set true false false) true None (R1Doc (Some 5)) (LOk [mksn false (LOk false) false]) =
  mkrun (Exit 20) [] [].
Proof. vm_compute. reflexivity. Qed.
Example C16_set_example_dump_fails :
  (* yaml-set -g a -T '!x' on an integer: the change succeeds, the dumper raises TypeError *)
  cli_set_main (LRaise UYpe) (fun d => LOk d) (fun d => ChOk (d + 1)) (fun _ => false) (fun _ => Some "TypeError") (fun d => d) (fun d => d) (fun _ => 0)
    (mkset "doc.yaml" false (mknoise false false false) None false false false false None false false ""
           true false false false false true false false false false false 62 false)
    true None (R1Doc (Some 5)) (LOk [mksn false (LOk false) true]) =
  mkrun (Uncaught (UCrash "TypeError")) [] [ERestore].
Proof. vm_compute. reflexivity. Qed.
Example C16_set_example_unmatched :
  cli_set_main (LRaise UYpe) (fun d => LOk d) (fun d => ChOk (d + 1)) (fun _ => false) (fun _ => None) (fun d => d) (fun d => d) (fun _ => 0)
    (ex_args_set false false true) true None (R1Doc (Some 5)) (LRaise UYpe) =
  mkrun (Exit 1) [] [].
Proof. vm_compute. reflexivity. Qed.

(* ------------------------------------------------------------------ *)
(* yaml-paths *)

(* for one document whose search and except expressions all evaluate: the entries handed to
   print_results are every search result, each path once, minus every --except result *)
Theorem C16_paths_prints_results :
  forall ss xs,
    all_clean ss -> all_clean xs ->
    exists es es2,
      paths_collect ss [] false 0 = (es, false, 0, None) /\
      paths_except xs es false 0 = (es2, false, 0, None) /\
      NoDup (entry_texts es2) /\
      (forall s, In s (entry_texts es2) <-> In s (result_texts ss) /\ ~ In s (result_texts xs)).
Proof. exact paths_entries. Qed.
Print Assumptions C16_paths_prints_results.

(* and print_results prints exactly one line per entry, in order *)
Theorem C16_paths_one_line_each :
  forall a file idx es,
    pa_values a = false ->
    exists texts, paths_print a file idx es = (map (fun t => OPath t None) texts, None) /\
                  List.length texts = List.length es.
Proof. exact paths_print_lines. Qed.
Print Assumptions C16_paths_one_line_each.

Definition ex_args_paths := mkpaths ["=1"; "^a"] ["=zz"] false false false false false false true false false false false.
Definition ex_pr (s : string) := mkpr s [s] VNoNode.
Example C16_paths_example :
  paths_main (fun _ => ([("=1", Some (LOk [ex_pr "a"; ex_pr "b.c"])); ("^a", Some (LOk [ex_pr "a"; ex_pr "ab"]))],
                        [("=zz", Some (LOk [ex_pr "b.c"]))]))
    9 ex_args_paths true [ex_src "f.yaml" [1]] (ex_src "-" []) =
  mkrun (Exit 0) [OPath "f.yaml/0[=1]: a" None; OPath "f.yaml/0[^a]: ab" None] [].
Proof. vm_compute. reflexivity. Qed.

(* ------------------------------------------------------------------ *)
(* Reading a document from a file or from standard input gives the same outcome *)

(* the single place where the delivery is visible to the glue is the loader's treatment of a
   stream: identical for every stream that holds a document or fails to load ... *)
Theorem C16_stdin_same_loader :
  forall estr r, holds_a_document r -> multidoc_yields estr true r = multidoc_yields estr false r.
Proof. exact multidoc_delivery_same. Qed.
Print Assumptions C16_stdin_same_loader.

(* ... and different for the EMPTY stream, which is not a document: an empty STDIN becomes one
   "" document, an empty file none (this is why the guard above is needed) *)
Theorem C16_stdin_same_empty_stream_refuted :
  exists estr r, multidoc_yields estr true r <> multidoc_yields estr false r.
Proof. exists 0, (mkraw [] None). exact (multidoc_delivery_empty_differs 0). Qed.

(* yaml-get: main() is a function of the loaded document - whether the document is named, given
   as "-", or implied by a waiting STDIN changes neither the status nor a single line *)
Theorem C16_stdin_same :
  forall a tty b tty' load qverb query,
    same_get_options a b ->
    get_validate_errors a tty = 0 -> get_validate_errors b tty' = 0 ->
    get_main a tty load qverb query = get_main b tty' load qverb query.
Proof. exact get_delivery_same. Qed.
Print Assumptions C16_stdin_same.

(* yaml-validate / yaml-diff (and yaml-merge, yaml-paths through the same loader): the per-source
   result does not depend on the delivery *)
Theorem C16_stdin_same_validate :
  forall estr n name isf raw,
    holds_a_document raw ->
    let '(st1, _, u1) := val_process_file estr n (mksrc "-" false raw) in
    let '(st2, _, u2) := val_process_file estr n (mksrc name isf raw) in
    st1 = st2 /\ u1 = u2.
Proof. exact validate_delivery_same. Qed.
Print Assumptions C16_stdin_same_validate.

Theorem C16_stdin_same_diff :
  forall estr name raw,
    holds_a_document raw ->
    diff_get_docs estr (mksrc "-" false raw) = diff_get_docs estr (mksrc name true raw).
Proof. exact diff_delivery_same. Qed.
Print Assumptions C16_stdin_same_diff.

Example C16_stdin_same_example :
  same_get_options ex_args_get (mkget "" false (mknoise false false false) false false false false) /\
  get_validate_errors ex_args_get true = 0 /\
  get_validate_errors (mkget "" false (mknoise false false false) false false false false) false = 0 /\
  holds_a_document (mkraw [1] None).
Proof. repeat split; try reflexivity. left. discriminate. Qed.

(* ================================================================== *)
(* END TO END: the glue model composed with the library MODELS (adapters: Spec/CliLibSpec.v,
   proofs: Proofs/CliCompose.v).  The abstract library results the theorems above quantify over are
   instantiated here with what Model/Eval.v, Model/Diff.v and Model/PathsSearch.v / PathsPrint.v
   compute. *)
From Coq Require Import NArith Permutation.
From YP Require Import PyVal Doc Generated PathParser PathPrinter Searches CliCompose.
From YP Require Eval SpecC15 EvalGood EvalPure Diff C06Spec PathsSearch PathsPrint.

(* ------------------------------------------------------------------ *)
(* yaml-get = Cli.get_main around Eval.get_required (CliLibSpec.get_tool) *)

(* the document loaded, the required query of the Eval model on it ended normally with [items]:
   exit 0 exactly when items is non-empty, and then stdout's data lines are one rendering per item,
   in query order.  Guards: the command line is valid; every matched container renders as JSON
   (json.dumps / a recursive alias are oracles).  The value facts F (identity, str(), ISO texts,
   the JSON outcome) are oracles; the KIND of each line (JSON / NUL / text) is computed from the
   Eval result itself (CliLibSpec.kind_of). *)
Theorem C16_get_end_to_end :
  forall lit re_search nstr vstr kw_handler creator F doc_of a tty load qverb p od items,
    get_validate_errors a tty = 0 -> get_yaml_data load = L1Ok od ->
    get_query lit re_search nstr vstr kw_handler creator doc_of p od = (items, Eval.Done) ->
    json_ok (map (result_obj F) items) = true ->
    exists r, get_tool lit re_search nstr vstr kw_handler creator F doc_of a tty load qverb p = Some r /\
      (r_status r = Exit 0 <-> items <> []) /\
      (items <> [] -> data_lines (r_out r) = map render_node (map (result_obj F) items)).
Proof. exact get_end_to_end. Qed.
Print Assumptions C16_get_end_to_end.

(* the query raises: no data line and a non-zero status (1: YAML Path error, 2: EYAML error) *)
Theorem C16_get_end_to_end_error :
  forall lit re_search nstr vstr kw_handler creator F doc_of a tty load qverb p od items e,
    get_validate_errors a tty = 0 -> get_yaml_data load = L1Ok od ->
    get_query lit re_search nstr vstr kw_handler creator doc_of p od = (items, Eval.Err e) ->
    exists r, get_tool lit re_search nstr vstr kw_handler creator F doc_of a tty load qverb p = Some r /\
      r_status r <> Exit 0 /\ data_lines (r_out r) = [] /\
      (forall k, e = YPE k -> r_status r = Exit 1) /\ (e = EyamlExc -> r_status r = Exit 2).
Proof. exact get_end_to_end_error. Qed.
Print Assumptions C16_get_end_to_end_error.

(* with C15 (collector-free paths, oracles that answer, clean keyword / creator models): the
   composed tool always answers, with status 0 or 1, and 0 exactly when something matched *)
Theorem C16_get_end_to_end_total :
  forall lit re_search nstr vstr kw_handler creator F doc_of,
    (forall s, exists r, lit s = Ok r /\ (forall c, r <> LCrash c)) ->
    (forall p s, exists r, re_search p s = Ok r) ->
    (forall inv k ps v c, EvalGood.sres EvalGood.coords_or_list (kw_handler inv k ps v c)) ->
    (forall inv k ps v c, EvalPure.nomut (kw_handler inv k ps v c)) ->
    (forall segs i v c, EvalGood.sres EvalGood.is_coords (creator segs i v c)) ->
    forall a tty load qverb p od,
      SpecC15.in_fragment p = true ->
      get_validate_errors a tty = 0 -> get_yaml_data load = L1Ok od ->
      let g := get_query lit re_search nstr vstr kw_handler creator doc_of p od in
      json_ok (map (result_obj F) (fst g)) = true ->
      exists r, get_tool lit re_search nstr vstr kw_handler creator F doc_of a tty load qverb p = Some r /\
        (r_status r = Exit 0 \/ r_status r = Exit 1) /\
        (r_status r = Exit 0 <-> (snd g = Eval.Done /\ fst g <> [])).
Proof. exact get_end_to_end_total. Qed.
Print Assumptions C16_get_end_to_end_total.

Definition e2e_lit (s : string) : outcome litres :=
  Ok (match py_int s with Some z => LVal (PInt z) | None => LFail end).
Definition e2e_re (_ _ : string) : outcome reres := Ok (RMatch false).
Definition e2e_kw (_ : bool) (_ : keyword) (_ : string) (_ : Eval.rval) (_ : Eval.ctx) : Eval.gen Eval.rval := (Eval.gnil).
Definition e2e_cr (_ : list Eval.pseg) (_ : nat) (_ : Eval.rval) (_ : Eval.ctx) : Eval.gen Eval.rval := (Eval.gerr (YPE Generic)).
Definition e2e_leaf (n : N) (v : pyval) : node := NLeaf (mkinfo n None false None) v.
(* {a: 1, b: {c: x}} *)
Definition e2e_doc : node :=
  NMap (mkinfo 0 None true None)
    [(e2e_leaf 1 (PStr "a"), e2e_leaf 2 (PInt 1));
     (e2e_leaf 3 (PStr "b"), NMap (mkinfo 4 None true None) [(e2e_leaf 5 (PStr "c"), e2e_leaf 6 (PStr "x"))])].
Definition e2e_facts : value_facts :=
  mkfacts (fun v => match v with Eval.RNode n => N.to_nat (node_oid n) | _ => 99 end)
          (fun _ => false) (fun _ => false)
          (fun v => match v with Eval.RNode (NLeaf _ pv) => py_str pv | _ => "" end)
          (fun _ => "") (fun _ => "") (fun _ => JOk).
Definition e2e_get (text : string) (load : raw1) : option crun :=
  match Eval.prepare 20 text with
  | Ok p => get_tool e2e_lit e2e_re (fun _ => "") (fun _ => "") e2e_kw e2e_cr e2e_facts (fun _ => e2e_doc)
              ex_args_get true load 0 p
  | _ => None
  end.
Example C16_get_end_to_end_example :
  e2e_get "*" (R1Doc (Some 0)) = Some (mkrun (Exit 0) [OText "1"; OJson 4] []) /\
  e2e_get "b.c" (R1Doc (Some 0)) = Some (mkrun (Exit 0) [OText "x"] []) /\
  e2e_get "zz" (R1Doc (Some 0)) = Some (mkrun (Exit 1) [] []) /\
  e2e_get "a" (R1Doc None) = Some (mkrun (Exit 1) [] []).
Proof. vm_compute. repeat split; reflexivity. Qed.
Example C16_get_end_to_end_example_hyps :
  match Eval.prepare 20 "*" with
  | Ok p => SpecC15.in_fragment p = true /\
            exists items, get_query e2e_lit e2e_re (fun _ => "") (fun _ => "") e2e_kw e2e_cr (fun _ => e2e_doc) p (Some 0)
                          = (items, Eval.Done) /\ items <> [] /\ json_ok (map (result_obj e2e_facts) items) = true
  | _ => False
  end.
Proof. vm_compute. split; [reflexivity|]. eexists. split; [reflexivity|]. split; [discriminate|reflexivity]. Qed.

(* ------------------------------------------------------------------ *)
(* yaml-diff = Cli.diff_main around Diff.compare_to *)

(* the two documents the glue picks (positions li / ri of the two loaded streams) go through the
   differ model; [report] is get_report's order, any permutation of compare_to's entries (its sort by
   line / column is not modelled); every entry renders.  Exit 0 exactly when the model's entries show
   no difference, exit 1 exactly when they do, and the printed entries are those the options select *)
Theorem C16_diff_end_to_end :
  forall path_eq cfg (doc_of : nat -> node) renders estr a lhs rhs li ri l r es report,
    dr_picked (diff_main estr a lhs rhs (LOk [])) = Some (li, ri) ->
    nth_error (src_stream estr lhs) li = Some l -> nth_error (src_stream estr rhs) ri = Some r ->
    Diff.compare_to path_eq cfg (doc_of l) (doc_of r) = Ok es ->
    Permutation report es ->
    let entries := map (dentry_of renders) report in
    all_render entries ->
    let run := dr_run (diff_main estr a lhs rhs (LOk entries)) in
    (r_status run = Exit 0 <-> C06Spec.shows_difference es = false) /\
    (r_status run = Exit 1 <-> C06Spec.shows_difference es = true) /\
    CliSpec.printed_entries (r_out run) =
      (if n_quiet (da_noise a) then [] else selected_from a (map fst entries) 0).
Proof. exact diff_end_to_end. Qed.
Print Assumptions C16_diff_end_to_end.

(* with C06_nonsame_iff_differ_positional - the property's wording: yaml-diff exits 0 exactly
   when the two documents are data-equal.  Hypotheses inherited from C06: positional comparison at every
   list (--arrays position and --aoh position|dpos, the defaults), real documents (unique scalar
   keys).  Tagged nodes are included since the repair of C06's finding F1 (values compared as YAML data
   instead of with Python ==) *)
Theorem C16_diff_exit_iff_data_equal :
  forall path_eq cfg hm (doc_of : nat -> node) renders estr a lhs rhs li ri l r es report,
    C06Spec.uniform cfg Diff.ArrPosition hm -> hm = Diff.AohPosition \/ hm = Diff.AohDpos ->
    C06Spec.wf_doc (doc_of l) = true -> C06Spec.wf_doc (doc_of r) = true ->
      dr_picked (diff_main estr a lhs rhs (LOk [])) = Some (li, ri) ->
    nth_error (src_stream estr lhs) li = Some l -> nth_error (src_stream estr rhs) ri = Some r ->
    Diff.compare_to path_eq cfg (doc_of l) (doc_of r) = Ok es ->
    Permutation report es ->
    let entries := map (dentry_of renders) report in
    all_render entries ->
    let run := dr_run (diff_main estr a lhs rhs (LOk entries)) in
    (r_status run = Exit 0 <-> C06Spec.data_eq (doc_of l) (doc_of r) = true) /\
    (r_status run = Exit 1 <-> C06Spec.data_eq (doc_of l) (doc_of r) = false).
Proof. exact diff_exit_iff_data_equal. Qed.
Print Assumptions C16_diff_exit_iff_data_equal.

(* with C06_nonsame_iff_differ: every uniform option pair without identity keys - exit 0
   exactly when the documents are equal up to what the options disregard *)
Theorem C16_diff_exit_iff_equiv :
  forall path_eq cfg am hm (doc_of : nat -> node) renders estr a lhs rhs li ri l r es report,
    C06Spec.uniform cfg am hm -> C06Spec.unkeyed hm = true ->
    C06Spec.wf_doc (doc_of l) = true -> C06Spec.wf_doc (doc_of r) = true ->
      dr_picked (diff_main estr a lhs rhs (LOk [])) = Some (li, ri) ->
    nth_error (src_stream estr lhs) li = Some l -> nth_error (src_stream estr rhs) ri = Some r ->
    Diff.compare_to path_eq cfg (doc_of l) (doc_of r) = Ok es ->
    Permutation report es ->
    let entries := map (dentry_of renders) report in
    all_render entries ->
    let run := dr_run (diff_main estr a lhs rhs (LOk entries)) in
    (r_status run = Exit 0 <-> C06Spec.equiv am hm (doc_of l) (doc_of r) = true).
Proof. exact diff_exit_iff_equiv. Qed.
Print Assumptions C16_diff_exit_iff_equiv.

(* the picked positions exist in the two streams, whatever the report *)
Theorem C16_diff_picked_in_streams :
  forall estr a lhs rhs rep li ri,
    dr_picked (diff_main estr a lhs rhs rep) = Some (li, ri) ->
    (exists l, nth_error (src_stream estr lhs) li = Some l) /\
    (exists r, nth_error (src_stream estr rhs) ri = Some r).
Proof. exact diff_picked_in_streams. Qed.
Print Assumptions C16_diff_picked_in_streams.

Definition e2e_cfg : Diff.dcfg := Diff.mkdcfg false [] [] None None None None.
(* document 1 = {a: 1, b: {c: x}}, document 2 = {a: 2, b: {c: x}}, document 3 = document 1 loaded again *)
Definition e2e_doc2 : node :=
  NMap (mkinfo 10 None true None)
    [(e2e_leaf 1 (PStr "a"), e2e_leaf 12 (PInt 2));
     (e2e_leaf 3 (PStr "b"), NMap (mkinfo 14 None true None) [(e2e_leaf 5 (PStr "c"), e2e_leaf 6 (PStr "x"))])].
Definition e2e_docs (i : nat) : node := match i with 2 => e2e_doc2 | _ => e2e_doc end.
Definition e2e_diff (l r : nat) : option diff_run :=
  match Diff.compare_to Diff.path_eq_real e2e_cfg (e2e_docs l) (e2e_docs r) with
  | Ok es => Some (diff_main 9 ex_args_diff (ex_src "l.yaml" [l]) (ex_src "r.yaml" [r])
                     (LOk (map (dentry_of (fun _ => None)) es)))
  | _ => None
  end.
Example C16_diff_end_to_end_example :
  option_map (fun x => (r_status (dr_run x), CliSpec.printed_entries (r_out (dr_run x)), dr_picked x)) (e2e_diff 1 2)
    = Some (Exit 1, [0], Some (0, 0)) /\
  option_map (fun x => (r_status (dr_run x), CliSpec.printed_entries (r_out (dr_run x)), dr_picked x)) (e2e_diff 1 3)
    = Some (Exit 0, [], Some (0, 0)) /\
  C06Spec.data_eq (e2e_docs 1) (e2e_docs 2) = false /\ C06Spec.data_eq (e2e_docs 1) (e2e_docs 3) = true.
Proof. vm_compute. repeat split; reflexivity. Qed.
Example C16_diff_end_to_end_example_hyps :
  C06Spec.uniform e2e_cfg Diff.ArrPosition Diff.AohPosition /\
  C06Spec.wf_doc e2e_doc = true /\ C06Spec.wf_doc e2e_doc2 = true /\
  dr_picked (diff_main 9 ex_args_diff (ex_src "l.yaml" [1]) (ex_src "r.yaml" [2]) (LOk [])) = Some (0, 0) /\
  nth_error (src_stream 9 (ex_src "l.yaml" [1])) 0 = Some 1.
Proof. split; [split; intros nc; reflexivity|]. vm_compute. repeat split; reflexivity. Qed.

(* ------------------------------------------------------------------ *)
(* yaml-paths = Cli.paths_docs around PathsSearch.search_doc, against PathsPrint.process_doc *)

(* one loaded document, no --except, no --values: fed with the search model's hits (adapter
   CliLibSpec.results_of), the glue's per-document step prints exactly the lines PathsPrint's model of
   process_yaml_file + print_results computes, in the same order, and its state is 1 exactly when an
   expression was rejected.  Guard: every hit has a printable path (its text parses - C07).  (Both
   models name the file STDIN exactly when yaml_file.strip() == "-".) *)
Theorem C16_paths_end_to_end :
  forall lit re_search value_text mt sp o d a fl exprs file idx lines bad,
    same_print_options a fl sp exprs ->
    hits_printable lit re_search mt sp o exprs d ->
    PathsPrint.process_doc lit re_search value_text mt sp o d fl exprs file (Z.of_nat idx) = Ok (lines, bad) ->
    exists nh,
      paths_docs a file [PDoc (results_of lit re_search mt sp o exprs d) []] idx 0 =
        ((if bad then 1 else 0), hints nh ++ map (fun t => OPath t None) lines, None).
Proof. exact paths_end_to_end. Qed.
Print Assumptions C16_paths_end_to_end.

Definition e2e_opts : PathsSearch.opts := PathsSearch.mkopts true false false true false false.
Definition e2e_flags : PathsPrint.pflags := PathsPrint.mkpflags false false false false false.
Definition e2e_pargs (exprs : list string) :=
  mkpaths exprs [] false false false false false false true false false false false.
Definition e2e_exprs : list string := ["=1"; "?"; "=x"].
Example C16_paths_end_to_end_example :
  PathsPrint.process_doc e2e_lit e2e_re (fun _ => Ok "") [] Dot e2e_opts e2e_doc e2e_flags e2e_exprs "f.yaml" 0
    = Ok (["f.yaml/0[=1]: a"; "f.yaml/0[=x]: b.c"], true) /\
  paths_docs (e2e_pargs e2e_exprs) "f.yaml" [PDoc (results_of e2e_lit e2e_re [] Dot e2e_opts e2e_exprs e2e_doc) []] 0 0
    = (1, [OHint; OPath "f.yaml/0[=1]: a" None; OPath "f.yaml/0[=x]: b.c" None], None).
Proof. vm_compute. split; reflexivity. Qed.
Example C16_paths_end_to_end_example_hyps :
  same_print_options (e2e_pargs e2e_exprs) e2e_flags Dot e2e_exprs /\
  hits_printable e2e_lit e2e_re [] Dot e2e_opts e2e_exprs e2e_doc.
Proof.
  split; [repeat split|].
  intros e tm hs h I G S H.
  destruct I as [<-|[<-|[<-|[]]]]; vm_compute in G; inversion G; subst tm; vm_compute in S; inversion S; subst hs;
    simpl in H; repeat (destruct H as [<-|H]; [eexists; vm_compute; reflexivity|]); destruct H.
Qed.

(* ================================================================== *)
(* yaml-set and yaml-merge: the glue composed with the library MODELS of the change / merge step
   (round `compose`; adapters Spec/CliLibSet.v, proofs Proofs/CliSetCompose.v, CliMergeCompose.v).

   Until here the glue's [change] (yaml-set) and [merge2] (yaml-merge) were abstract inputs.  They are
   now computed by the library models on Doc.node:
     processor.set_value(P, V, value_format, mustexist)  = Compose.ce_set: Eval.v gathers (required /
                                optional query), Mutate.set_value changes        -> [lib_set_value]
       ... its creating route (the optional gather reaches a node-creating branch, straight key / index
           path)               = Create.create_set
     processor.delete_gathered_nodes(gathered)            = Mutate.delete_nodes on the coordinates
                                Eval.get_required gathered                       -> [lib_set_delete]
     Merger(l).merge_with(r)   = Merge.merge_root, or for --mergeat P on an existing path
                                Eval.get_optional gathering the targets + MergeAt.merge_at -> [lib_merge_at]
   [doc_of] : the document behind an identifier, [id_of] : the identifier of a document (the harness numbers
   documents by plain data).  What stays an oracle: --check facts of a gathered node, the dump / reload
   views, the identity of key text objects ([ko_of]), --tag / --aliasof / --mergekey / --eyamlcrypt
   (no library model: [lib_change] answers ChCrash "OutOfModel" there), and the values the tool reads. *)
From Coq Require Import NArith.
From YP Require Import PyVal Doc PathParser Searches CliLibSet CliSetCompose CliMergeCompose.
From YP Require Eval Mutate Create Compose Merge MergeAt MergeAtProofs.
From YP Require Import SpecC01 EvalLocAll C03spec C03hist C04spec C03e2e C04delete EvalDelete EvalSet.
Open Scope list_scope.

(* yaml-set --change P --value V [--mustexist]: glue o (Eval + Mutate).  When the library call completes with
   state st', a run that exits 0 delivers exactly ONE document - what the text written for the identifier of
   st' loads back to - and any other ending delivers nothing.  For every [gather] fact. *)
Theorem C16_set_end_to_end :
  forall lit re_search nstr vstr kw_handler creator fl doc_of id_of ko_of
         built saveto flow dump_fail jsonview yamlview change_verb
         a p value fmt vo d0 tty valfile_err load gather st',
    set_change_kind a = ChSetValue -> sa_saveto a = false ->
    get_yaml_data load = L1Ok (Some d0) ->
    Compose.ce_set lit re_search nstr vstr kw_handler creator fl (sa_mustexist a || sa_saveto a) p (doc_of d0) value fmt vo
      = Compose.CeDone st' ->
    let run := cli_set_main built saveto
                 (lib_change lit re_search nstr vstr kw_handler creator fl doc_of id_of ko_of a p value fmt vo d0)
                 flow dump_fail jsonview yamlview change_verb a tty valfile_err load gather in
    (r_status run = Exit 0 ->
     exists j, delivered run = [(j, [set_written a flow yamlview jsonview (id_of (fst st'))])]) /\
    (r_status run <> Exit 0 -> delivered run = []).
Proof. exact set_value_e2e. Qed.
Print Assumptions C16_set_end_to_end.

(* ... and WHICH document that is (with C03_set_end_to_end): under its guards - C01's fragment and strict
   reading, slices last, no virtual result, ce_doc_ok, C03's acts_ok - st' is the successive substitution
   ce_set_spec at the locations of exactly the nodes sem_doc selects on the loaded document *)
Theorem C16_set_end_to_end_spec :
  forall lit re_search nstr vstr kw_handler creator fl doc_of id_of ko_of
         built saveto flow dump_fail jsonview yamlview change_verb
         a segs value fmt vo d0 tty valfile_err load gather st',
    let p := Eval.PPath segs in
    let d := doc_of d0 in
    let pcs := gathered lit re_search nstr vstr kw_handler creator p d in
    let s0 := sv_start vo (Mutate.init_state d) in
    set_change_kind a = ChSetValue -> sa_saveto a = false -> sa_mustexist a = true ->
    get_yaml_data load = L1Ok (Some d0) ->
    c01_frag p = true -> is_null_node d = false -> specified (sem_doc lit re_search nstr true p d) = true ->
    slices_last segs = true -> Compose.ce_name_kw p = false -> ce_plain (sem_doc lit re_search nstr false p d) = true ->
    ce_doc_ok d = true ->
    acts_ok lit fl value (fst s0) (ce_acts fmt pcs) (snd s0) = true ->
    Compose.ce_set lit re_search nstr vstr kw_handler creator fl true p d value fmt vo = Compose.CeDone st' ->
    let run := cli_set_main built saveto
                 (lib_change lit re_search nstr vstr kw_handler creator fl doc_of id_of ko_of a p value fmt vo d0)
                 flow dump_fail jsonview yamlview change_verb a tty valfile_err load gather in
    Forall2 (ce_holds d) (map pc_pair pcs) (sem_doc lit re_search nstr false p d) /\
    ce_set_spec lit fl value fmt (fst s0) (map pc_pair pcs) (snd s0) = Some st' /\
    (r_status run = Exit 0 ->
     exists j, delivered run = [(j, [set_written a flow yamlview jsonview (id_of (fst st'))])]) /\
    (r_status run <> Exit 0 -> delivered run = []).
Proof. exact set_value_e2e_spec. Qed.
Print Assumptions C16_set_end_to_end_spec.

(* the creating route: without --mustexist, the optional gather reaches a node-creating branch on a straight
   key / index path: the change step is Create.create_set (C09's model; what it creates: C09_create_frame,
   C09_create_resolves_partial, C09_create_pads_document_partial) *)
Theorem C16_set_create_end_to_end :
  forall lit re_search nstr vstr kw_handler creator fl doc_of id_of ko_of
         built saveto flow dump_fail jsonview yamlview change_verb
         a segs cs value fmt vo d0 tty valfile_err load gather o k st',
    set_change_kind a = ChSetValue -> sa_saveto a = false -> sa_mustexist a = false ->
    get_yaml_data load = L1Ok (Some d0) ->
    Compose.ce_set lit re_search nstr vstr kw_handler creator fl false (Eval.PPath segs) (doc_of d0) value fmt vo
      = Compose.CeRead (Eval.Mut o k) ->
    straight_segs ko_of segs = Some cs ->
    Create.create_set lit fl cs value fmt vo (doc_of d0) = Mutate.SDone st' ->
    let run := cli_set_main built saveto
                 (lib_change lit re_search nstr vstr kw_handler creator fl doc_of id_of ko_of a (Eval.PPath segs) value fmt vo d0)
                 flow dump_fail jsonview yamlview change_verb a tty valfile_err load gather in
    (r_status run = Exit 0 ->
     exists j, delivered run = [(j, [set_written a flow yamlview jsonview (id_of (fst st'))])]) /\
    (r_status run <> Exit 0 -> delivered run = []).
Proof. exact set_create_e2e. Qed.
Print Assumptions C16_set_create_end_to_end.

(* yaml-set --delete --change P (with C04_delete_exact_end_to_end): the delivered document is delete_spec of
   the loaded document at the coordinates the required query gathered - the locations of exactly the nodes
   sem_doc selects.  del_all_located stays a hypothesis (C04 / C02). *)
Theorem C16_set_delete_end_to_end :
  forall lit re_search nstr vstr kw_handler creator fl doc_of id_of ko_of
         built saveto flow dump_fail jsonview yamlview change_verb
         a segs value fmt vo d0 tty valfile_err load gather,
    let p := Eval.PPath segs in
    let d := doc_of d0 in
    let ps := map pc_pair (gathered lit re_search nstr vstr kw_handler creator p d) in
    set_change_kind a = ChDelete -> sa_saveto a = false ->
    get_yaml_data load = L1Ok (Some d0) ->
    c01_frag p = true -> is_null_node d = false -> specified (sem_doc lit re_search nstr true p d) = true ->
    slices_last segs = true -> ce_plain (sem_doc lit re_search nstr false p d) = true ->
    sem_doc lit re_search nstr false p d <> [] ->
    ce_doc_ok d = true -> del_all_located d ps = true ->
    let run := cli_set_main built saveto
                 (lib_change lit re_search nstr vstr kw_handler creator fl doc_of id_of ko_of a p value fmt vo d0)
                 flow dump_fail jsonview yamlview change_verb a tty valfile_err load gather in
    Forall2 (ce_holds d) ps (sem_doc lit re_search nstr false p d) /\
    (r_status run = Exit 0 ->
     exists j, delivered run = [(j, [set_written a flow yamlview jsonview (id_of (delete_spec d ps))])]) /\
    (r_status run <> Exit 0 -> delivered run = []).
Proof. exact set_delete_e2e_spec. Qed.
Print Assumptions C16_set_delete_end_to_end.

(* the change step raises a YAML Path error (nothing matched although it must exist - C03_set_end_to_end's
   Unmatched clause -, a refused key collision, an impossible format): "Applying changes" ends with status 1
   and no file effect *)
Theorem C16_set_end_to_end_error :
  forall lit re_search nstr vstr kw_handler creator fl doc_of id_of ko_of
         flow dump_fail jsonview yamlview change_verb a p value fmt vo d0 n file out d1 k d2,
    set_change_kind a = ChSetValue ->
    lib_change lit re_search nstr vstr kw_handler creator fl doc_of id_of ko_of a p value fmt vo d0 d1
      = change_of_exn (YPE k) d2 ->
    let r := set_change_tail (lib_change lit re_search nstr vstr kw_handler creator fl doc_of id_of ko_of a p value fmt vo d0)
               flow dump_fail jsonview yamlview change_verb a n file out d1 in
    r_status r = Exit 1 /\ r_fx r = [] /\ delivered r = dumped (r_out r).
Proof. exact set_value_e2e_error. Qed.
Print Assumptions C16_set_end_to_end_error.

(* ---- non-vacuity: the document {a: 1, b: [x, y]} behind identifier 5 ---- *)
Definition x_inf (o : N) (c : bool) : info := mkinfo o None c None.
Definition x_s (o : N) (s : string) : node := NLeaf (x_inf o false) (PStr s).
Definition x_i (o : N) (z : Z) : node := NLeaf (x_inf o false) (PInt z).
Definition x_doc : node :=
  NMap (x_inf 0 true) [ (x_s 1 "a", x_i 2 1); (x_s 3 "b", NSeq (x_inf 4 true) [x_s 5 "x"; x_s 6 "y"]) ].
Definition x_lit (s : string) : outcome litres := Ok LFail.
Definition x_fl (s : string) : outcome Mutate.flres := Ok Mutate.FFail.
Definition x_re (_ _ : string) : outcome reres := Ok (RMatch false).
Definition x_kw (_ : bool) (_ : keyword) (_ : string) (_ : Eval.rval) (_ : Eval.ctx) : Eval.gen Eval.rval := (Eval.gnil).
Definition x_cr (_ : list Eval.pseg) (_ : nat) (_ : Eval.rval) (_ : Eval.ctx) : Eval.gen Eval.rval := ([], Eval.Mut 0 PNone).
Definition x_nstr (_ : node) : string := "".
Definition x_vstr (_ : list Eval.rval) : string := "".
Definition x_null : node := NLeaf (x_inf 0 false) PNone.
Definition x_doc_of (i : nat) : node := if Nat.eqb i 5 then x_doc else x_null.
Definition x_id_of (n : node) : nat := N.to_nat (Mutate.max_oid n).
Definition x_sn (_ : Eval.rval) : setnode := mksn false (LOk false) true.
Definition x_ko (_ : string) : option N := None.
Definition x_pp (t : string) : Eval.ppath := match Eval.prepare 20 t with Ok p => p | _ => Eval.PFail (YPE Generic) end.
Definition ex_args_del :=
  mkset "doc.yaml" false (mknoise false false false) None false false false false None false true ""
        false false false false false true false false false false false 62 false.
(* the whole tool: glue around the library models, gather included *)
Definition x_tool (a : set_args) (text : string) : option crun :=
  match lib_set_gather x_lit x_re x_nstr x_vstr x_kw x_cr x_doc_of x_sn (x_pp text) 5 with
  | Some g => Some (cli_set_main (LRaise UYpe) (fun d => LOk d)
                      (lib_change x_lit x_re x_nstr x_vstr x_kw x_cr x_fl x_doc_of x_id_of x_ko a (x_pp text)
                                  (PStr "new") Mutate.FBare None 5)
                      (fun _ => false) (fun _ => None) (fun d => d) (fun d => d) (fun _ => 0)
                      a true None (R1Doc (Some 5)) g)
  | None => None
  end.

(* yaml-set --mustexist -g b[0] -a new --backup doc.yaml: every hypothesis of C16_set_end_to_end_spec; the state
   left is {a: 1, b: [new, y]} (identifier 8 = its largest object identity); exit 0, backup, one document written *)
Example C16_set_end_to_end_nonvacuous :
  let a := ex_args_set false false true in
  match x_pp "b[0]" with
  | Eval.PPath segs =>
      let p := Eval.PPath segs in
      let pcs := gathered x_lit x_re x_nstr x_vstr x_kw x_cr p x_doc in
      let s0 := sv_start None (Mutate.init_state x_doc) in
      set_change_kind a = ChSetValue /\ sa_saveto a = false /\ sa_mustexist a = true /\
      c01_frag p = true /\ specified (sem_doc x_lit x_re x_nstr true p x_doc) = true /\ slices_last segs = true /\
      Compose.ce_name_kw p = false /\ ce_plain (sem_doc x_lit x_re x_nstr false p x_doc) = true /\
      ce_doc_ok x_doc = true /\ acts_ok x_lit x_fl (PStr "new") (fst s0) (ce_acts Mutate.FBare pcs) (snd s0) = true /\
      map pc_pair pcs = [(Some 4%N, PInt 0)] /\
      match Compose.ce_set x_lit x_re x_nstr x_vstr x_kw x_cr x_fl true p x_doc (PStr "new") Mutate.FBare None with
      | Compose.CeDone st' =>
          erase (fst st') = DMap [ (PStr "a", DLeaf (PInt 1)); (PStr "b", DSeq [DLeaf (PStr "new"); DLeaf (PStr "y")]) ] /\
          x_id_of (fst st') = 8
      | _ => False
      end /\
      x_tool a "b[0]" = Some (mkrun (Exit 0) [] [EBackup; EWrite false [8]])
  | _ => False
  end.
Proof. vm_compute. repeat split. Qed.

(* the creating route (c.d is missing: {a: 1, b: [x, y], c: {d: new}}), the Unmatched error of --mustexist,
   and --delete of b[0] ({a: 1, b: [y]}) *)
Example C16_set_routes_nonvacuous :
  x_tool (ex_args_set false false false) "c.d" = Some (mkrun (Exit 0) [] [EBackup; EWrite false [12]]) /\
  x_tool (ex_args_set false false true) "c.d" = Some (mkrun (Exit 1) [] []) /\
  set_change_kind ex_args_del = ChDelete /\
  x_tool ex_args_del "b[0]" = Some (mkrun (Exit 0) [] [EBackup; EWrite false [6]]).
Proof. vm_compute. repeat split. Qed.

(* ------------------------------------------------------------------ *)
(* yaml-merge: glue o library merge.  Generic in the node-level model [m] of one Merger(l).merge_with(r):
   in the default mode, when every source loads, the left-to-right fold of [m] over the input DOCUMENTS
   completes with D, and the identifiers are coherent along that fold, the run exits 0 and delivers exactly
   one document whose identifier stands for D.  Inherited from C16_merge_output: its global hypothesis
   merges_clean, here "the library merge completes for the documents behind any two identifiers". *)
Theorem C16_merge_end_to_end_generic :
  forall doc_of id_of m flow jview estr a tty srcs stdin_src nerr vl n',
    (forall l r, exists x, m (doc_of l) (doc_of r) = Ok x) ->
    ma_mode a = CondenseAll ->
    merge_validate a (List.length srcs) (map s_name srcs) tty = (nerr, vl, n') -> nerr = 0 -> ma_config_err a = None ->
    Forall (src_loads estr) srcs ->
    (stdin_waits_m a tty srcs = true -> src_loads estr stdin_src) ->
    ma_backup a && negb (ma_overwrite_exists a) = false ->
    forall d rest D,
      flat_map (src_docs estr) srcs ++ (if stdin_waits_m a tty srcs then src_docs estr stdin_src else []) = d :: rest ->
      fold_nodes m (doc_of d) (map doc_of rest) = Ok D -> fold_coherent doc_of id_of m (doc_of d) (map doc_of rest) ->
      let run := cli_merge_main (merge2_of doc_of id_of m) flow jview estr a tty srcs stdin_src in
      exists i, doc_of i = D /\
        r_status run = Exit 0 /\
        delivered run = [(doc_is_json flow a i, [prepared flow jview a (prepared flow jview a i)])].
Proof. exact merge_e2e. Qed.
Print Assumptions C16_merge_end_to_end_generic.

(* default insertion point: Merger.merge_with = Merge.merge_root (what the merged document is: C05's theorems
   about merge_rec / merge_simple_lists, which merge_root dispatches to) *)
Theorem C16_merge_end_to_end :
  forall lit cfg doc_of id_of flow jview estr a tty srcs stdin_src nerr vl n',
    (forall l r, exists x, Merge.merge_root lit cfg (doc_of l) (doc_of r) = Ok x) ->
    ma_mode a = CondenseAll ->
    merge_validate a (List.length srcs) (map s_name srcs) tty = (nerr, vl, n') -> nerr = 0 -> ma_config_err a = None ->
    Forall (src_loads estr) srcs ->
    (stdin_waits_m a tty srcs = true -> src_loads estr stdin_src) ->
    ma_backup a && negb (ma_overwrite_exists a) = false ->
    forall d rest D,
      flat_map (src_docs estr) srcs ++ (if stdin_waits_m a tty srcs then src_docs estr stdin_src else []) = d :: rest ->
      fold_nodes (Merge.merge_root lit cfg) (doc_of d) (map doc_of rest) = Ok D ->
      fold_coherent doc_of id_of (Merge.merge_root lit cfg) (doc_of d) (map doc_of rest) ->
      let run := cli_merge_main (merge2_of doc_of id_of (Merge.merge_root lit cfg)) flow jview estr a tty srcs stdin_src in
      exists i, doc_of i = D /\
        r_status run = Exit 0 /\
        delivered run = [(doc_is_json flow a i, [prepared flow jview a (prepared flow jview a i)])].
Proof. intros lit cfg doc_of id_of. exact (merge_e2e doc_of id_of (Merge.merge_root lit cfg)). Qed.
Print Assumptions C16_merge_end_to_end.

(* --mergeat P on an existing path: Merger.merge_with = the optional query of Eval.v gathering the targets +
   MergeAt.merge_at merging into them *)
Theorem C16_mergeat_end_to_end :
  forall lit re_search nstr vstr kw_handler creator cfg p doc_of id_of flow jview estr a tty srcs stdin_src nerr vl n',
    let m := lib_merge_at lit re_search nstr vstr kw_handler creator cfg p in
    (forall l r, exists x, m (doc_of l) (doc_of r) = Ok x) ->
    ma_mode a = CondenseAll ->
    merge_validate a (List.length srcs) (map s_name srcs) tty = (nerr, vl, n') -> nerr = 0 -> ma_config_err a = None ->
    Forall (src_loads estr) srcs ->
    (stdin_waits_m a tty srcs = true -> src_loads estr stdin_src) ->
    ma_backup a && negb (ma_overwrite_exists a) = false ->
    forall d rest D,
      flat_map (src_docs estr) srcs ++ (if stdin_waits_m a tty srcs then src_docs estr stdin_src else []) = d :: rest ->
      fold_nodes m (doc_of d) (map doc_of rest) = Ok D -> fold_coherent doc_of id_of m (doc_of d) (map doc_of rest) ->
      let run := cli_merge_main (merge2_of doc_of id_of m) flow jview estr a tty srcs stdin_src in
      exists i, doc_of i = D /\
        r_status run = Exit 0 /\
        delivered run = [(doc_is_json flow a i, [prepared flow jview a (prepared flow jview a i)])].
Proof.
  intros lit re_search nstr vstr kw_handler creator cfg p doc_of id_of.
  exact (merge_e2e doc_of id_of (lib_merge_at lit re_search nstr vstr kw_handler creator cfg p)).
Qed.
Print Assumptions C16_mergeat_end_to_end.

(* one such step IS MergeAt.merge_at on the Doc locations of the evaluator's answer, so C11's theorems speak
   about it: in particular (C11_frame) every location that leaves all targets holds what it held *)
Theorem C16_mergeat_step_is_C11 :
  forall lit re_search nstr vstr kw_handler creator cfg p l r out,
    lib_merge_at lit re_search nstr vstr kw_handler creator cfg p l r = Ok out ->
    exists items ts,
      Eval.get_optional lit re_search nstr vstr kw_handler creator p l = (items, Eval.Done) /\
      target_locs items = Some ts /\
      MergeAt.merge_at lit cfg (match p with Eval.PPath [] => true | _ => false end) ts l r = Ok out /\
      (forall q, Forall (fun t => MergeAtProofs.leaves t q) ts -> lookup out q = lookup l q).
Proof. exact mergeat_step. Qed.
Print Assumptions C16_mergeat_step_is_C11.

(* ---- non-vacuity: a.yaml = {a: {k: 1}}, b.yaml = {a: {b: 2}}, c.yaml = {a: {c: 3}} ---- *)
Definition x_cfg : mconfig := mkconfig false [] [] None None None None None None None None None None.
Definition x_A : node := NMap (x_inf 1 true) [ (x_s 2 "a", NMap (x_inf 3 true) [ (x_s 4 "k", x_i 5 1) ]) ].
Definition x_B : node := NMap (x_inf 6 true) [ (x_s 2 "a", NMap (x_inf 7 true) [ (x_s 8 "b", x_i 9 2) ]) ].
Definition x_C : node := NMap (x_inf 10 true) [ (x_s 2 "a", NMap (x_inf 11 true) [ (x_s 12 "c", x_i 13 3) ]) ].
Fixpoint x_size (n : node) : nat :=
  match n with
  | NLeaf _ _ => 1
  | NMap _ kvs => S (fold_right (fun kv acc => x_size (snd kv) + acc) 0 kvs)
  | NSeq _ els => S (fold_right (fun x acc => x_size x + acc) 0 els)
  | NSet _ els => S (List.length els)
  end.
Definition x_mid (n : node) : nat := 100 * N.to_nat (node_oid n) + x_size n.
Definition x_or_null (o : outcome node) : node := match o with Ok d => d | _ => x_null end.
(* the universe of one run: the three inputs and the two intermediate results; every other identifier stands for A *)
Definition x_universe (m : node -> node -> outcome node) : list node :=
  let ab := x_or_null (m x_A x_B) in [x_A; x_B; x_C; ab; x_or_null (m ab x_C)].
Definition x_mdoc_of (m : node -> node -> outcome node) (i : nat) : node :=
  match find (fun n => Nat.eqb (x_mid n) i) (x_universe m) with Some n => n | None => x_A end.
Definition x_total (m : node -> node -> outcome node) : bool :=
  forallb (fun l => forallb (fun r => match m l r with Ok _ => true | _ => false end) (x_universe m)) (x_universe m).
Definition x_root := Merge.merge_root x_lit x_cfg.
Definition x_at := lib_merge_at x_lit x_re x_nstr x_vstr x_kw x_cr x_cfg (x_pp "/a").
Definition x_srcs := [ex_src "a.yaml" [x_mid x_A]; ex_src "b.yaml" [x_mid x_B]; ex_src "c.yaml" [x_mid x_C]].

Lemma x_in_universe : forall m i, In (x_mdoc_of m i) (x_universe m).
Proof.
  intros m i. unfold x_mdoc_of. destruct (find _ (x_universe m)) as [n|] eqn:E.
  - apply find_some in E. exact (proj1 E).
  - left. reflexivity.
Qed.
Lemma x_total_sound : forall m, x_total m = true -> forall l r, exists x, m (x_mdoc_of m l) (x_mdoc_of m r) = Ok x.
Proof.
  intros m H l r. unfold x_total in H. rewrite forallb_forall in H.
  specialize (H _ (x_in_universe m l)). rewrite forallb_forall in H. specialize (H _ (x_in_universe m r)).
  destruct (m (x_mdoc_of m l) (x_mdoc_of m r)); try discriminate. eauto.
Qed.

(* yaml-merge a.yaml b.yaml c.yaml: every hypothesis of C16_merge_end_to_end; one document delivered,
   {a: {k: 1, b: 2, c: 3}} - the deep merge of the three hashes *)
Example C16_merge_end_to_end_nonvacuous :
  (forall l r, exists x, x_root (x_mdoc_of x_root l) (x_mdoc_of x_root r) = Ok x) /\
  map (x_mdoc_of x_root) [x_mid x_A; x_mid x_B; x_mid x_C] = [x_A; x_B; x_C] /\
  match fold_nodes x_root x_A [x_B; x_C] with
  | Ok D =>
      erase D = DMap [ (PStr "a", DMap [ (PStr "k", DLeaf (PInt 1)); (PStr "b", DLeaf (PInt 2)); (PStr "c", DLeaf (PInt 3)) ]) ] /\
      cli_merge_main (merge2_of (x_mdoc_of x_root) x_mid x_root) (fun _ => false) (fun d => d) 9 ex_args_merge true x_srcs (ex_src "-" [])
      = mkrun (Exit 0) [ODump false [x_mid D]] [] /\
      x_mdoc_of x_root (x_mid D) = D
  | _ => False
  end /\
  fold_coherent (x_mdoc_of x_root) x_mid x_root x_A [x_B; x_C].
Proof.
  split; [apply x_total_sound; vm_compute; reflexivity|]. vm_compute. repeat split.
Qed.

(* yaml-merge --mergeat=/a a.yaml b.yaml c.yaml: the whole right-hand documents are merged INTO the hash at /a:
   {a: {k: 1, a: {b: 2, c: 3}}} *)
Example C16_mergeat_end_to_end_nonvacuous :
  (forall l r, exists x, x_at (x_mdoc_of x_at l) (x_mdoc_of x_at r) = Ok x) /\
  match fold_nodes x_at x_A [x_B; x_C] with
  | Ok D =>
      erase D = DMap [ (PStr "a", DMap [ (PStr "k", DLeaf (PInt 1));
                                         (PStr "a", DMap [ (PStr "b", DLeaf (PInt 2)); (PStr "c", DLeaf (PInt 3)) ]) ]) ] /\
      cli_merge_main (merge2_of (x_mdoc_of x_at) x_mid x_at) (fun _ => false) (fun d => d) 9 ex_args_merge true x_srcs (ex_src "-" [])
      = mkrun (Exit 0) [ODump false [x_mid D]] [] /\
      x_mdoc_of x_at (x_mid D) = D
  | _ => False
  end /\
  fold_coherent (x_mdoc_of x_at) x_mid x_at x_A [x_B; x_C].
Proof.
  split; [apply x_total_sound; vm_compute; reflexivity|]. vm_compute. repeat split.
Qed.

(* Every remaining statement of this file, so that none is left unaudited. *)
Print Assumptions C16_set_reloads_refuted.
Print Assumptions C16_stdin_same_empty_stream_refuted.
Print Assumptions x_in_universe.
Print Assumptions x_total_sound.
