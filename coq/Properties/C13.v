(* C13 -- Search keywords select by their definitions.
   Statements only; proofs in Proofs/KeywordProofs.v.  The model is
   Model/Keywords.v (KeywordSearches of yamlpath/common/keywordsearches.py);
   the definitions are Spec/SpecC13.v.  Every theorem quantifies over all
   oracles (ast.literal_eval, re, str() of containers), all documents, all
   contexts (location, parent, parentref, translated path, ancestry).

   A member of a collection is (optional comparable value, coordinates under
   which it is yielded); [list_member] / [aoh_member attr] read the members off
   a list / an Array-of-Hashes: a null element, a record without the attribute
   and a record whose attribute is null have nothing to compare (None).
   "Same-kind scalars": all ints or all floats, each being its own typed
   reading ([same_kind_num]). *)
From Coq Require Import List Ascii String ZArith QArith Bool.
From YP Require Import Outcome PyStr PyVal Doc PathParser Searches Keywords SpecC13 KeywordProofs.
Import ListNotations.
Open Scope string_scope.

(* ---- max / min over a list of same-kind scalars (nulls allowed) ---- *)
Theorem C13_max_set :
  forall lit re_search node_str ints i els x,
    node_is_aoh true (NSeq i els) = false ->
    (forall v c, In (Some v, c) (map (list_member node_str x) (enumerate els)) -> same_kind_num lit ints v) ->
    exists res,
      kw_max lit re_search node_str false [] (NSeq i els) x = Ok res /\
      forall c, In c res <-> max_members coords num_key (map (list_member node_str x) (enumerate els)) c.
Proof.
  exact (fun lit re ns ints i els x =>
           extremum_list_same_kind lit re ns (NSeq i els) MGt ints false i els x (or_introl eq_refl)).
Qed.
Print Assumptions C13_max_set.

Theorem C13_max_set_inverted :
  forall lit re_search node_str ints i els x,
    node_is_aoh true (NSeq i els) = false ->
    (forall v c, In (Some v, c) (map (list_member node_str x) (enumerate els)) -> same_kind_num lit ints v) ->
    exists res,
      kw_max lit re_search node_str true [] (NSeq i els) x = Ok res /\
      forall c, In c res <-> non_max_members coords num_key (map (list_member node_str x) (enumerate els)) c.
Proof.
  exact (fun lit re ns ints i els x =>
           extremum_list_same_kind lit re ns (NSeq i els) MGt ints true i els x (or_introl eq_refl)).
Qed.
Print Assumptions C13_max_set_inverted.

Theorem C13_min_set :
  forall lit re_search node_str ints i els x,
    node_is_aoh true (NSeq i els) = false ->
    (forall v c, In (Some v, c) (map (list_member node_str x) (enumerate els)) -> same_kind_num lit ints v) ->
    exists res,
      kw_min lit re_search node_str false [] (NSeq i els) x = Ok res /\
      forall c, In c res <-> min_members coords num_key (map (list_member node_str x) (enumerate els)) c.
Proof.
  exact (fun lit re ns ints i els x =>
           extremum_list_same_kind lit re ns (NSeq i els) MLt ints false i els x (or_intror eq_refl)).
Qed.
Print Assumptions C13_min_set.

Theorem C13_min_set_inverted :
  forall lit re_search node_str ints i els x,
    node_is_aoh true (NSeq i els) = false ->
    (forall v c, In (Some v, c) (map (list_member node_str x) (enumerate els)) -> same_kind_num lit ints v) ->
    exists res,
      kw_min lit re_search node_str true [] (NSeq i els) x = Ok res /\
      forall c, In c res <-> non_min_members coords num_key (map (list_member node_str x) (enumerate els)) c.
Proof.
  exact (fun lit re ns ints i els x =>
           extremum_list_same_kind lit re ns (NSeq i els) MLt ints true i els x (or_intror eq_refl)).
Qed.
Print Assumptions C13_min_set_inverted.

(* ---- max / min over an Array-of-Hashes by a named attribute: present,
   absent, repeated or null ---- *)
Theorem C13_max_attr :
  forall lit re_search node_str ints invert attr i els x,
    node_is_aoh true (NSeq i els) = true ->
    (forall v c, In (Some v, c) (map (aoh_member node_str attr x) (enumerate els)) -> same_kind_num lit ints v) ->
    exists res,
      kw_max lit re_search node_str invert [attr] (NSeq i els) x = Ok res /\
      forall c, In c res <-> selected MGt invert (map (aoh_member node_str attr x) (enumerate els)) c.
Proof.
  exact (fun lit re ns ints invert attr i els x =>
           extremum_aoh_same_kind lit re ns (NSeq i els) MGt ints invert attr i els x (or_introl eq_refl)).
Qed.
Print Assumptions C13_max_attr.

Theorem C13_min_attr :
  forall lit re_search node_str ints invert attr i els x,
    node_is_aoh true (NSeq i els) = true ->
    (forall v c, In (Some v, c) (map (aoh_member node_str attr x) (enumerate els)) -> same_kind_num lit ints v) ->
    exists res,
      kw_min lit re_search node_str invert [attr] (NSeq i els) x = Ok res /\
      forall c, In c res <-> selected MLt invert (map (aoh_member node_str attr x) (enumerate els)) c.
Proof.
  exact (fun lit re ns ints invert attr i els x =>
           extremum_aoh_same_kind lit re ns (NSeq i els) MLt ints invert attr i els x (or_intror eq_refl)).
Qed.
Print Assumptions C13_min_attr.

(* [selected] is the spec, spelled per keyword and inversion *)
Theorem C13_selected_is_spec :
  forall ms c,
    (selected MGt false ms c <-> max_members coords num_key ms c) /\
    (selected MGt true ms c <-> non_max_members coords num_key ms c) /\
    (selected MLt false ms c <-> min_members coords num_key ms c) /\
    (selected MLt true ms c <-> non_min_members coords num_key ms c).
Proof. exact (fun ms c => conj (iff_refl _) (conj (iff_refl _) (conj (iff_refl _) (iff_refl _)))). Qed.

(* ---- has_child ---- *)
Theorem C13_has_child_hash :
  forall doc invert key i kvs x,
    plain_key key ->
    has_child doc invert [key] (NMap i kvs) x =
      Ok (if xorb (has_key (NMap i kvs) key) invert then [self_coords x] else []).
Proof. exact has_child_map. Qed.
Print Assumptions C13_has_child_hash.

Theorem C13_has_child_aoh :
  forall doc invert key i els x c,
    plain_key key ->
    node_is_aoh false (NSeq i els) = true ->
    exists res, has_child doc invert [key] (NSeq i els) x = Ok res /\
      (In c res <->
       exists idx ele, nth_error els idx = Some ele /\
         xorb (has_key ele key) invert = true /\ c = self_coords (elem_ctx x idx)).
Proof. exact has_child_aoh. Qed.
Print Assumptions C13_has_child_aoh.

(* ---- parent(n) ---- *)
Theorem C13_parent_nth :
  forall p z x,
    py_int p = Some z -> (1 <= z)%Z -> (z <= Z.of_nat (List.length (k_here x)))%Z ->
    k_ancestry x = ancestry_of [] (k_here x) -> List.length (k_path x) = List.length (k_here x) ->
    exists c, kw_parent false [p] x = Ok [c] /\
      c_node c = AtLoc (nth_ancestor (Z.to_nat z) (k_here x)) /\
      c_ancestry c = ancestry_of [] (nth_ancestor (Z.to_nat z) (k_here x)).
Proof. exact parent_nth. Qed.
Print Assumptions C13_parent_nth.

Theorem C13_parent_refuses_above_root :
  forall p z x,
    py_int p = Some z -> (Z.of_nat (List.length (k_ancestry x)) < z)%Z ->
    exists k, kw_parent false [p] x = Raise (YPE k).
Proof. exact parent_refuses_above_root. Qed.
Print Assumptions C13_parent_refuses_above_root.

Theorem C13_parent_zero_is_self :
  forall p z x, py_int p = Some z -> (z < 1)%Z -> kw_parent false [p] x = Ok [self_coords x].
Proof. exact parent_zero_is_self. Qed.

(* ---- name() ---- *)
Theorem C13_name :
  forall x,
    kw_name_search false [] x =
      Ok [mkcoords (RefVal (k_parentref x)) (k_parent x) (k_parentref x) (k_path x) (k_ancestry x)].
Proof. exact name_spec. Qed.
Print Assumptions C13_name.

Theorem C13_name_refuses :
  forall invert params x,
    invert = true \/ 1 < List.length params -> exists k, kw_name_search invert params x = Raise (YPE k).
Proof. exact name_refuses. Qed.

(* ---- non-vacuity and behaviour on concrete documents ---- *)
Definition lf (o : N) (v : pyval) : node := NLeaf (mkinfo o None false None) v.
Definition ex_lit : string -> outcome litres := lit_of_table [].
Definition ex_re : string -> string -> outcome reres := re_of_table [].
Definition ex_str (_ : node) : string := "?".
(* x: [3, null, 5, 5]  reached as /x *)
Definition ex_list : node := NSeq (mkinfo 2 None true None) [lf 3 (PInt 3); lf 4 PNone; lf 5 (PInt 5); lf 5 (PInt 5)].
Definition ex_doc : node := NMap (mkinfo 0 None true None) [(lf 1 (PStr "x"), ex_list)].
Definition ex_ctx : kctx := mkkctx [RKey (PStr "x")] (Some []) (Some (RKey (PStr "x"))) [RKey (PStr "x")] [([], RKey (PStr "x"))].

(* the hypotheses of C13_max_set hold of it ... *)
Example C13_ex_hyps :
  node_is_aoh true ex_list = false /\
  forall v c, In (Some v, c) (map (list_member ex_str ex_ctx) (enumerate [lf 3 (PInt 3); lf 4 PNone; lf 5 (PInt 5); lf 5 (PInt 5)])) ->
    same_kind_num ex_lit true v.
Proof.
  split; [reflexivity|]. intros v c H. cbv in H.
  destruct H as [H|[H|[H|[H|H]]]]; try contradiction; try discriminate;
    inversion H; subst; (split; [eexists; reflexivity|vm_compute; reflexivity]).
Qed.
(* ... and this is what the keywords yield: both 5s; inverted, the 3 and the null *)
Example C13_ex_max :
  omap (map c_node) (kw_max ex_lit ex_re ex_str false [] ex_list ex_ctx) =
    Ok [AtLoc [RKey (PStr "x"); RIdx 2]; AtLoc [RKey (PStr "x"); RIdx 3]] /\
  omap (map c_node) (kw_max ex_lit ex_re ex_str true [] ex_list ex_ctx) =
    Ok [AtLoc [RKey (PStr "x"); RIdx 1]; AtLoc [RKey (PStr "x"); RIdx 0]] /\   (* discard order: a set *)
  omap (map c_node) (kw_min ex_lit ex_re ex_str false [] ex_list ex_ctx) =
    Ok [AtLoc [RKey (PStr "x"); RIdx 0]].
Proof. vm_compute. repeat split; reflexivity. Qed.

(* unique / distinct on the same list: 3 and null occur once; the 5s twice *)
Example C13_ex_unique_distinct :
  omap (map c_node) (kw_unique false [] ex_list ex_ctx) =
    Ok [AtLoc [RKey (PStr "x"); RIdx 0]; AtLoc [RKey (PStr "x"); RIdx 1]] /\
  omap (map c_node) (kw_unique true [] ex_list ex_ctx) =
    Ok [AtLoc [RKey (PStr "x"); RIdx 2]; AtLoc [RKey (PStr "x"); RIdx 3]] /\
  omap (map c_node) (kw_distinct false [] ex_list ex_ctx) =
    Ok [AtLoc [RKey (PStr "x"); RIdx 0]; AtLoc [RKey (PStr "x"); RIdx 1]; AtLoc [RKey (PStr "x"); RIdx 2]].
Proof. vm_compute. repeat split; reflexivity. Qed.

(* parent: hypotheses of C13_parent_nth hold for the element x[2] and n = 2 *)
Definition ex_ctx2 : kctx :=
  mkkctx [RKey (PStr "x"); RIdx 2] (Some [RKey (PStr "x")]) (Some (RIdx 2)) [RKey (PStr "x"); RIdx 2]
         [([], RKey (PStr "x")); ([RKey (PStr "x")], RIdx 2)].
Example C13_ex_parent :
  py_int "2" = Some 2%Z /\ k_ancestry ex_ctx2 = ancestry_of [] (k_here ex_ctx2) /\
  omap (map c_node) (kw_parent false ["2"] ex_ctx2) = Ok [AtLoc []] /\
  kw_parent false ["3"] ex_ctx2 = Raise (YPE Generic).
Proof. vm_compute. repeat split; reflexivity. Qed.

Example C13_ex_has_child :
  plain_key "x" /\
  omap (map c_node) (has_child ex_doc false ["x"] ex_doc (mkkctx [] None None [] [])) = Ok [AtLoc []] /\
  has_child ex_doc true ["x"] ex_doc (mkkctx [] None None [] []) = Ok [].
Proof. split; [discriminate|]. vm_compute. split; reflexivity. Qed.
