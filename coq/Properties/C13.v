(* C13 -- Search keywords select by their definitions.
   Statements only; proofs in Proofs/KeywordProofs.v.  The model is
   Model/Keywords.v (KeywordSearches of yamlpath/common/keywordsearches.py);
   the definitions are Spec/SpecC13.v.  Every theorem quantifies over all
   oracles (ast.literal_eval, re, str() of containers), all documents, all
   contexts (location, parent, parentref, translated path, ancestry).

   A member of a collection is (optional comparable value, coordinates under
   which it is yielded); [list_member] / [aoh_member attr] read the members off
   a list / an Array-of-Hashes: a null element, a record without the attribute
   and a record whose attribute is null have nothing to compare (None).
   "Same-kind scalars": all ints, all floats or all text, each member being its
   own typed reading ([same_kind lit k]; [same_kind_num lit ints] for the two
   numeric kinds).  That is true of EVERY int ([C13_int_is_same_kind]); for a
   float it says that its repr is not a spelling of true/false, for text that
   it is no Python literal and no spelling of true/false (Nodes.typed_value
   would read it as something else, and Searches.search_matches compares typed
   readings).  Numbers are ordered by value ([num_le num_key]), text
   lexicographically by code point ([text_le]).

   unique / distinct: the members of a collection are (value node, coordinates)
   ([collection_gmembers]: the elements of a plain list; the records of an
   Array-of-Hashes / the children of a hash of hashes that HAVE the attribute
   -- null is a value here, an absent attribute is not); [vmembers] reads the
   scalar values off them.  Equality of values is Python's ==
   (1 == 1.0 == True), an equivalence ([C13_py_eq_equivalence]). *)
From Coq Require Import List Ascii String ZArith QArith Bool.
From YP Require Import Outcome PyStr PyVal Doc PathParser Searches Keywords SpecC12 SpecC13 PyValOrder KeywordProofs GroupProofs MixedProofs MixedKinds.
Import ListNotations.
Open Scope string_scope.

(* ---- max / min over a list of same-kind scalars (nulls allowed) ---- *)
Theorem C13_max_set :
  forall lit re_search node_str ints i els x,
    node_is_aoh true (NSeq i els) = false ->
    (forall v c, In (Some v, c) (map (list_member node_str x) (enumerate els)) -> same_kind_num lit ints v) ->
    exists res,
      kw_max lit re_search node_str false [] (NSeq i els) x = Ok res /\
      forall c, In c res <-> max_members coords num_key (map (list_member node_str x) (enumerate els)) c.
Proof.
  exact (fun lit re ns ints i els x =>
           extremum_list_same_kind lit re ns (NSeq i els) MGt ints false i els x (or_introl eq_refl)).
Qed.
Print Assumptions C13_max_set.

Theorem C13_max_set_inverted :
  forall lit re_search node_str ints i els x,
    node_is_aoh true (NSeq i els) = false ->
    (forall v c, In (Some v, c) (map (list_member node_str x) (enumerate els)) -> same_kind_num lit ints v) ->
    exists res,
      kw_max lit re_search node_str true [] (NSeq i els) x = Ok res /\
      forall c, In c res <-> non_max_members coords num_key (map (list_member node_str x) (enumerate els)) c.
Proof.
  exact (fun lit re ns ints i els x =>
           extremum_list_same_kind lit re ns (NSeq i els) MGt ints true i els x (or_introl eq_refl)).
Qed.
Print Assumptions C13_max_set_inverted.

Theorem C13_min_set :
  forall lit re_search node_str ints i els x,
    node_is_aoh true (NSeq i els) = false ->
    (forall v c, In (Some v, c) (map (list_member node_str x) (enumerate els)) -> same_kind_num lit ints v) ->
    exists res,
      kw_min lit re_search node_str false [] (NSeq i els) x = Ok res /\
      forall c, In c res <-> min_members coords num_key (map (list_member node_str x) (enumerate els)) c.
Proof.
  exact (fun lit re ns ints i els x =>
           extremum_list_same_kind lit re ns (NSeq i els) MLt ints false i els x (or_intror eq_refl)).
Qed.
Print Assumptions C13_min_set.

Theorem C13_min_set_inverted :
  forall lit re_search node_str ints i els x,
    node_is_aoh true (NSeq i els) = false ->
    (forall v c, In (Some v, c) (map (list_member node_str x) (enumerate els)) -> same_kind_num lit ints v) ->
    exists res,
      kw_min lit re_search node_str true [] (NSeq i els) x = Ok res /\
      forall c, In c res <-> non_min_members coords num_key (map (list_member node_str x) (enumerate els)) c.
Proof.
  exact (fun lit re ns ints i els x =>
           extremum_list_same_kind lit re ns (NSeq i els) MLt ints true i els x (or_intror eq_refl)).
Qed.
Print Assumptions C13_min_set_inverted.

(* ---- max / min over an Array-of-Hashes by a named attribute: present,
   absent, repeated or null ---- *)
Theorem C13_max_attr :
  forall lit re_search node_str ints invert attr i els x,
    node_is_aoh true (NSeq i els) = true ->
    (forall v c, In (Some v, c) (map (aoh_member node_str attr x) (enumerate els)) -> same_kind_num lit ints v) ->
    exists res,
      kw_max lit re_search node_str invert [attr] (NSeq i els) x = Ok res /\
      forall c, In c res <-> selected MGt invert (map (aoh_member node_str attr x) (enumerate els)) c.
Proof.
  exact (fun lit re ns ints invert attr i els x =>
           extremum_aoh_same_kind lit re ns (NSeq i els) MGt ints invert attr i els x (or_introl eq_refl)).
Qed.
Print Assumptions C13_max_attr.

Theorem C13_min_attr :
  forall lit re_search node_str ints invert attr i els x,
    node_is_aoh true (NSeq i els) = true ->
    (forall v c, In (Some v, c) (map (aoh_member node_str attr x) (enumerate els)) -> same_kind_num lit ints v) ->
    exists res,
      kw_min lit re_search node_str invert [attr] (NSeq i els) x = Ok res /\
      forall c, In c res <-> selected MLt invert (map (aoh_member node_str attr x) (enumerate els)) c.
Proof.
  exact (fun lit re ns ints invert attr i els x =>
           extremum_aoh_same_kind lit re ns (NSeq i els) MLt ints invert attr i els x (or_intror eq_refl)).
Qed.
Print Assumptions C13_min_attr.

(* [selected] is the spec, spelled per keyword and inversion *)
Theorem C13_selected_is_spec :
  forall ms c,
    (selected MGt false ms c <-> max_members coords num_key ms c) /\
    (selected MGt true ms c <-> non_max_members coords num_key ms c) /\
    (selected MLt false ms c <-> min_members coords num_key ms c) /\
    (selected MLt true ms c <-> non_min_members coords num_key ms c).
Proof. exact (fun ms c => conj (iff_refl _) (conj (iff_refl _) (conj (iff_refl _) (iff_refl _)))). Qed.

(* every int is its own typed reading: for lists of ints (nulls allowed) the
   hypothesis of the four theorems above reduces to "the members are ints" *)
Theorem C13_int_is_same_kind :
  forall lit z, same_kind lit SKInt (PInt z) /\ same_kind_num lit true (PInt z).
Proof. exact (fun lit z => conj (int_same_kind lit z) (int_same_kind lit z)). Qed.
Print Assumptions C13_int_is_same_kind.

Theorem C13_max_min_ints :
  forall lit re_search node_str cmp invert i els x,
    cmp = MGt \/ cmp = MLt ->
    node_is_aoh true (NSeq i els) = false ->
    (forall v c, In (Some v, c) (map (list_member node_str x) (enumerate els)) -> exists z, v = PInt z) ->
    exists res,
      extremum lit re_search node_str cmp invert [] (NSeq i els) x = Ok res /\
      forall c, In c res <-> selected cmp invert (map (list_member node_str x) (enumerate els)) c.
Proof. exact (fun lit re ns => extremum_list_ints lit re ns (NLeaf (mkinfo 0 None false None) PNone)). Qed.
Print Assumptions C13_max_min_ints.

(* ---- "is its own typed reading", discharged as far as the code allows ----
   Nodes.typed_value consults ast.literal_eval only for a str (and for a value
   whose text spells true / false).  So a FLOAT is its own typed reading unless
   its repr spells a boolean -- no oracle is involved --; a TEXT is, exactly
   when it spells no boolean and literal_eval rejects it ([lit_rejects]: a
   ValueError / SyntaxError, or one of the other classes typed_value catches).
   The hypothesis cannot be dropped for text: text that literal_eval reads as a
   value is compared as that value ([C13_text_literal_reads_as_value]; e.g.
   under [lit_reads_repr] -- the oracle reads a float's repr back as the float,
   true of CPython -- the text '2.5' is compared as the float 2.5). *)
Theorem C13_float_is_same_kind :
  forall lit q r, bool_spelling r = None -> same_kind lit SKFloat (PFloat q r).
Proof. exact float_same_kind. Qed.
Print Assumptions C13_float_is_same_kind.

Theorem C13_text_is_same_kind :
  forall lit t, bool_spelling t = None -> lit_rejects lit t -> same_kind lit SKText (PStr t).
Proof. exact text_same_kind. Qed.
Print Assumptions C13_text_is_same_kind.

Theorem C13_text_literal_reads_as_value :
  forall lit t v, bool_spelling t = None -> lit t = Ok (LVal v) -> typed_value lit (PStr t) = Ok v.
Proof. exact typed_value_text_literal. Qed.

Theorem C13_numeric_text_reads_as_float :
  forall lit q r, bool_spelling r = None -> lit_reads_repr lit q r -> typed_value lit (PStr r) = Ok (PFloat q r).
Proof. exact typed_value_repr_text. Qed.

(* max / min over a list of floats, and over a list of words, with no
   hypothesis about typed readings left (compare C13_max_min_ints) *)
Theorem C13_max_min_floats :
  forall lit re_search node_str cmp invert i els x,
    cmp = MGt \/ cmp = MLt ->
    node_is_aoh true (NSeq i els) = false ->
    (forall v c, In (Some v, c) (map (list_member node_str x) (enumerate els)) ->
                 exists q r, v = PFloat q r /\ bool_spelling r = None) ->
    exists res,
      extremum lit re_search node_str cmp invert [] (NSeq i els) x = Ok res /\
      forall c, In c res <-> selected cmp invert (map (list_member node_str x) (enumerate els)) c.
Proof. exact extremum_list_floats. Qed.
Print Assumptions C13_max_min_floats.

Theorem C13_max_min_words :
  forall lit re_search node_str cmp invert i els x,
    cmp = MGt \/ cmp = MLt ->
    node_is_aoh true (NSeq i els) = false ->
    (forall v c, In (Some v, c) (map (list_member node_str x) (enumerate els)) ->
                 exists t, v = PStr t /\ bool_spelling t = None /\ lit_rejects lit t) ->
    exists res,
      extremum lit re_search node_str cmp invert [] (NSeq i els) x = Ok res /\
      forall c, In c res <-> selected_by text_le cmp invert (map (list_member node_str x) (enumerate els)) c.
Proof. exact extremum_list_words. Qed.
Print Assumptions C13_max_min_words.

(* ---- lists mixing ints with floats: OUTSIDE the property's quantifier
   ("sequences of same-kind scalars"; C12 uses "numbers of the same kind" for
   int-with-int / float-with-float, and documents that an int equals a float
   only as TEXT).  What the code does on them is pinned here.

   [mixed_num]: an int, or a float whose repr is what Python prints for a float
   ([float_repr_ok], computable: not the text of an integer, not a boolean
   spelling).  [mixed_split cmp ms pre b c0 post]: the collection splits at its
   FIRST extremal member (b, c0) -- every member before it is strictly worse,
   no member after it is better.  [mixed_selected]: selected are c0 and the
   LATER members of the same numeric type (int / float) with an equal value
   ([mixed_eq], what Searches.search_matches(EQUALS) answers); inverted, all the
   other members, nulls included. *)
Theorem C13_max_min_mixed_selects :
  forall lit re_search node_str cmp invert i els x,
    cmp = MGt \/ cmp = MLt ->
    node_is_aoh true (NSeq i els) = false ->
    (forall v c, In (Some v, c) (map (list_member node_str x) (enumerate els)) -> mixed_num v) ->
    exists res,
      extremum lit re_search node_str cmp invert [] (NSeq i els) x = Ok res /\
      forall c, In c res <-> mixed_selected cmp invert (map (list_member node_str x) (enumerate els)) c.
Proof. exact extremum_list_mixed. Qed.
Print Assumptions C13_max_min_mixed_selects.

(* the property's statement holds of a mixed list under the computable guard
   [no_cross_equal]: no int member is numerically equal to a float member *)
Theorem C13_max_min_mixed_partial :
  forall lit re_search node_str cmp invert i els x,
    cmp = MGt \/ cmp = MLt ->
    node_is_aoh true (NSeq i els) = false ->
    (forall v c, In (Some v, c) (map (list_member node_str x) (enumerate els)) -> mixed_num v) ->
    no_cross_equal (map (list_member node_str x) (enumerate els)) = true ->
    exists res,
      extremum lit re_search node_str cmp invert [] (NSeq i els) x = Ok res /\
      forall c, In c res <-> selected cmp invert (map (list_member node_str x) (enumerate els)) c.
Proof. exact extremum_list_mixed_partial. Qed.
Print Assumptions C13_max_min_mixed_partial.

(* the same two statements for an Array-of-Hashes and for a hash of hashes whose
   named attribute (present, absent, repeated or null) mixes ints with floats *)
Theorem C13_max_min_mixed_selects_attr :
  forall lit re_search node_str cmp invert attr i els x,
    cmp = MGt \/ cmp = MLt ->
    node_is_aoh true (NSeq i els) = true ->
    (forall v c, In (Some v, c) (map (aoh_member node_str attr x) (enumerate els)) -> mixed_num v) ->
    exists res,
      extremum lit re_search node_str cmp invert [attr] (NSeq i els) x = Ok res /\
      forall c, In c res <-> mixed_selected cmp invert (map (aoh_member node_str attr x) (enumerate els)) c.
Proof. exact extremum_aoh_mixed. Qed.
Print Assumptions C13_max_min_mixed_selects_attr.

Theorem C13_max_min_mixed_selects_hoh :
  forall lit re_search node_str cmp invert attr i kvs x,
    cmp = MGt \/ cmp = MLt ->
    forallb (fun kv => is_map (snd kv)) kvs = true ->
    (forall v c, In (Some v, c) (map (hoh_member node_str attr x) kvs) -> mixed_num v) ->
    exists res,
      extremum lit re_search node_str cmp invert [attr] (NMap i kvs) x = Ok res /\
      forall c, In c res <-> mixed_selected cmp invert (map (hoh_member node_str attr x) kvs) c.
Proof. exact extremum_hoh_mixed. Qed.
Print Assumptions C13_max_min_mixed_selects_hoh.

Theorem C13_max_min_mixed_attr_partial :
  forall lit re_search node_str cmp invert attr i els x,
    cmp = MGt \/ cmp = MLt ->
    node_is_aoh true (NSeq i els) = true ->
    (forall v c, In (Some v, c) (map (aoh_member node_str attr x) (enumerate els)) -> mixed_num v) ->
    no_cross_equal (map (aoh_member node_str attr x) (enumerate els)) = true ->
    exists res,
      extremum lit re_search node_str cmp invert [attr] (NSeq i els) x = Ok res /\
      forall c, In c res <-> selected cmp invert (map (aoh_member node_str attr x) (enumerate els)) c.
Proof. exact extremum_aoh_mixed_partial. Qed.
Print Assumptions C13_max_min_mixed_attr_partial.

Theorem C13_max_min_mixed_hoh_partial :
  forall lit re_search node_str cmp invert attr i kvs x,
    cmp = MGt \/ cmp = MLt ->
    forallb (fun kv => is_map (snd kv)) kvs = true ->
    (forall v c, In (Some v, c) (map (hoh_member node_str attr x) kvs) -> mixed_num v) ->
    no_cross_equal (map (hoh_member node_str attr x) kvs) = true ->
    exists res,
      extremum lit re_search node_str cmp invert [attr] (NMap i kvs) x = Ok res /\
      forall c, In c res <-> selected cmp invert (map (hoh_member node_str attr x) kvs) c.
Proof. exact extremum_hoh_mixed_partial. Qed.
Print Assumptions C13_max_min_mixed_hoh_partial.

(* ... and not without it: x: [5, 5.0] -- both members are greatest, max()
   yields only the first *)
Theorem C13_max_min_mixed_refuted :
  (node_is_aoh true mx_list = false /\
   (forall v c, In (Some v, c) mx_ms -> mixed_num v) /\
   no_cross_equal mx_ms = false) /\
  exists res,
    kw_max mx_lit mx_re mx_str false [] mx_list mx_ctx = Ok res /\
    exists c, max_members coords num_key mx_ms c /\ ~ In c res.
Proof. exact (conj mx_hyps mixed_refuted). Qed.
Print Assumptions C13_max_min_mixed_refuted.

(* ---- max / min over a list of text (nulls allowed): lexicographic ---- *)
Theorem C13_max_text :
  forall lit re_search node_str i els x,
    node_is_aoh true (NSeq i els) = false ->
    (forall v c, In (Some v, c) (map (list_member node_str x) (enumerate els)) -> same_kind lit SKText v) ->
    exists res,
      kw_max lit re_search node_str false [] (NSeq i els) x = Ok res /\
      forall c, In c res <-> max_members_by coords text_le (map (list_member node_str x) (enumerate els)) c.
Proof.
  exact (fun lit re ns i els x =>
           extremum_list_kind lit re ns (NSeq i els) MGt SKText (or_introl eq_refl) false i els x).
Qed.
Print Assumptions C13_max_text.

Theorem C13_max_text_inverted :
  forall lit re_search node_str i els x,
    node_is_aoh true (NSeq i els) = false ->
    (forall v c, In (Some v, c) (map (list_member node_str x) (enumerate els)) -> same_kind lit SKText v) ->
    exists res,
      kw_max lit re_search node_str true [] (NSeq i els) x = Ok res /\
      forall c, In c res <-> non_max_members_by coords text_le (map (list_member node_str x) (enumerate els)) c.
Proof.
  exact (fun lit re ns i els x =>
           extremum_list_kind lit re ns (NSeq i els) MGt SKText (or_introl eq_refl) true i els x).
Qed.
Print Assumptions C13_max_text_inverted.

Theorem C13_min_text :
  forall lit re_search node_str i els x,
    node_is_aoh true (NSeq i els) = false ->
    (forall v c, In (Some v, c) (map (list_member node_str x) (enumerate els)) -> same_kind lit SKText v) ->
    exists res,
      kw_min lit re_search node_str false [] (NSeq i els) x = Ok res /\
      forall c, In c res <-> min_members_by coords text_le (map (list_member node_str x) (enumerate els)) c.
Proof.
  exact (fun lit re ns i els x =>
           extremum_list_kind lit re ns (NSeq i els) MLt SKText (or_intror eq_refl) false i els x).
Qed.
Print Assumptions C13_min_text.

Theorem C13_min_text_inverted :
  forall lit re_search node_str i els x,
    node_is_aoh true (NSeq i els) = false ->
    (forall v c, In (Some v, c) (map (list_member node_str x) (enumerate els)) -> same_kind lit SKText v) ->
    exists res,
      kw_min lit re_search node_str true [] (NSeq i els) x = Ok res /\
      forall c, In c res <-> non_min_members_by coords text_le (map (list_member node_str x) (enumerate els)) c.
Proof.
  exact (fun lit re ns i els x =>
           extremum_list_kind lit re ns (NSeq i els) MLt SKText (or_intror eq_refl) true i els x).
Qed.
Print Assumptions C13_min_text_inverted.

(* ---- max / min over a hash of hashes by a named attribute (present, absent,
   repeated or null), for members of any one kind k; plain and inverted
   ([selected_by], = the four spec predicates by C13_selected_by_is_spec) ---- *)
Theorem C13_max_hoh :
  forall lit re_search node_str k invert attr i kvs x,
    forallb (fun kv => is_map (snd kv)) kvs = true ->
    (forall v c, In (Some v, c) (map (hoh_member node_str attr x) kvs) -> same_kind lit k v) ->
    exists res,
      kw_max lit re_search node_str invert [attr] (NMap i kvs) x = Ok res /\
      forall c, In c res <-> selected_by (kind_le k) MGt invert (map (hoh_member node_str attr x) kvs) c.
Proof.
  exact (fun lit re ns k => extremum_hoh_kind lit re ns (NLeaf (mkinfo 0 None false None) PNone) MGt k (or_introl eq_refl)).
Qed.
Print Assumptions C13_max_hoh.

Theorem C13_min_hoh :
  forall lit re_search node_str k invert attr i kvs x,
    forallb (fun kv => is_map (snd kv)) kvs = true ->
    (forall v c, In (Some v, c) (map (hoh_member node_str attr x) kvs) -> same_kind lit k v) ->
    exists res,
      kw_min lit re_search node_str invert [attr] (NMap i kvs) x = Ok res /\
      forall c, In c res <-> selected_by (kind_le k) MLt invert (map (hoh_member node_str attr x) kvs) c.
Proof.
  exact (fun lit re ns k => extremum_hoh_kind lit re ns (NLeaf (mkinfo 0 None false None) PNone) MLt k (or_intror eq_refl)).
Qed.
Print Assumptions C13_min_hoh.

(* ... and over an Array-of-Hashes for members of any one kind (text attributes too) *)
Theorem C13_max_attr_kind :
  forall lit re_search node_str k invert attr i els x,
    node_is_aoh true (NSeq i els) = true ->
    (forall v c, In (Some v, c) (map (aoh_member node_str attr x) (enumerate els)) -> same_kind lit k v) ->
    exists res,
      kw_max lit re_search node_str invert [attr] (NSeq i els) x = Ok res /\
      forall c, In c res <-> selected_by (kind_le k) MGt invert (map (aoh_member node_str attr x) (enumerate els)) c.
Proof.
  exact (fun lit re ns k => extremum_aoh_kind lit re ns (NLeaf (mkinfo 0 None false None) PNone) MGt k (or_introl eq_refl)).
Qed.
Print Assumptions C13_max_attr_kind.

Theorem C13_min_attr_kind :
  forall lit re_search node_str k invert attr i els x,
    node_is_aoh true (NSeq i els) = true ->
    (forall v c, In (Some v, c) (map (aoh_member node_str attr x) (enumerate els)) -> same_kind lit k v) ->
    exists res,
      kw_min lit re_search node_str invert [attr] (NSeq i els) x = Ok res /\
      forall c, In c res <-> selected_by (kind_le k) MLt invert (map (aoh_member node_str attr x) (enumerate els)) c.
Proof.
  exact (fun lit re ns k => extremum_aoh_kind lit re ns (NLeaf (mkinfo 0 None false None) PNone) MLt k (or_intror eq_refl)).
Qed.
Print Assumptions C13_min_attr_kind.

Theorem C13_selected_by_is_spec :
  forall le ms c,
    (selected_by le MGt false ms c <-> max_members_by coords le ms c) /\
    (selected_by le MGt true ms c <-> non_max_members_by coords le ms c) /\
    (selected_by le MLt false ms c <-> min_members_by coords le ms c) /\
    (selected_by le MLt true ms c <-> non_min_members_by coords le ms c).
Proof. exact (fun le ms c => conj (iff_refl _) (conj (iff_refl _) (conj (iff_refl _) (iff_refl _)))). Qed.

(* the orders are total orders (so "greatest" is well defined on a kind) *)
Theorem C13_kind_order_total :
  forall k, (forall a, kind_le k a a) /\ (forall a b c, kind_le k a b -> kind_le k b c -> kind_le k a c) /\
            (forall a b, kind_le k a b \/ kind_le k b a).
Proof. exact (fun k => conj (kind_le_refl k) (conj (kind_le_trans k) (kind_le_total k))). Qed.
Print Assumptions C13_kind_order_total.

(* ---- unique / distinct ---- *)
Theorem C13_py_eq_equivalence :
  (forall v, py_eq v v = true) /\ (forall v w, py_eq v w = py_eq w v) /\
  (forall u v w, py_eq u v = true -> py_eq v w = true -> py_eq u w = true).
Proof. exact (conj py_eq_refl (conj py_eq_sym py_eq_trans)). Qed.
Print Assumptions C13_py_eq_equivalence.

(* unique: exactly the members whose value occurs once, in collection order *)
Theorem C13_unique :
  forall params data x gs,
    collection_gmembers params data x = Some gs -> scalar_members gs ->
    kw_unique false params data x = Ok (once_members coords (vmembers gs)).
Proof. exact unique_plain. Qed.
Print Assumptions C13_unique.

(* unique inverted: exactly the members whose value occurs more than once --
   yielded group by group, the groups in order of first occurrence *)
Theorem C13_unique_inverted :
  forall params data x gs,
    collection_gmembers params data x = Some gs -> scalar_members gs ->
    kw_unique true params data x = Ok (repeated_grouped coords (vmembers gs)).
Proof. exact unique_inverted. Qed.
Print Assumptions C13_unique_inverted.

Theorem C13_repeated_grouped_is_spec :
  forall ms c, In c (repeated_grouped coords ms) <-> repeated_member coords ms c.
Proof. exact repeated_grouped_set. Qed.
Print Assumptions C13_repeated_grouped_is_spec.

(* distinct: the first member of each group of equal values, in order of first
   occurrence *)
Theorem C13_distinct_first_of_group :
  forall params data x gs,
    collection_gmembers params data x = Some gs -> scalar_members gs ->
    kw_distinct false params data x = Ok (firsts coords [] (vmembers gs)).
Proof. exact distinct_first_of_group. Qed.
Print Assumptions C13_distinct_first_of_group.

(* [firsts], said without recursion: a member is yielded iff no earlier member
   has an equal value *)
Theorem C13_firsts_is_spec :
  forall ms c,
    In c (firsts coords [] ms) <->
    exists pre v post, ms = (pre ++ (v, c) :: post)%list /\ vhas pre v = false.
Proof. exact firsts_set. Qed.
Print Assumptions C13_firsts_is_spec.

Theorem C13_distinct_inverted_refused :
  forall params data x, kw_distinct true params data x = Raise (YPE Generic).
Proof. exact distinct_inverted_refused. Qed.

(* a value that is a Hash, Array or Set cannot be grouped: YAMLPathException
   (after the fix; a bare TypeError before) *)
Theorem C13_group_refuses_containers :
  forall invert params data x gs,
    collection_gmembers params data x = Some gs ->
    (exists vn c, In (Some vn, c) gs /\ forall i v, vn <> NLeaf i v) ->
    kw_unique invert params data x = Raise (YPE Generic) /\
    kw_distinct invert params data x = Raise (YPE Generic).
Proof. exact group_refuses. Qed.
Print Assumptions C13_group_refuses_containers.

(* parameter present / absent where it must not / must be: more than one
   parameter, a parameter with a plain list, none with an Array-of-Hashes or a
   hash -- refused by max, min, unique and distinct alike *)
Theorem C13_parameter_misuse_refused :
  forall lit re_search node_str cmp invert params data x,
    (1 < List.length params \/
     (exists i els p, data = NSeq i els /\ node_is_aoh true data = false /\ params = [p]) \/
     (exists i els, data = NSeq i els /\ node_is_aoh true data = true /\ params = []) \/
     (exists i kvs, data = NMap i kvs /\ params = [])) ->
    extremum lit re_search node_str cmp invert params data x = Raise (YPE Generic) /\
    kw_unique invert params data x = Raise (YPE Generic) /\
    kw_distinct invert params data x = Raise (YPE Generic).
Proof. exact params_refused. Qed.
Print Assumptions C13_parameter_misuse_refused.

(* a parameter text that does not split (an unmatched quote: the path parser
   lets an ESCAPED one through, "[max(\')]") is refused by search_matches for
   every keyword, whatever the data -- a YAMLPathException since the repair of
   finding F31 (it was the bare ValueError of SearchKeywordTerms.parameters) *)
Theorem C13_unsplittable_parameters_refused :
  forall lit re_search node_str doc invert kw raw x,
    keyword_parameters raw = Raise (PyCrash ValueError) ->
    keyword_search lit re_search node_str doc invert kw raw x = Raise (YPE Generic).
Proof. exact unsplit_params_refused. Qed.
Print Assumptions C13_unsplittable_parameters_refused.

Example C13_unsplittable_parameters_hyp :
  parse Auto true "[max(\')]" = Ok [(Some TKeywordSearch, AKeyword false KMax "'")] /\
  keyword_parameters "'" = Raise (PyCrash ValueError) /\ keyword_parameters "a, 'b c'" = Ok ["a"; "b c"].
Proof. vm_compute. repeat split; reflexivity. Qed.

(* ---- has_child ---- *)
Theorem C13_has_child_hash :
  forall doc invert key i kvs x,
    plain_key key ->
    has_child doc invert [key] (NMap i kvs) x =
      Ok (if xorb (has_key (NMap i kvs) key) invert then [self_coords x] else []).
Proof. exact has_child_map. Qed.
Print Assumptions C13_has_child_hash.

Theorem C13_has_child_aoh :
  forall doc invert key i els x c,
    plain_key key ->
    node_is_aoh false (NSeq i els) = true ->
    exists res, has_child doc invert [key] (NSeq i els) x = Ok res /\
      (In c res <->
       exists idx ele, nth_error els idx = Some ele /\
         xorb (has_key ele key) invert = true /\ c = self_coords (elem_ctx x idx)).
Proof. exact has_child_aoh. Qed.
Print Assumptions C13_has_child_aoh.

(* ---- parent(n) ---- *)
Theorem C13_parent_nth :
  forall p z x,
    py_int p = Some z -> (1 <= z)%Z -> (z <= Z.of_nat (List.length (k_here x)))%Z ->
    k_ancestry x = ancestry_of [] (k_here x) -> List.length (k_path x) = List.length (k_here x) ->
    exists c, kw_parent false [p] x = Ok [c] /\
      c_node c = AtLoc (nth_ancestor (Z.to_nat z) (k_here x)) /\
      c_ancestry c = ancestry_of [] (nth_ancestor (Z.to_nat z) (k_here x)).
Proof. exact parent_nth. Qed.
Print Assumptions C13_parent_nth.

Theorem C13_parent_refuses_above_root :
  forall p z x,
    py_int p = Some z -> (Z.of_nat (List.length (k_ancestry x)) < z)%Z ->
    exists k, kw_parent false [p] x = Raise (YPE k).
Proof. exact parent_refuses_above_root. Qed.
Print Assumptions C13_parent_refuses_above_root.

Theorem C13_parent_zero_is_self :
  forall p z x, py_int p = Some z -> (z < 1)%Z -> kw_parent false [p] x = Ok [self_coords x].
Proof. exact parent_zero_is_self. Qed.

(* ---- name() ---- *)
Theorem C13_name :
  forall x,
    kw_name_search false [] x =
      Ok [mkcoords (RefVal (k_parentref x)) (k_parent x) (k_parentref x) (k_path x) (k_ancestry x)].
Proof. exact name_spec. Qed.
Print Assumptions C13_name.

Theorem C13_name_refuses :
  forall invert params x,
    invert = true \/ 1 < List.length params -> exists k, kw_name_search invert params x = Raise (YPE k).
Proof. exact name_refuses. Qed.

(* ---- non-vacuity and behaviour on concrete documents ---- *)
Definition lf (o : N) (v : pyval) : node := NLeaf (mkinfo o None false None) v.
Definition ex_lit : string -> outcome litres := lit_of_table [].
Definition ex_re : string -> string -> outcome reres := re_of_table [].
Definition ex_str (_ : node) : string := "?".
(* x: [3, null, 5, 5]  reached as /x *)
Definition ex_list : node := NSeq (mkinfo 2 None true None) [lf 3 (PInt 3); lf 4 PNone; lf 5 (PInt 5); lf 5 (PInt 5)].
Definition ex_doc : node := NMap (mkinfo 0 None true None) [(lf 1 (PStr "x"), ex_list)].
Definition ex_ctx : kctx := mkkctx [RKey (PStr "x")] (Some []) (Some (RKey (PStr "x"))) [RKey (PStr "x")] [([], RKey (PStr "x"))].

(* the hypotheses of C13_max_set hold of it ... *)
Example C13_ex_hyps :
  node_is_aoh true ex_list = false /\
  forall v c, In (Some v, c) (map (list_member ex_str ex_ctx) (enumerate [lf 3 (PInt 3); lf 4 PNone; lf 5 (PInt 5); lf 5 (PInt 5)])) ->
    same_kind_num ex_lit true v.
Proof.
  split; [reflexivity|]. intros v c H. cbv in H.
  destruct H as [H|[H|[H|[H|H]]]]; try contradiction; try discriminate;
    inversion H; subst; (split; [eexists; reflexivity|vm_compute; reflexivity]).
Qed.
(* ... and this is what the keywords yield: both 5s; inverted, the 3 and the null *)
Example C13_ex_max :
  omap (map c_node) (kw_max ex_lit ex_re ex_str false [] ex_list ex_ctx) =
    Ok [AtLoc [RKey (PStr "x"); RIdx 2]; AtLoc [RKey (PStr "x"); RIdx 3]] /\
  omap (map c_node) (kw_max ex_lit ex_re ex_str true [] ex_list ex_ctx) =
    Ok [AtLoc [RKey (PStr "x"); RIdx 1]; AtLoc [RKey (PStr "x"); RIdx 0]] /\   (* discard order: a set *)
  omap (map c_node) (kw_min ex_lit ex_re ex_str false [] ex_list ex_ctx) =
    Ok [AtLoc [RKey (PStr "x"); RIdx 0]].
Proof. vm_compute. repeat split; reflexivity. Qed.

(* unique / distinct on the same list: 3 and null occur once; the 5s twice *)
Example C13_ex_unique_distinct :
  omap (map c_node) (kw_unique false [] ex_list ex_ctx) =
    Ok [AtLoc [RKey (PStr "x"); RIdx 0]; AtLoc [RKey (PStr "x"); RIdx 1]] /\
  omap (map c_node) (kw_unique true [] ex_list ex_ctx) =
    Ok [AtLoc [RKey (PStr "x"); RIdx 2]; AtLoc [RKey (PStr "x"); RIdx 3]] /\
  omap (map c_node) (kw_distinct false [] ex_list ex_ctx) =
    Ok [AtLoc [RKey (PStr "x"); RIdx 0]; AtLoc [RKey (PStr "x"); RIdx 1]; AtLoc [RKey (PStr "x"); RIdx 2]].
Proof. vm_compute. repeat split; reflexivity. Qed.

(* parent: hypotheses of C13_parent_nth hold for the element x[2] and n = 2 *)
Definition ex_ctx2 : kctx :=
  mkkctx [RKey (PStr "x"); RIdx 2] (Some [RKey (PStr "x")]) (Some (RIdx 2)) [RKey (PStr "x"); RIdx 2]
         [([], RKey (PStr "x")); ([RKey (PStr "x")], RIdx 2)].
Example C13_ex_parent :
  py_int "2" = Some 2%Z /\ k_ancestry ex_ctx2 = ancestry_of [] (k_here ex_ctx2) /\
  omap (map c_node) (kw_parent false ["2"] ex_ctx2) = Ok [AtLoc []] /\
  kw_parent false ["3"] ex_ctx2 = Raise (YPE Generic).
Proof. vm_compute. repeat split; reflexivity. Qed.

Example C13_ex_has_child :
  plain_key "x" /\
  omap (map c_node) (has_child ex_doc false ["x"] ex_doc (mkkctx [] None None [] [])) = Ok [AtLoc []] /\
  has_child ex_doc true ["x"] ex_doc (mkkctx [] None None [] []) = Ok [].
Proof. split; [discriminate|]. vm_compute. split; reflexivity. Qed.

(* ---- non-vacuity of the theorems about text, hashes of hashes, ints,
   unique and distinct ---- *)
Definition mp (o : N) (kvs : list (node * node)) : node := NMap (mkinfo o None false None) kvs.

(* the hypotheses of C13_max_min_ints hold of x: [3, null, 5, 5] *)
Example C13_ex_ints_hyps :
  node_is_aoh true ex_list = false /\
  forall v c, In (Some v, c) (map (list_member ex_str ex_ctx) (enumerate [lf 3 (PInt 3); lf 4 PNone; lf 5 (PInt 5); lf 5 (PInt 5)])) ->
    exists z, v = PInt z.
Proof.
  split; [reflexivity|]. intros v c H. cbv in H.
  repeat (destruct H as [H|H]; [inversion H; subst; eexists; reflexivity|]). contradiction.
Qed.

(* x: [abc, null, abd, Zed, abd]: words, i.e. ast.literal_eval rejects them *)
Definition ex_lit_t : string -> outcome litres :=
  lit_of_table [("abc", LFail); ("abd", LFail); ("Zed", LFail)].
Definition ex_words : list node :=
  [lf 3 (PStr "abc"); lf 4 PNone; lf 5 (PStr "abd"); lf 6 (PStr "Zed"); lf 7 (PStr "abd")].
Definition ex_tlist : node := NSeq (mkinfo 2 None true None) ex_words.

Example C13_ex_text_hyps :
  node_is_aoh true ex_tlist = false /\
  forall v c, In (Some v, c) (map (list_member ex_str ex_ctx) (enumerate ex_words)) -> same_kind ex_lit_t SKText v.
Proof.
  split; [reflexivity|]. intros v c H. cbv in H.
  repeat (destruct H as [H|H]; [inversion H; subst; (split; [eexists; reflexivity|vm_compute; reflexivity])|]).
  contradiction.
Qed.
(* max: both abd; min: Zed (capitals sort first); inverted max: the others, the null included *)
Example C13_ex_text :
  omap (map c_node) (kw_max ex_lit_t ex_re ex_str false [] ex_tlist ex_ctx) =
    Ok [AtLoc [RKey (PStr "x"); RIdx 2]; AtLoc [RKey (PStr "x"); RIdx 4]] /\
  omap (map c_node) (kw_min ex_lit_t ex_re ex_str false [] ex_tlist ex_ctx) =
    Ok [AtLoc [RKey (PStr "x"); RIdx 3]] /\
  omap (map c_node) (kw_max ex_lit_t ex_re ex_str true [] ex_tlist ex_ctx) =
    Ok [AtLoc [RKey (PStr "x"); RIdx 1]; AtLoc [RKey (PStr "x"); RIdx 0]; AtLoc [RKey (PStr "x"); RIdx 3]].
Proof. vm_compute. repeat split; reflexivity. Qed.

(* x: {r0: {p: 2}, r1: {p: null}, r2: {q: 1}, r3: {p: 2}, r4: {p: 1}} *)
Definition ex_hoh_kvs : list (node * node) :=
  [(lf 11 (PStr "r0"), mp 12 [(lf 13 (PStr "p"), lf 14 (PInt 2))]);
   (lf 15 (PStr "r1"), mp 16 [(lf 13 (PStr "p"), lf 4 PNone)]);
   (lf 17 (PStr "r2"), mp 18 [(lf 19 (PStr "q"), lf 20 (PInt 1))]);
   (lf 21 (PStr "r3"), mp 22 [(lf 13 (PStr "p"), lf 14 (PInt 2))]);
   (lf 23 (PStr "r4"), mp 24 [(lf 13 (PStr "p"), lf 20 (PInt 1))])].
Definition ex_hoh : node := mp 10 ex_hoh_kvs.

Example C13_ex_hoh_hyps :
  forallb (fun kv => is_map (snd kv)) ex_hoh_kvs = true /\
  forall v c, In (Some v, c) (map (hoh_member ex_str "p" ex_ctx) ex_hoh_kvs) -> same_kind ex_lit SKInt v.
Proof.
  split; [reflexivity|]. intros v c H. cbv in H.
  repeat (destruct H as [H|H]; [inversion H; subst; apply int_same_kind|]). contradiction.
Qed.
Example C13_ex_hoh :
  omap (map c_node) (kw_max ex_lit ex_re ex_str false ["p"] ex_hoh ex_ctx) =
    Ok [AtLoc [RKey (PStr "x"); RKey (PStr "r0")]; AtLoc [RKey (PStr "x"); RKey (PStr "r3")]] /\
  omap (map c_node) (kw_max ex_lit ex_re ex_str true ["p"] ex_hoh ex_ctx) =
    Ok [AtLoc [RKey (PStr "x"); RKey (PStr "r1")]; AtLoc [RKey (PStr "x"); RKey (PStr "r2")];
        AtLoc [RKey (PStr "x"); RKey (PStr "r4")]] /\
  omap (map c_node) (kw_min ex_lit ex_re ex_str false ["p"] ex_hoh ex_ctx) =
    Ok [AtLoc [RKey (PStr "x"); RKey (PStr "r4")]].
Proof. vm_compute. repeat split; reflexivity. Qed.

(* unique / distinct: the hypotheses hold of the list x: [3, null, 5, 5] ... *)
Example C13_ex_group_list_hyps :
  exists gs, collection_gmembers [] ex_list ex_ctx = Some gs /\ scalar_members gs /\
             map fst (vmembers gs) = [PInt 3; PNone; PInt 5; PInt 5].
Proof.
  eexists. split; [reflexivity|]. split; [|reflexivity].
  intros vn c H. cbv in H.
  repeat (destruct H as [H|H]; [inversion H; subst; eexists; eexists; reflexivity|]). contradiction.
Qed.

(* ... of the Array-of-Hashes x: [{p: 1}, {q: 1}, {p: 1.0}, {p: null}, {p: abc}, {p: true}] by p
   (the record without p is no member; 1 == 1.0 == True) ... *)
Definition ex_aoh : node :=
  NSeq (mkinfo 30 None true None)
    [mp 31 [(lf 13 (PStr "p"), lf 20 (PInt 1))];
     mp 32 [(lf 19 (PStr "q"), lf 20 (PInt 1))];
     mp 33 [(lf 13 (PStr "p"), lf 34 (PFloat 1 "1.0"))];
     mp 35 [(lf 13 (PStr "p"), lf 4 PNone)];
     mp 36 [(lf 13 (PStr "p"), lf 3 (PStr "abc"))];
     mp 37 [(lf 13 (PStr "p"), lf 38 (PBool true))]].
Example C13_ex_group_aoh_hyps :
  exists gs, collection_gmembers ["p"] ex_aoh ex_ctx = Some gs /\ scalar_members gs /\
             map fst (vmembers gs) = [PInt 1; PFloat 1 "1.0"; PNone; PStr "abc"; PBool true].
Proof.
  eexists. split; [reflexivity|]. split; [|reflexivity].
  intros vn c H. cbv in H.
  repeat (destruct H as [H|H]; [inversion H; subst; eexists; eexists; reflexivity|]). contradiction.
Qed.
Example C13_ex_group_aoh :
  omap (map c_node) (kw_unique false ["p"] ex_aoh ex_ctx) =
    Ok [AtLoc [RKey (PStr "x"); RIdx 3]; AtLoc [RKey (PStr "x"); RIdx 4]] /\
  omap (map c_node) (kw_unique true ["p"] ex_aoh ex_ctx) =
    Ok [AtLoc [RKey (PStr "x"); RIdx 0]; AtLoc [RKey (PStr "x"); RIdx 2]; AtLoc [RKey (PStr "x"); RIdx 5]] /\
  omap (map c_node) (kw_distinct false ["p"] ex_aoh ex_ctx) =
    Ok [AtLoc [RKey (PStr "x"); RIdx 0]; AtLoc [RKey (PStr "x"); RIdx 3]; AtLoc [RKey (PStr "x"); RIdx 4]].
Proof. vm_compute. repeat split; reflexivity. Qed.

(* ... and of the hash of hashes above by p: 2 twice, null and 1 once *)
Example C13_ex_group_hoh_hyps :
  exists gs, collection_gmembers ["p"] ex_hoh ex_ctx = Some gs /\ scalar_members gs /\
             map fst (vmembers gs) = [PInt 2; PNone; PInt 2; PInt 1].
Proof.
  eexists. split; [reflexivity|]. split; [|reflexivity].
  intros vn c H. cbv in H.
  repeat (destruct H as [H|H]; [inversion H; subst; eexists; eexists; reflexivity|]). contradiction.
Qed.
Example C13_ex_group_hoh :
  omap (map c_node) (kw_unique false ["p"] ex_hoh ex_ctx) =
    Ok [AtLoc [RKey (PStr "x"); RKey (PStr "r1")]; AtLoc [RKey (PStr "x"); RKey (PStr "r4")]] /\
  omap (map c_node) (kw_unique true ["p"] ex_hoh ex_ctx) =
    Ok [AtLoc [RKey (PStr "x"); RKey (PStr "r0")]; AtLoc [RKey (PStr "x"); RKey (PStr "r3")]] /\
  omap (map c_node) (kw_distinct false ["p"] ex_hoh ex_ctx) =
    Ok [AtLoc [RKey (PStr "x"); RKey (PStr "r0")]; AtLoc [RKey (PStr "x"); RKey (PStr "r1")];
        AtLoc [RKey (PStr "x"); RKey (PStr "r4")]].
Proof. vm_compute. repeat split; reflexivity. Qed.

(* inverted unique comes group by group: x: [5, 3, 5, 3] -> x[0], x[2], x[1], x[3] *)
Example C13_ex_unique_inverted_order :
  omap (map c_node)
       (kw_unique true [] (NSeq (mkinfo 2 None true None) [lf 5 (PInt 5); lf 3 (PInt 3); lf 5 (PInt 5); lf 3 (PInt 3)]) ex_ctx) =
    Ok [AtLoc [RKey (PStr "x"); RIdx 0]; AtLoc [RKey (PStr "x"); RIdx 2];
        AtLoc [RKey (PStr "x"); RIdx 1]; AtLoc [RKey (PStr "x"); RIdx 3]].
Proof. vm_compute. reflexivity. Qed.

(* x: [1, [2], 1]: the hypotheses of C13_group_refuses_containers hold *)
Definition ex_nested : node :=
  NSeq (mkinfo 40 None true None) [lf 20 (PInt 1); NSeq (mkinfo 41 None false None) [lf 14 (PInt 2)]; lf 20 (PInt 1)].
Example C13_ex_group_refuses :
  (exists gs, collection_gmembers [] ex_nested ex_ctx = Some gs /\
     exists vn c, In (Some vn, c) gs /\ forall i v, vn <> NLeaf i v) /\
  kw_unique false [] ex_nested ex_ctx = Raise (YPE Generic) /\
  kw_distinct false [] ex_nested ex_ctx = Raise (YPE Generic).
Proof.
  split; [|split; reflexivity].
  eexists. split; [reflexivity|]. eexists. eexists. split; [right; left; reflexivity|]. intros i v. discriminate.
Qed.

(* x: [5, 5.0] -- ints mixed with floats are outside "same-kind scalars": the
   code orders them numerically but tests equality on their text, so max()
   yields only the first of two numerically equal members (the witness of
   C13_max_min_mixed_refuted) *)
Example C13_ex_mixed_numeric_outside :
  omap (map c_node)
       (kw_max ex_lit ex_re ex_str false []
          (NSeq (mkinfo 2 None true None) [lf 5 (PInt 5); lf 6 (PFloat 5 "5.0")]) ex_ctx) =
    Ok [AtLoc [RKey (PStr "x"); RIdx 0]].
Proof. vm_compute. reflexivity. Qed.

(* x: [3, 5.0, 5, null, 5.0, 1]: the hypotheses of C13_max_min_mixed_selects hold (and the guard of
   C13_max_min_mixed_partial does not); max() yields the first greatest member 5.0 and the later 5.0, not the
   int 5; inverted, all the others *)
Definition ex_mixed : list node :=
  [lf 3 (PInt 3); lf 6 (PFloat 5 "5.0"); lf 5 (PInt 5); lf 4 PNone; lf 7 (PFloat 5 "5.0"); lf 8 (PInt 1)].
Example C13_ex_mixed_hyps :
  node_is_aoh true (NSeq (mkinfo 2 None true None) ex_mixed) = false /\
  (forall v c, In (Some v, c) (map (list_member ex_str ex_ctx) (enumerate ex_mixed)) -> mixed_num v) /\
  no_cross_equal (map (list_member ex_str ex_ctx) (enumerate ex_mixed)) = false.
Proof.
  split; [reflexivity|]. split; [|vm_compute; reflexivity]. intros v c H. cbv in H.
  repeat (destruct H as [H|H];
          [inversion H; subst;
           first [left; eexists; reflexivity | right; eexists; eexists; split; [reflexivity|vm_compute; reflexivity]]|]).
  contradiction.
Qed.
Example C13_ex_mixed :
  omap (map c_node) (kw_max ex_lit ex_re ex_str false [] (NSeq (mkinfo 2 None true None) ex_mixed) ex_ctx) =
    Ok [AtLoc [RKey (PStr "x"); RIdx 1]; AtLoc [RKey (PStr "x"); RIdx 4]] /\
  omap (map c_node) (kw_max ex_lit ex_re ex_str true [] (NSeq (mkinfo 2 None true None) ex_mixed) ex_ctx) =
    Ok [AtLoc [RKey (PStr "x"); RIdx 0]; AtLoc [RKey (PStr "x"); RIdx 2]; AtLoc [RKey (PStr "x"); RIdx 3];
        AtLoc [RKey (PStr "x"); RIdx 5]] /\
  omap (map c_node) (kw_min ex_lit ex_re ex_str false [] (NSeq (mkinfo 2 None true None) ex_mixed) ex_ctx) =
    Ok [AtLoc [RKey (PStr "x"); RIdx 5]].
Proof. vm_compute. repeat split; reflexivity. Qed.
(* x: [{p: 2}, {q: 1}, {p: 2.0}, {p: null}, {p: 2}] by p: the hypotheses of C13_max_min_mixed_selects_attr hold;
   max(p) yields the first record and the last (the int 2 twice), not the record with 2.0 *)
Definition ex_mixed_aoh : list node :=
  [mp 31 [(lf 13 (PStr "p"), lf 14 (PInt 2))]; mp 32 [(lf 19 (PStr "q"), lf 20 (PInt 1))];
   mp 33 [(lf 13 (PStr "p"), lf 34 (PFloat 2 "2.0"))]; mp 35 [(lf 13 (PStr "p"), lf 4 PNone)];
   mp 36 [(lf 13 (PStr "p"), lf 14 (PInt 2))]].
Example C13_ex_mixed_aoh :
  node_is_aoh true (NSeq (mkinfo 30 None true None) ex_mixed_aoh) = true /\
  (forall v c, In (Some v, c) (map (aoh_member ex_str "p" ex_ctx) (enumerate ex_mixed_aoh)) -> mixed_num v) /\
  omap (map c_node) (kw_max ex_lit ex_re ex_str false ["p"] (NSeq (mkinfo 30 None true None) ex_mixed_aoh) ex_ctx) =
    Ok [AtLoc [RKey (PStr "x"); RIdx 0]; AtLoc [RKey (PStr "x"); RIdx 4]].
Proof.
  split; [reflexivity|]. split; [|vm_compute; reflexivity]. intros v c H. cbv in H.
  repeat (destruct H as [H|H];
          [first [discriminate H |
                  inversion H; subst;
                  first [left; eexists; reflexivity | right; eexists; eexists; split; [reflexivity|vm_compute; reflexivity]]]|]).
  contradiction.
Qed.
(* x: [1, 2.5, 2, 2.5]: no int equals a float -- the guard of C13_max_min_mixed_partial holds *)
Example C13_ex_mixed_guard :
  no_cross_equal (map (list_member ex_str ex_ctx)
                      (enumerate [lf 3 (PInt 1); lf 6 (PFloat (5 # 2) "2.5"); lf 5 (PInt 2); lf 7 (PFloat (5 # 2) "2.5")])) = true /\
  omap (map c_node) (kw_max ex_lit ex_re ex_str false []
         (NSeq (mkinfo 2 None true None) [lf 3 (PInt 1); lf 6 (PFloat (5 # 2) "2.5"); lf 5 (PInt 2); lf 7 (PFloat (5 # 2) "2.5")]) ex_ctx) =
    Ok [AtLoc [RKey (PStr "x"); RIdx 1]; AtLoc [RKey (PStr "x"); RIdx 3]].
Proof. vm_compute. split; reflexivity. Qed.
(* the hypotheses of C13_float_is_same_kind / C13_text_is_same_kind hold of 2.5 and of the word abc *)
Example C13_ex_typed_hyps :
  bool_spelling "2.5" = None /\ float_repr_ok "2.5" = true /\
  bool_spelling "abc" = None /\ lit_rejects ex_lit_t "abc".
Proof. repeat split; try (vm_compute; reflexivity). left. reflexivity. Qed.

Example C13_ex_parameter_misuse :
  kw_max ex_lit ex_re ex_str false ["p"] ex_list ex_ctx = Raise (YPE Generic) /\
  kw_unique false [] ex_hoh ex_ctx = Raise (YPE Generic) /\
  kw_distinct false ["p"; "q"] ex_aoh ex_ctx = Raise (YPE Generic).
Proof. vm_compute. repeat split; reflexivity. Qed.

(* ---- collections mixing KINDS: numbers with text, booleans, numeric-looking
   text.  OUTSIDE the property's quantifier ("same-kind scalars"); what the
   code does on them is pinned here, for ALL such collections.

   Searches.search_matches compares TYPED READINGS (Nodes.typed_value).  [rd]
   names the reading of every comparable member ([has_reading lit rd v]:
   typed_value succeeds with [rd v], which is a NUMBER -- int, float, bool --
   or something with the member's own text).  [kind_member lit rd v] lists the
   kinds and their readings: an int, a float (repr spells no boolean), a bool
   (hypothesis [lit_reads_bools]: the oracle reads "True" / "False" as the
   booleans, true of CPython; a bool IS handed to literal_eval), plain text
   ([lit_rejects], no boolean spelling) read as themselves; numeric-looking
   text -- text the oracle reads as an int / a float -- read as that number;
   text spelling a boolean read as the boolean.

   The comparison ([C13_search_matches_kinds], [C13_kinds_beats_cases]): a new
   value reading as a number beats the running value only if that one reads as
   a number too, and then by numeric value; a new value reading as text beats
   the running value when its text is above / below str(running value) -- the
   running value's own text, also when that is a number.  This is no order
   ([5, -x] max() = 5, [-x, 5] max() = -x), so the statement has two phases.

   [fsplit cls gd l pre b c0 post]: l splits at (b, c0), the FIRST extremum of
   the members of class cls: b is in the class, those before it are strictly
   worse, none after it is better.  [text_enters l1 t]: after the members l1 the
   text member t takes the lead: no number precedes it, or it beats the text of
   the first numeric extremum of l1.  [first_entry ms l1 t c l2]: (t, c) is the
   FIRST text member that does; [no_entry ms]: none does.
   [kinds_split cmp rd ms pre b c0 post], the selected leader (b, c0):
     - no text member ever takes the lead, and b is the first numeric extremum
       (by reading) of the members reading as numbers; or
     - from the first text member taking the lead on, b is the first
       lexicographic extremum of the text members (no number is selected).
   The split is unique ([C13_kinds_split_unique]).  [kinds_selected]: selected
   are c0 and the LATER members that search_matches(EQUALS) deems equal to b
   ([kinds_eq]: the EQUALS ladder on the readings -- bool/bool, int/int,
   float/float by value, anything else as text of the reading against the
   running value's own text); inverted, all the others, nulls included. *)
Theorem C13_kind_member_reading :
  forall lit rd v, kind_member lit rd v -> has_reading lit rd v.
Proof. exact kind_member_reading. Qed.
Print Assumptions C13_kind_member_reading.

Theorem C13_search_matches_kinds :
  forall lit re_search rd cmp a b,
    cmp = MGt \/ cmp = MLt -> has_reading lit rd a -> has_reading lit rd b ->
    search_matches_g lit re_search cmp a (HVal b) = Ok (kinds_beats rd cmp a b) /\
    search_matches_g lit re_search MEquals a (HVal b) = Ok (kinds_eq rd a b).
Proof. exact search_matches_kinds. Qed.
Print Assumptions C13_search_matches_kinds.

Theorem C13_kinds_beats_cases :
  forall rd cmp a b,
    (is_numr rd b = true -> is_numr rd a = true ->
       kinds_beats rd cmp a b = negb (goodb cmp (rd_leb rd) a b)) /\
    (is_numr rd b = true -> is_numr rd a = false -> kinds_beats rd cmp a b = false) /\
    (is_numr rd b = false -> kinds_beats rd cmp a b = text_beats cmp a b).
Proof. exact kinds_beats_cases. Qed.
Print Assumptions C13_kinds_beats_cases.

Theorem C13_max_min_kinds_selects :
  forall lit re_search node_str cmp rd invert i els x,
    cmp = MGt \/ cmp = MLt ->
    node_is_aoh true (NSeq i els) = false ->
    (forall v c, In (Some v, c) (map (list_member node_str x) (enumerate els)) -> kind_member lit rd v) ->
    exists res,
      extremum lit re_search node_str cmp invert [] (NSeq i els) x = Ok res /\
      forall c, In c res <-> kinds_selected cmp rd invert (map (list_member node_str x) (enumerate els)) c.
Proof. exact extremum_list_kinds. Qed.
Print Assumptions C13_max_min_kinds_selects.

Theorem C13_max_min_kinds_selects_attr :
  forall lit re_search node_str cmp rd invert attr i els x,
    cmp = MGt \/ cmp = MLt ->
    node_is_aoh true (NSeq i els) = true ->
    (forall v c, In (Some v, c) (map (aoh_member node_str attr x) (enumerate els)) -> kind_member lit rd v) ->
    exists res,
      extremum lit re_search node_str cmp invert [attr] (NSeq i els) x = Ok res /\
      forall c, In c res <-> kinds_selected cmp rd invert (map (aoh_member node_str attr x) (enumerate els)) c.
Proof. exact extremum_aoh_kinds. Qed.
Print Assumptions C13_max_min_kinds_selects_attr.

Theorem C13_max_min_kinds_selects_hoh :
  forall lit re_search node_str cmp rd invert attr i kvs x,
    cmp = MGt \/ cmp = MLt ->
    forallb (fun kv => is_map (snd kv)) kvs = true ->
    (forall v c, In (Some v, c) (map (hoh_member node_str attr x) kvs) -> kind_member lit rd v) ->
    exists res,
      extremum lit re_search node_str cmp invert [attr] (NMap i kvs) x = Ok res /\
      forall c, In c res <-> kinds_selected cmp rd invert (map (hoh_member node_str attr x) kvs) c.
Proof. exact extremum_hoh_kinds. Qed.
Print Assumptions C13_max_min_kinds_selects_hoh.

(* the same for ANY members with a reading (dates, text reading as None, ...) *)
Theorem C13_max_min_readings_selects :
  forall lit re_search node_str cmp rd invert i els x,
    cmp = MGt \/ cmp = MLt ->
    node_is_aoh true (NSeq i els) = false ->
    (forall v c, In (Some v, c) (map (list_member node_str x) (enumerate els)) -> has_reading lit rd v) ->
    exists res,
      extremum lit re_search node_str cmp invert [] (NSeq i els) x = Ok res /\
      forall c, In c res <-> kinds_selected cmp rd invert (map (list_member node_str x) (enumerate els)) c.
Proof. exact extremum_list_readings. Qed.
Print Assumptions C13_max_min_readings_selects.

Theorem C13_kinds_split_unique :
  forall cmp rd ms pre b c0 post pre' b' c0' post',
    kinds_split cmp rd ms pre b c0 post -> kinds_split cmp rd ms pre' b' c0' post' ->
    pre' = pre /\ b' = b /\ c0' = c0 /\ post' = post.
Proof. exact kinds_split_unique. Qed.
Print Assumptions C13_kinds_split_unique.

(* numbers + booleans + numeric-looking text (every member reads as a number):
   the split is at the first numeric extremum by reading *)
Theorem C13_kinds_split_all_numbers :
  forall cmp rd ms pre b c0 post,
    (forall v c, In (Some v, c) ms -> is_numr rd v = true) ->
    (kinds_split cmp rd ms pre b c0 post <-> fsplit (is_numr rd) (num_good cmp rd) ms pre b c0 post).
Proof. exact kinds_split_all_numbers. Qed.
Print Assumptions C13_kinds_split_all_numbers.

(* the first comparable member is a text: the split is at the first
   lexicographic extremum of the text members; no number is ever selected *)
Theorem C13_kinds_split_text_first :
  forall cmp rd ms pre b c0 post l1 t c l2,
    ms = (l1 ++ (Some t, c) :: l2)%list -> (forall w c', ~ In (Some w, c') l1) -> is_numr rd t = false ->
    (kinds_split cmp rd ms pre b c0 post <->
     exists mid, fsplit (is_textr rd) (text_good cmp) ((Some t, c) :: l2) mid b c0 post /\ pre = (l1 ++ mid)%list).
Proof. exact kinds_split_text_first. Qed.
Print Assumptions C13_kinds_split_text_first.

(* ---- non-vacuity: mixed kinds, replayed on the real code ---- *)
Definition ex_lit_k : string -> outcome litres :=
  lit_of_table [("True", LVal (PBool true)); ("False", LVal (PBool false)); ("abc", LFail); ("Abd", LFail);
                ("-x", LFail); ("zz", LFail); ("10", LVal (PInt 10)); ("1", LVal (PInt 1)); ("2", LVal (PInt 2));
                ("1e1", LVal (PFloat 10 "10.0"))].
Definition ex_rd_k (v : pyval) : pyval := match typed_value ex_lit_k v with Ok t => t | _ => v end.
Definition nds (o : N) (vs : list pyval) : list node :=
  map (fun iv => lf (o + N.of_nat (fst iv)) (snd iv)) (enumerate vs).
Definition seqk (els : list node) : node := NSeq (mkinfo 2 None true None) els.
Definition idxs (r : outcome (list coords)) : outcome (list rnode) := omap (map c_node) r.
Definition xi (n : nat) : rnode := AtLoc [RKey (PStr "x"); RIdx n].

(* x: [1, abc, 2.5, true, '10', null] *)
Definition ex_kinds : list node :=
  nds 100 [PInt 1; PStr "abc"; PFloat (5 # 2) "2.5"; PBool true; PStr "10"; PNone].
Example C13_ex_kinds_hyps :
  node_is_aoh true (seqk ex_kinds) = false /\
  (forall v c, In (Some v, c) (map (list_member ex_str ex_ctx) (enumerate ex_kinds)) -> kind_member ex_lit_k ex_rd_k v).
Proof.
  split; [reflexivity|]. intros v c H. cbv in H.
  repeat (destruct H as [H|H];
    [inversion H; subst;
     first [ apply KM_int; reflexivity
           | apply KM_float; reflexivity
           | apply KM_bool; [split; reflexivity|reflexivity]
           | apply KM_text; [reflexivity|left; reflexivity|reflexivity]
           | eapply KM_int_text; reflexivity ]|]).
  contradiction.
Qed.
(* max() = abc (its text beats "1"; no later text is above it; no number ever wins against a text);
   min() = the 1 and the later true (EQUALS: bool reading against an int reading: by value), not the text;
   both agree with the real code *)
Example C13_ex_kinds :
  idxs (kw_max ex_lit_k ex_re ex_str false [] (seqk ex_kinds) ex_ctx) = Ok [xi 1] /\
  idxs (kw_max ex_lit_k ex_re ex_str true [] (seqk ex_kinds) ex_ctx) = Ok [xi 0; xi 2; xi 3; xi 4; xi 5] /\
  idxs (kw_min ex_lit_k ex_re ex_str false [] (seqk ex_kinds) ex_ctx) = Ok [xi 0; xi 3] /\
  idxs (kw_min ex_lit_k ex_re ex_str true [] (seqk ex_kinds) ex_ctx) = Ok [xi 1; xi 2; xi 4; xi 5].
Proof. vm_compute. repeat split; reflexivity. Qed.
(* ... and the theorem's predicate holds of the selected member *)
Example C13_ex_kinds_selected :
  kinds_selected MGt ex_rd_k false (map (list_member ex_str ex_ctx) (enumerate ex_kinds)) (child_coords ex_ctx (RIdx 1)).
Proof.
  destruct (C13_max_min_kinds_selects ex_lit_k ex_re ex_str MGt ex_rd_k false (mkinfo 2 None true None) ex_kinds ex_ctx
              (or_introl eq_refl) (proj1 C13_ex_kinds_hyps) (proj2 C13_ex_kinds_hyps)) as [res [E H]].
  apply H. vm_compute in E. inversion E. left. reflexivity.
Qed.
(* the comparison is no order: x: [5, -x, 7] max() = 7 ("-x" is below "5"), x: [-x, 5, 7] max() = -x *)
Example C13_ex_kinds_order_dependent :
  idxs (kw_max ex_lit_k ex_re ex_str false [] (seqk (nds 100 [PInt 5; PStr "-x"; PInt 7])) ex_ctx) = Ok [xi 2] /\
  idxs (kw_min ex_lit_k ex_re ex_str false [] (seqk (nds 100 [PInt 5; PStr "-x"; PInt 7])) ex_ctx) = Ok [xi 1] /\
  idxs (kw_max ex_lit_k ex_re ex_str false [] (seqk (nds 100 [PStr "-x"; PInt 5; PInt 7])) ex_ctx) = Ok [xi 0] /\
  idxs (kw_min ex_lit_k ex_re ex_str false [] (seqk (nds 100 [PStr "-x"; PInt 5; PInt 7])) ex_ctx) = Ok [xi 0].
Proof. vm_compute. repeat split; reflexivity. Qed.
(* numbers + booleans + numeric-looking text: x: [2, '10', 10, '1e1', 10.0, null, true]: max() = the '10' and
   the later int 10 (not the text '1e1' / the float 10.0: EQUALS compares an int reading with a float reading as
   text); min() = true (reading 1 < 2);  x: [true, 1, 1.0, '1', 2, '2', 2]: max() = the 2, the '2', the 2 *)
Example C13_ex_kinds_numeric :
  idxs (kw_max ex_lit_k ex_re ex_str false []
          (seqk (nds 100 [PInt 2; PStr "10"; PInt 10; PStr "1e1"; PFloat 10 "10.0"; PNone; PBool true])) ex_ctx) = Ok [xi 1; xi 2] /\
  idxs (kw_min ex_lit_k ex_re ex_str false []
          (seqk (nds 100 [PInt 2; PStr "10"; PInt 10; PStr "1e1"; PFloat 10 "10.0"; PNone; PBool true])) ex_ctx) = Ok [xi 6] /\
  idxs (kw_max ex_lit_k ex_re ex_str false []
          (seqk (nds 100 [PBool true; PInt 1; PFloat 1 "1.0"; PStr "1"; PInt 2; PStr "2"; PInt 2])) ex_ctx) = Ok [xi 4; xi 5; xi 6] /\
  idxs (kw_min ex_lit_k ex_re ex_str false []
          (seqk (nds 100 [PBool true; PInt 1; PFloat 1 "1.0"; PStr "1"; PInt 2; PStr "2"; PInt 2])) ex_ctx) = Ok [xi 0].
Proof. vm_compute. repeat split; reflexivity. Qed.
(* numbers + text, the text phase: x: [3, 1e1, abc, Abd, abc, '10', 10.0] max() = the two abc; min() = 3;
   x: [1, abc, 2.5, true, '10', null, zz, 100, zz] max() = the two zz *)
Example C13_ex_kinds_text_phase :
  idxs (kw_max ex_lit_k ex_re ex_str false []
          (seqk (nds 100 [PInt 3; PFloat 10 "10.0"; PStr "abc"; PStr "Abd"; PStr "abc"; PStr "10"; PFloat 10 "10.0"])) ex_ctx) = Ok [xi 2; xi 4] /\
  idxs (kw_min ex_lit_k ex_re ex_str false []
          (seqk (nds 100 [PInt 3; PFloat 10 "10.0"; PStr "abc"; PStr "Abd"; PStr "abc"; PStr "10"; PFloat 10 "10.0"])) ex_ctx) = Ok [xi 0] /\
  idxs (kw_max ex_lit_k ex_re ex_str false []
          (seqk (nds 100 [PInt 1; PStr "abc"; PFloat (5 # 2) "2.5"; PBool true; PStr "10"; PNone; PStr "zz"; PInt 100; PStr "zz"])) ex_ctx) = Ok [xi 6; xi 8] /\
  idxs (kw_max ex_lit_k ex_re ex_str true []
          (seqk (nds 100 [PInt 1; PStr "abc"; PFloat (5 # 2) "2.5"; PBool true; PStr "10"; PNone; PStr "zz"; PInt 100; PStr "zz"])) ex_ctx) =
    Ok [xi 0; xi 2; xi 3; xi 4; xi 5; xi 1; xi 7].
Proof. vm_compute. repeat split; reflexivity. Qed.
(* x: [{p: 2}, {q: 1}, {p: abc}, {p: null}, {p: '10'}, {p: abc}, {p: true}] by p: the hypotheses of
   C13_max_min_kinds_selects_attr hold; max(p) = the two records with abc; min(p) = the record with true *)
Definition ex_kinds_aoh : list node :=
  [mp 31 [(lf 13 (PStr "p"), lf 14 (PInt 2))]; mp 32 [(lf 19 (PStr "q"), lf 20 (PInt 1))];
   mp 33 [(lf 13 (PStr "p"), lf 34 (PStr "abc"))]; mp 35 [(lf 13 (PStr "p"), lf 4 PNone)];
   mp 36 [(lf 13 (PStr "p"), lf 37 (PStr "10"))]; mp 38 [(lf 13 (PStr "p"), lf 34 (PStr "abc"))];
   mp 39 [(lf 13 (PStr "p"), lf 40 (PBool true))]].
Example C13_ex_kinds_aoh :
  node_is_aoh true (NSeq (mkinfo 30 None true None) ex_kinds_aoh) = true /\
  (forall v c, In (Some v, c) (map (aoh_member ex_str "p" ex_ctx) (enumerate ex_kinds_aoh)) -> kind_member ex_lit_k ex_rd_k v) /\
  idxs (kw_max ex_lit_k ex_re ex_str false ["p"] (NSeq (mkinfo 30 None true None) ex_kinds_aoh) ex_ctx) = Ok [xi 2; xi 5] /\
  idxs (kw_min ex_lit_k ex_re ex_str false ["p"] (NSeq (mkinfo 30 None true None) ex_kinds_aoh) ex_ctx) = Ok [xi 6].
Proof.
  split; [reflexivity|]. split; [|vm_compute; split; reflexivity]. intros v c H. cbv in H.
  repeat (destruct H as [H|H];
    [first [discriminate H |
       inversion H; subst;
       first [ apply KM_int; reflexivity
             | apply KM_bool; [split; reflexivity|reflexivity]
             | apply KM_text; [reflexivity|left; reflexivity|reflexivity]
             | eapply KM_int_text; reflexivity ]]|]).
  contradiction.
Qed.
(* x: {r0: {p: 2}, r1: {q: 1}, r2: {p: abc}, r3: {p: null}, r4: {p: '10'}, r5: {p: abc}, r6: {p: true}} by p:
   the hypotheses of C13_max_min_kinds_selects_hoh hold; max(p) = r2 and r5; min(p) = r6 *)
Definition ex_kinds_hoh_kvs : list (node * node) :=
  [(lf 11 (PStr "r0"), mp 12 [(lf 13 (PStr "p"), lf 14 (PInt 2))]);
   (lf 15 (PStr "r1"), mp 16 [(lf 19 (PStr "q"), lf 20 (PInt 1))]);
   (lf 17 (PStr "r2"), mp 18 [(lf 13 (PStr "p"), lf 34 (PStr "abc"))]);
   (lf 21 (PStr "r3"), mp 22 [(lf 13 (PStr "p"), lf 4 PNone)]);
   (lf 23 (PStr "r4"), mp 24 [(lf 13 (PStr "p"), lf 37 (PStr "10"))]);
   (lf 25 (PStr "r5"), mp 26 [(lf 13 (PStr "p"), lf 34 (PStr "abc"))]);
   (lf 27 (PStr "r6"), mp 28 [(lf 13 (PStr "p"), lf 40 (PBool true))])].
Example C13_ex_kinds_hoh :
  forallb (fun kv => is_map (snd kv)) ex_kinds_hoh_kvs = true /\
  (forall v c, In (Some v, c) (map (hoh_member ex_str "p" ex_ctx) ex_kinds_hoh_kvs) -> kind_member ex_lit_k ex_rd_k v) /\
  idxs (kw_max ex_lit_k ex_re ex_str false ["p"] (mp 10 ex_kinds_hoh_kvs) ex_ctx) =
    Ok [AtLoc [RKey (PStr "x"); RKey (PStr "r2")]; AtLoc [RKey (PStr "x"); RKey (PStr "r5")]] /\
  idxs (kw_min ex_lit_k ex_re ex_str false ["p"] (mp 10 ex_kinds_hoh_kvs) ex_ctx) =
    Ok [AtLoc [RKey (PStr "x"); RKey (PStr "r6")]].
Proof.
  split; [reflexivity|]. split; [|vm_compute; split; reflexivity]. intros v c H. cbv in H.
  repeat (destruct H as [H|H];
    [first [discriminate H |
       inversion H; subst;
       first [ apply KM_int; reflexivity
             | apply KM_bool; [split; reflexivity|reflexivity]
             | apply KM_text; [reflexivity|left; reflexivity|reflexivity]
             | eapply KM_int_text; reflexivity ]]|]).
  contradiction.
Qed.

(* Every remaining statement of this file, so that none is left unaudited. *)
Print Assumptions C13_selected_is_spec.
Print Assumptions C13_text_literal_reads_as_value.
Print Assumptions C13_numeric_text_reads_as_float.
Print Assumptions C13_selected_by_is_spec.
Print Assumptions C13_distinct_inverted_refused.
Print Assumptions C13_parent_zero_is_self.
Print Assumptions C13_name_refuses.
