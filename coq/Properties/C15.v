(* C15 -- Evaluating any path on any document fails only with YAML Path errors.
   Statements only; proofs live in Proofs/EvalGood.v, EvalHandlers.v,
   EvalTotal.v, EvalPure.v, EvalC15.v.

   A query is a stream (Eval.gen): the yielded results and how the generator
   stopped.  [clean_stop] = normal end or a YAMLPathException; in particular not
   [Err (PyCrash _)] (IndexError, TypeError, KeyError, AttributeError,
   NotImplementedError, ...) and not [Fuel] (the supplied fuel
   [fuel_for p = S (pweight p)] is proved sufficient; the data dimension uses
   [S (vsize v)]).  The theorems hold for every document, every prepared path of
   the collector-free fragment [in_fragment] (Spec/C15.v), all oracle functions
   that answer, and every keyword handler / creator that is itself clean. *)
From Coq Require Import List Ascii String ZArith NArith Bool.
From YP Require Import Outcome PyStr PyVal Doc Generated PathParser PathPrinter Searches Eval SpecC15 SpecC09
     EvalGood EvalHandlers EvalTotal EvalPure EvalC15
     Keywords EvalKw SpecC15kw EvalKwClean EvalKwTotal EvalKwColl EvalKwC15
     C14Pairs ParserPairs C15Shape PreparedFrag.
Import ListNotations.
Open Scope string_scope.

Section Statements.
Variable lit : string -> outcome litres.
Variable re_search : string -> string -> outcome reres.
Variable nstr : node -> string.
Variable vstr : list rval -> string.
Variable kw_handler : bool -> keyword -> string -> rval -> ctx -> gen rval.
Variable creator : list pseg -> nat -> rval -> ctx -> gen rval.
(* the oracles answer; literal_eval raises nothing Nodes.typed_value does not catch *)
Hypothesis lit_total : forall s, exists r, lit s = Ok r /\ (forall c, r <> LCrash c).
Hypothesis re_total : forall p s, exists r, re_search p s = Ok r.
(* the keyword-search handler (another model) is clean, yields NodeCoords or lists, and does not write *)
Hypothesis kw_ok : forall inv k ps v c, sres coords_or_list (kw_handler inv k ps v c).
Hypothesis kw_pure : forall inv k ps v c, nomut (kw_handler inv k ps v c).
(* the node-creating branches (another model) yield NodeCoords and are clean up to the mutation they perform *)
Hypothesis creator_ok : forall segs i v c, sres is_coords (creator segs i v c).

Theorem C15_required_only_ype :
  forall (p : ppath) (d : node),
    in_fragment p = true ->
    clean_stop (snd (get_required lit re_search nstr vstr kw_handler creator p d)).
Proof. exact (required_only_ype lit re_search nstr vstr kw_handler creator lit_total re_total kw_ok kw_pure creator_ok). Qed.

Theorem C15_exists_only_ype :
  forall (p : ppath) (d : node),
    in_fragment p = true ->
    clean_stop (snd (exists_ lit re_search nstr vstr kw_handler creator p d)).
Proof. exact (exists_only_ype lit re_search nstr vstr kw_handler creator lit_total re_total kw_ok kw_pure creator_ok). Qed.

Theorem C15_optional_only_ype :
  forall (p : ppath) (d : node),
    in_fragment p = true ->
    clean_or_mut (snd (get_optional lit re_search nstr vstr kw_handler creator p d)).
Proof. exact (optional_only_ype lit re_search nstr vstr kw_handler creator lit_total re_total kw_ok creator_ok). Qed.

(* The node-creating branches (the parameter [creator]) are reached only with a tail that can be built: since fix
   45f1b07 (Nodes.require_buildable_path) a missing ANCHOR / INDEX / KEY element whose path goes on with anything
   but Hash keys and non-negative Array indexes -- counted from the segment itself when the data is a null, which
   is replaced by a new container -- is a YAMLPathException raised BEFORE anything is built, whatever the creator
   would do.  (Before the repair Nodes.build_next_node handed back the default value for such a segment: it was
   stored at the first missing element and the rest of the path evaluated inside it -- findings F-C11-5.) *)
Theorem C15_unbuildable_tail_refused :
  forall (segs : list pseg) (i : nat) (ps : pseg) (v : rval) (c : ctx),
    is_ty TAnchor (fst (seg_us ps)) || is_ty TIndex (fst (seg_us ps)) || is_ty TKey (fst (seg_us ps)) = true ->
    buildable_tail segs (match v with RNode (NLeaf _ PNone) => i | _ => S i end) = false ->
    missing_element creator segs i ps v c = gerr (YPE Generic).
Proof. exact (missing_element_unbuildable creator). Qed.

End Statements.
Print Assumptions C15_unbuildable_tail_refused.
Print Assumptions C15_required_only_ype.
Print Assumptions C15_exists_only_ype.
Print Assumptions C15_optional_only_ype.

(* ---- the evaluator JOINED with the keyword searches (Model/EvalKw.v): no
   assumption about the keyword handler is left.  [ek_required] / [ek_optional] /
   [ek_exists] are get_nodes(mustexist=True) / get_nodes(mustexist=False) /
   exists() with Eval's parameter [kw_handler] instantiated by
   Keywords.keyword_search.  Fragments and guard: Spec/SpecC15kw.v. ---- *)
Section StatementsKw.
Variable lit : string -> outcome litres.
Variable re_search : string -> string -> outcome reres.
Variable nstr : node -> string.
Variable vstr : list rval -> string.
Hypothesis lit_total : forall s, exists r, lit s = Ok r /\ (forall c, r <> LCrash c).
Hypothesis re_total : forall p s, exists r, re_search p s = Ok r.

(* Every keyword handler -- has_child (incl. &anchor), name, max, min, parent,
   unique, distinct, inverted or not -- on ANY data (document nodes, lists built
   by the evaluator, null, unhashable members), any context and ANY parameter
   text (one SearchKeywordTerms.parameters cannot split is a YAMLPathException
   since the repair of finding F31): the stream ends normally or with a
   YAMLPathException and yields NodeCoords. *)
Theorem C15_kw_handler_clean :
  forall (inv : bool) (kw : keyword) (params : string) (v : rval) (c : ctx),
    clean_stop (snd (ek_kw_handler lit re_search nstr vstr inv kw params v c))
    /\ Forall (fun x => is_coords x = true) (fst (ek_kw_handler lit re_search nstr vstr inv kw params v c)).
Proof. exact (kw_handler_clean lit re_search nstr vstr lit_total). Qed.

(* C15 for the collector-free fragment INCLUDING keyword segments at any
   position, evaluated by the JOINED evaluator (in_fragment_kw = in_fragment,
   C15_kw_fragment_is_fragment: nothing is asked of the parameter texts) *)
Theorem C15_required_only_ype_kw :
  forall (p : ppath) (d : node),
    in_fragment_kw p = true ->
    clean_stop (snd (ek_required lit re_search nstr vstr p d)).
Proof. exact (required_only_ype_kw lit re_search nstr vstr lit_total re_total). Qed.

Theorem C15_exists_only_ype_kw :
  forall (p : ppath) (d : node),
    in_fragment_kw p = true ->
    clean_stop (snd (ek_exists lit re_search nstr vstr p d)).
Proof. exact (exists_only_ype_kw lit re_search nstr vstr lit_total re_total). Qed.

Theorem C15_optional_only_ype_kw :
  forall (p : ppath) (d : node),
    in_fragment_kw p = true ->
    clean_or_mut (snd (ek_optional lit re_search nstr vstr p d)).
Proof. exact (optional_only_ype_kw lit re_search nstr vstr lit_total re_total). Qed.

(* Collectors "limited to operands selecting scalars" (the property's own
   restriction) as the computable guard [kc_fragment p d]: the path starts
   with a collector expression (operand) {+|-|& (operand)}* followed by
   collector-free segments (keyword segments included), every operand is again
   such a path, and every operand, evaluated on the document the way
   _get_nodes_by_collector evaluates it, yields only NodeCoords that unwrap to
   scalars.  Under the guard: no crash and no fuel exhaustion.  (That a read
   never writes to the document holds for EVERY path since the repair of F16:
   C09_required_pure / C09_exists_pure.) *)
Theorem C15_required_only_ype_partial :
  forall (p : ppath) (d : node),
    kc_fragment lit re_search nstr vstr p d = true ->
    clean_stop (snd (ek_required lit re_search nstr vstr p d)).
Proof. exact (required_kc lit re_search nstr vstr lit_total re_total). Qed.

Theorem C15_exists_only_ype_partial :
  forall (p : ppath) (d : node),
    kc_fragment lit re_search nstr vstr p d = true ->
    clean_stop (snd (ek_exists lit re_search nstr vstr p d)).
Proof. exact (exists_kc lit re_search nstr vstr lit_total re_total). Qed.

Theorem C15_optional_only_ype_partial :
  forall (p : ppath) (d : node),
    kc_fragment lit re_search nstr vstr p d = true ->
    clean_or_mut (snd (ek_optional lit re_search nstr vstr p d)).
Proof. exact (optional_kc lit re_search nstr vstr lit_total re_total). Qed.

(* the keyword fragment is the collector-free instance of the guard *)
Theorem C15_kw_fragment_in_guard :
  forall (p : ppath) (d : node), in_fragment_kw p = true -> kc_fragment lit re_search nstr vstr p d = true.
Proof. exact (frag_kw_kc lit re_search nstr vstr). Qed.

(* For a path PREPARED FROM A TEXT the fragment's demands "types and attributes
   agree the way the parser pairs them" are no longer assumed: they follow from
   the parser invariant C14_segments_paired (since the repair of F30 every
   accepted text consists of typed segments whose COLLECTOR / KEYWORD_SEARCH /
   SEARCH types carry their terms).  What remains is [collector_free_kw]
   (Spec/C15Shape.v): no COLLECTOR-typed segment, every sub-path parsed or
   failed with a YAMLPathException. *)
Theorem C15_required_only_ype_text :
  forall (fuel : nat) (text : string) (p : ppath) (d : node),
    prepare fuel text = Ok p -> collector_free_kw p = true ->
    clean_stop (snd (ek_required lit re_search nstr vstr p d)).
Proof. exact (required_only_ype_text lit re_search nstr vstr lit_total re_total). Qed.

Theorem C15_exists_only_ype_text :
  forall (fuel : nat) (text : string) (p : ppath) (d : node),
    prepare fuel text = Ok p -> collector_free_kw p = true ->
    clean_stop (snd (ek_exists lit re_search nstr vstr p d)).
Proof. exact (exists_only_ype_text lit re_search nstr vstr lit_total re_total). Qed.

Theorem C15_optional_only_ype_text :
  forall (fuel : nat) (text : string) (p : ppath) (d : node),
    prepare fuel text = Ok p -> collector_free_kw p = true ->
    clean_or_mut (snd (ek_optional lit re_search nstr vstr p d)).
Proof. exact (optional_only_ype_text lit re_search nstr vstr lit_total re_total). Qed.

End StatementsKw.

(* the two fragments, for prepared texts, without the pairing demands *)
Theorem C15_prepared_in_fragment :
  forall (fuel : nat) (text : string) (p : ppath),
    prepare fuel text = Ok p -> collector_free p = true -> in_fragment p = true.
Proof. exact prepared_in_fragment. Qed.

Theorem C15_prepared_in_fragment_kw :
  forall (fuel : nat) (text : string) (p : ppath),
    prepare fuel text = Ok p -> collector_free_kw p = true -> in_fragment_kw p = true.
Proof. exact prepared_in_fragment_kw. Qed.

(* the keyword fragment asks nothing beyond the fragment (it used to ask that
   every keyword parameter text splits: finding F31, repaired) *)
Theorem C15_kw_fragment_is_fragment : forall p : ppath, in_fragment_kw p = in_fragment p.
Proof. exact in_fragment_kw_eq. Qed.

Theorem C15_collector_free_kw_is_collector_free : forall p : ppath, collector_free_kw p = collector_free p.
Proof. exact collector_free_kw_eq. Qed.
Print Assumptions C15_kw_fragment_is_fragment.
Print Assumptions C15_collector_free_kw_is_collector_free.
Print Assumptions C15_prepared_in_fragment.
Print Assumptions C15_prepared_in_fragment_kw.
Print Assumptions C15_required_only_ype_text.
Print Assumptions C15_exists_only_ype_text.
Print Assumptions C15_optional_only_ype_text.
Print Assumptions C15_kw_handler_clean.
Print Assumptions C15_required_only_ype_kw.
Print Assumptions C15_exists_only_ype_kw.
Print Assumptions C15_optional_only_ype_kw.
Print Assumptions C15_required_only_ype_partial.
Print Assumptions C15_exists_only_ype_partial.
Print Assumptions C15_optional_only_ype_partial.

(* ---- concrete oracles for the witnesses and the non-vacuity examples ---- *)
Definition lit0 (s : string) : outcome litres :=
  Ok (match py_int s with Some z => LVal (PInt z) | None => LFail end).
Definition re0 (_ _ : string) : outcome reres := Ok (RMatch false).
Definition nstr0 (_ : node) : string := "".
Definition vstr0 (_ : list rval) : string := "".
Definition kw0 (_ : bool) (_ : keyword) (_ : string) (_ : rval) (_ : ctx) : gen rval := gnil.
Definition cr0 (_ : list pseg) (_ : nat) (_ : rval) (_ : ctx) : gen rval := gerr (YPE Generic).

Definition inf (n : N) : info := mkinfo n None false None.
Definition leaf (n : N) (v : pyval) : node := NLeaf (inf n) v.
(* {a: 1, b: 2} *)
Definition doc_ab : node :=
  NMap (inf 0) [(leaf 1 (PStr "a"), leaf 2 (PInt 1)); (leaf 3 (PStr "b"), leaf 4 (PInt 2))].
(* [{a: 1}, {a: 2, b: x}] *)
Definition doc_aoh : node :=
  NSeq (inf 0) [NMap (inf 1) [(leaf 2 (PStr "a"), leaf 3 (PInt 1))];
                NMap (inf 4) [(leaf 2 (PStr "a"), leaf 5 (PInt 2)); (leaf 6 (PStr "b"), leaf 7 (PStr "x"))]].

Definition run_req (text : string) (d : node) : outcome (list N * stop) :=
  do p <- prepare (S (S (String.length text))) text;
  let g := get_required lit0 re0 nstr0 vstr0 kw0 cr0 p d in
  Ok (map (fun x => match x with RCoords (RNode n) _ _ _ _ => node_oid n | _ => 999%N end) (fst g), snd g).

(* Finding F25, repaired (fix d6ff93f in YAMLPath._parse_path): a collector
   followed by bare text -- "(a)b", "(a)'b'" -- used to parse to a
   COLLECTOR-typed segment WITHOUT collector terms, for which
   _get_nodes_by_path_segment raises NotImplementedError (processor.py:931;
   the former C15_collector_text_refuted).  The parser now resets the segment
   type when the collector is stored: "(a)b" has the segments of "(a).b", and
   the query ends in a YAML Path error (no b below the collected scalar). *)
Example C15_collector_then_text :
  parse Auto true "(a)b" = parse Auto true "(a).b" /\
  parse Auto true "(a)'b'" = parse Auto true "(a).b" /\
  parse Auto true "(a)b" = Ok [(Some TCollector, ACollector CNone "a"); (Some TKey, AStr "b")] /\
  match prepare 10 "(a)b" with
  | Ok p => get_required lit0 re0 nstr0 vstr0 kw0 cr0 p doc_ab = ([], Err (YPE Unmatched))
  | _ => False
  end.
Proof. vm_compute. repeat split; reflexivity. Qed.

(* Finding F30, repaired (fix in YAMLPath._parse_path): the malformed shapes
   that used to be ACCEPTED and to leave a segment without a usable type --
   a collector opened inside an open bracket ("[(a)]", "[a=(b)]", "[a='(b)'=c]":
   a segment typed None, or SEARCH-typed with a plain text), a stray `]` that
   popped a collector's parenthesis ("(][max(())]": a COLLECTOR-typed segment
   holding the text "]"), a keyword's `)` that popped the bracket
   ("[max()\])": a KEYWORD_SEARCH-typed segment holding the text "]") --
   for which _get_nodes_by_path_segment raised NotImplementedError
   (the former C15_bracket_collector_refuted), are now refused by the parser:
   the path is a YAMLPathException, inside the fragment, and the query ends
   with it.  That no other text reaches the dispatcher's NotImplementedError
   is C14_segments_paired (Properties/C14.v). *)
Example C15_bracket_collector_refused :
  forall text, In text ["[(a)]"; "(][max(())]"; "[a=(b)]"; "[a='(b)'=c]"; "[max()\])"; "[a=[b(c)]=d]"] ->
    match prepare 14 text with
    | Ok p => p = PFail (YPE Generic) /\ in_fragment p = true /\
              snd (get_required lit0 re0 nstr0 vstr0 kw0 cr0 p doc_ab) = Err (YPE Generic)
    | _ => False
    end.
Proof.
  intros text H; repeat (destruct H as [<-|H]; [vm_compute; repeat split; reflexivity|]); destruct H.
Qed.

(* Finding F-C11-5 (C11 / C09), repaired (fix 45f1b07): over {a: 1, b: 2} the optional query of a path whose key x
   is missing and which goes on with a wildcard, a traversal, a search, a keyword search, a slice, an anchor, a
   collector or a negative index ends in a YAML Path error and never reaches the creator (it used to: x was given
   the default value and the rest of the path was evaluated inside that value); a.x.* likewise one level down;
   x.y and x[1] are still built (the creator's mutation), and b.* over the existing scalar b selects nothing *)
Definition cr_mut (_ : list pseg) (_ : nat) (_ : rval) (_ : ctx) : gen rval := ([], Mut 0%N PNone).
Definition run_opt (text : string) (d : node) : outcome stop :=
  do p <- prepare (S (S (String.length text))) text;
  Ok (snd (get_optional lit0 re0 nstr0 vstr0 kw0 cr_mut p d)).

Example C15_unbuildable_tail_examples :
  (forall text, In text ["x.*"; "x.**"; "x[.=1]"; "x[max()]"; "x[0:2]"; "x[&q]"; "x(a)+(b)"; "x[-1]"; "x.y[0].*"; "/x/y/*"] ->
     run_opt text doc_ab = Ok (Err (YPE Generic))) /\
  run_opt "x.y" doc_ab = Ok (Mut 0%N PNone) /\ run_opt "x[1]" doc_ab = Ok (Mut 0%N PNone) /\
  run_opt "b.*" doc_ab = Ok Done.
Proof.
  split; [|vm_compute; repeat split; reflexivity].
  intros text H; repeat (destruct H as [<-|H]; [vm_compute; reflexivity|]); destruct H.
Qed.

(* Non-vacuity: the fragment contains non-trivial parsed paths, and they select nodes. *)
Example C15_fragment_example :
  match prepare 20 "a[.>0]" with Ok p => in_fragment p | _ => false end = true.
Proof. vm_compute. reflexivity. Qed.

Example C15_fragment_example_descendant :
  match prepare 40 "/**[a.b!=1][0:5]" with Ok p => in_fragment p | _ => false end = true.
Proof. vm_compute. reflexivity. Qed.

Example C15_query_example : run_req "[a>1].b" doc_aoh = Ok ([7%N], Done).
Proof. vm_compute. reflexivity. Qed.

Example C15_out_of_range_example : run_req "[-3]" doc_aoh = Ok ([], Err (YPE Unmatched)).
Proof. vm_compute. reflexivity. Qed.

Example C15_slice_clamps_example : run_req "[1:9].a" doc_aoh = Ok ([5%N], Done).
Proof. vm_compute. reflexivity. Qed.

Example C15_oracles_exist :
  (forall s, exists r, lit0 s = Ok r /\ (forall c, r <> LCrash c)) /\ (forall p s, exists r, re0 p s = Ok r).
Proof.
  split.
  - intros s. unfold lit0. destruct (py_int s); eexists; split; try reflexivity; intros c H; discriminate.
  - intros; eexists; reflexivity.
Qed.

(* ---- the joined evaluator: non-vacuity and the witnesses for the guard ---- *)
Definition run_req_kw (text : string) (d : node) : outcome (list N * stop) :=
  do p <- prepare (S (S (String.length text))) text;
  let g := ek_required lit0 re0 nstr0 vstr0 p d in
  Ok (map (fun x => match x with RCoords (RNode n) _ _ _ _ => node_oid n | _ => 999%N end) (fst g), snd g).

(* {z: [3, 1, 3], w: null} *)
Definition doc_z : node :=
  NMap (inf 0) [(leaf 1 (PStr "z"), NSeq (inf 2) [leaf 3 (PInt 3); leaf 4 (PInt 1); leaf 5 (PInt 3)]);
                (leaf 6 (PStr "w"), leaf 7 PNone)].
(* [{k: 1}, null, {k: 0}]: the shape of the seeded defect (a null element in an Array-of-Hashes) *)
Definition doc_aoh_null : node :=
  NSeq (inf 0) [NMap (inf 1) [(leaf 2 (PStr "k"), leaf 3 (PInt 1))]; leaf 4 PNone;
                NMap (inf 5) [(leaf 2 (PStr "k"), leaf 6 (PInt 0))]].
(* [1, [2], 1]: an unhashable member *)
Definition doc_unhashable : node :=
  NSeq (inf 0) [leaf 1 (PInt 1); NSeq (inf 2) [leaf 3 (PInt 2)]; leaf 1 (PInt 1)].

Example C15_kw_fragment_max :
  match prepare 20 "z[max()]" with Ok p => in_fragment_kw p | _ => false end = true.
Proof. vm_compute. reflexivity. Qed.

Example C15_kw_fragment_parent :
  match prepare 40 "/**[has_child(a)][parent(2)].b" with Ok p => in_fragment_kw p | _ => false end = true.
Proof. vm_compute. reflexivity. Qed.

Example C15_kw_max_example : run_req_kw "z[max()]" doc_z = Ok ([3%N; 5%N], Done).
Proof. vm_compute. reflexivity. Qed.

Example C15_kw_parent_example : run_req_kw "[1].a[parent(2)]" doc_aoh = Ok ([0%N], Done).
Proof. vm_compute. reflexivity. Qed.

Example C15_kw_parent_above_root_example : run_req_kw "[1].a[parent(3)]" doc_aoh = Ok ([], Err (YPE Generic)).
Proof. vm_compute. reflexivity. Qed.

Example C15_kw_min_over_null_element : run_req_kw "[min(k)]" doc_aoh_null = Ok ([5%N], Done).
Proof. vm_compute. reflexivity. Qed.

Example C15_kw_unhashable_member : run_req_kw "[unique()]" doc_unhashable = Ok ([], Err (YPE Generic)).
Proof. vm_compute. reflexivity. Qed.

Example C15_kw_wildcard_parent : run_req_kw "z.*[parent()]" doc_z = Ok ([2%N; 2%N; 2%N], Done).
Proof. vm_compute. reflexivity. Qed.

(* non-vacuity of the text-level statements *)
Example C15_text_example :
  match prepare 40 "/**[has_child(a)][parent(2)].b[c=~/d/]" with Ok p => collector_free_kw p | _ => false end = true.
Proof. vm_compute. reflexivity. Qed.

(* Finding F31, repaired (fix b201f36 in KeywordSearches.search_matches): the
   parser accepts "[max(\')]", the escaped parse stores the parameter text "'"
   (the back-slash is stripped) and SearchKeywordTerms.parameters raises
   ValueError on it when the segment is evaluated (the former
   C15_kw_params_refuted; C14_keyword_parameters_total still says so of the
   accessor).  search_matches now turns that ValueError into a
   YAMLPathException: the path is inside the fragment, and the required, the
   optional and the exists() query end with a YAML Path error. *)
Example C15_kw_params_refused :
  forall text, In text ["[max(\')]"; "[has_child(\"")]"; "a[!min(b\')]"; "[unique(\'a)][max(b)]"] ->
    match prepare 20 text with
    | Ok p => in_fragment_kw p = true /\ collector_free_kw p = true /\
              snd (ek_required lit0 re0 nstr0 vstr0 p doc_ab) = Err (YPE Generic) /\
              snd (ek_optional lit0 re0 nstr0 vstr0 p doc_ab) = Err (YPE Generic) /\
              snd (ek_exists lit0 re0 nstr0 vstr0 p doc_ab) = Err (YPE Generic)
    | _ => False
    end.
Proof.
  intros text H; repeat (destruct H as [<-|H]; [vm_compute; repeat split; reflexivity|]); destruct H.
Qed.

(* ... although the parameter text itself still does not split: that is not a parser guarantee *)
Example C15_kw_params_not_a_parser_guarantee :
  parse Auto true "[max(\')]" = Ok [(Some TKeywordSearch, AKeyword false KMax "'")] /\ kw_params_ok "'" = false /\
  keyword_parameters "'" = Raise (PyCrash ValueError).
Proof. vm_compute. repeat split; reflexivity. Qed.

Example C15_kw_params_hyp : kw_params_ok "a, 'b c'" = true /\ kw_params_ok "'a" = false.
Proof. vm_compute. split; reflexivity. Qed.

(* collectors with scalar operands satisfy the guard, and the query answers *)
Example C15_guard_example :
  match prepare 20 "(a)+(b)-(a)[max()]" with
  | Ok p => kc_fragment lit0 re0 nstr0 vstr0 p doc_ab && negb (in_fragment_kw p)
  | _ => false
  end = true.
Proof. vm_compute. reflexivity. Qed.

Example C15_guard_chain_example :
  match prepare 40 "(z[0])+(w)&(**)-(z.*)[unique()]" with
  | Ok p => kc_fragment lit0 re0 nstr0 vstr0 p doc_z
  | _ => false
  end = true.
Proof. vm_compute. reflexivity. Qed.

(* a nested collector selects the LIST its inner collector built, not scalars: outside the guard *)
Example C15_guard_rejects_nested :
  match prepare 40 "((z[0])+(w))&(**)" with Ok p => kc_fragment lit0 re0 nstr0 vstr0 p doc_z | _ => true end = false.
Proof. vm_compute. reflexivity. Qed.

(* ... and the guard is needed: an operand that selects a hash makes the
   subtraction evaluate `'x' in None` (TypeError); the guard rejects it *)
Theorem C15_collector_nonscalar_refuted :
  exists text d,
    match prepare 20 text with
    | Ok p => kc_fragment lit0 re0 nstr0 vstr0 p d = false /\
              snd (ek_required lit0 re0 nstr0 vstr0 p d) = Err (PyCrash TypeError)
    | _ => False
    end.
Proof.
  exists "(*)-([0])", (NSeq (inf 0) [leaf 1 PNone; NMap (inf 2) [(leaf 3 (PStr "a"), leaf 4 (PInt 1))]]).
  vm_compute. split; reflexivity.
Qed.

(* "(a)b" (finding F25, repaired) now reads like "(a).b": a collector over a
   scalar operand followed by a key segment -- inside the guard *)
Example C15_guard_accepts_collector_then_text :
  match prepare 10 "(a)b" with Ok p => kc_fragment lit0 re0 nstr0 vstr0 p doc_ab | _ => false end = true.
Proof. vm_compute. reflexivity. Qed.

(* Every remaining statement of this file, so that none is left unaudited. *)
Print Assumptions C15_kw_fragment_in_guard.
Print Assumptions C15_collector_nonscalar_refuted.
