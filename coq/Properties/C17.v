(* C17 -- A failing or interrupted tool run never loses the user's file.
   Statements only; the models are Model/SaveProtocol.v (module Sv) and
   Model/SaveCli.v (module Sc), the declarative notions Spec/C17Spec.v, the
   proofs Proofs/SaveProofs.v.

   The theorems speak about EVERY option set, every start state (stale .bak or
   not, whatever its content), every number of output documents, every fault
   position k (a natural number, not a bounded index), both fault modes (the
   call raises before / in the middle of its effect) and both exception kinds.
   The model is the code as repaired by the `fix:` commit of this property
   (yaml-merge took its backup before prepare_for_dump). *)
From Coq Require Import List Bool Arith.
From YP Require Import SaveProtocol SaveCli C17Spec SaveProofs.
Import ListNotations.
Import Sv Sc.

(* ---- pre-write failures --------------------------------------------------------- *)

(* yaml-set: whenever a step before the write ends the run (unmatched required
   path, failed --check, impossible change, unreadable input, bad arguments...),
   no I/O call is made at all -- even with a fault armed -- so the file system
   is the one the run started in and the status is the step's. *)
Theorem C17_prewrite_unchanged_set :
  forall (i : set_in) (f : option fault) (s : fs) (st : status),
    set_pre i = Some st -> set_main i f s = mkout s [] st.
Proof. exact set_prewrite. Qed.
Print Assumptions C17_prewrite_unchanged_set.

(* ... and these are the ONLY ways yaml-set ends with a non-zero status when no
   I/O call fails: a failing run touched nothing. *)
Theorem C17_set_failure_is_prewrite :
  forall (i : set_in) (s : fs),
    get s Target <> None ->
    failed (o_status (set_main i None s)) ->
    untouched s (o_fs (set_main i None s)) /\ o_trace (set_main i None s) = [].
Proof. exact set_failure_is_prewrite. Qed.
Print Assumptions C17_set_failure_is_prewrite.

(* yaml-merge: a load failure, a merge or anchor conflict (any non-zero
   exit_state), or a result that cannot be prepared for dumping leaves the file
   system untouched; the only calls made are the exists() of validateargs. *)
Theorem C17_prewrite_unchanged_merge :
  forall (i : merge_in) (f : option fault) (s : fs) (st : status),
    start_ok s -> merge_pre i = Some st ->
    let o := merge_main i f s in
    untouched s (o_fs o) /\ failed (o_status o) /\ forallb only_looks (o_trace o) = true.
Proof. exact merge_prewrite. Qed.
Print Assumptions C17_prewrite_unchanged_merge.

Theorem C17_merge_failure_is_prewrite :
  forall (i : merge_in) (s : fs),
    start_ok s ->
    (m_mode i = ToOverwrite -> m_backup i = true -> get s Target <> None) ->
    failed (o_status (merge_main i None s)) ->
    untouched s (o_fs (merge_main i None s)) /\ forallb only_looks (o_trace (merge_main i None s)) = true.
Proof. exact merge_failure_is_prewrite. Qed.
Print Assumptions C17_merge_failure_is_prewrite.

(* The side condition of the last theorem is needed: --overwrite NEW --backup
   with no NEW to copy fails inside the save (copy2 raises) after a stale
   NEW.bak was removed.  Nothing of the user's target is lost (there is none). *)
Theorem C17_merge_backup_of_nothing_refuted :
  exists (i : merge_in) (s : fs),
    start_ok s /\ failed (o_status (merge_main i None s)) /\ o_fs (merge_main i None s) <> s.
Proof. exact merge_backup_of_nothing_witness. Qed.

(* ---- --output never replaces an existing file -------------------------------------------- *)

Theorem C17_output_never_replaces :
  forall (i : merge_in) (f : option fault) (s : fs),
    m_mode i = ToOutput -> get s Output <> None ->
    let o := merge_main i f s in
    o_fs o = s /\ failed (o_status o) /\ forallb only_looks (o_trace o) = true.
Proof. exact output_never_replaces. Qed.
Print Assumptions C17_output_never_replaces.

Theorem C17_output_kept_by_save :
  forall (backup json : bool) (n : nat) (f : option fault) (s : fs),
    get s Output <> None -> output_kept s (o_fs (save (CMerge ToOutput backup json n) f s)).
Proof. exact output_kept_by_save. Qed.
Print Assumptions C17_output_kept_by_save.

(* ---- with --backup -------------------------------------------------------------------------- *)

(* a run in which no call fails ends with status 0, the .bak holding the
   pre-image and the target the complete new document *)
Theorem C17_bak_is_preimage :
  forall (c : cfg) (s : fs),
    cfg_backup c = true -> get s Target = Some Orig ->
    o_status (save c None s) = SOk /\ bak_is_preimage (o_fs (save c None s)).
Proof. exact bak_is_preimage_holds. Qed.
Print Assumptions C17_bak_is_preimage.

(* if any single I/O call of the save fails -- at any position, before or in
   the middle of its effect, as OSError or AssertionError -- the target or its
   backup still holds the complete original bytes *)
Theorem C17_one_copy_survives :
  forall (c : cfg) (f : option fault) (s : fs),
    cfg_backup c = true -> get s Target = Some Orig ->
    one_intact_copy (o_fs (save c f s)).
Proof. exact one_copy_survives. Qed.
Print Assumptions C17_one_copy_survives.

(* the general lemma: ANY sequence of calls in which copy2(target, bak)
   completes before the first call that can damage the target, and no later call
   writes to the backup, keeps one intact copy under any single fault *)
Theorem C17_backup_first_general :
  forall (l : list op) (f : option fault) (k : nat) (s : fs),
    backup_first l -> get s Target = Some Orig ->
    one_intact_copy (r_fs (run_until_fault f k l s)).
Proof. exact backup_first_safe. Qed.
Print Assumptions C17_backup_first_general.

(* the hypothesis "backup on" matters: without --backup a failed dump loses the
   file (the property text claims nothing else) *)
Theorem C17_no_backup_no_promise :
  exists (c : cfg) (f : fault) (s : fs),
    cfg_backup c = false /\ get s Target = Some Orig /\ ~ one_intact_copy (o_fs (save c (Some f) s)).
Proof. exact no_backup_no_promise_witness. Qed.

(* ---- the same facts over the whole finite part of the domain, by computation ----------------- *)
(* every yaml-set / rotate option set x stale x every position up to past the
   end x both modes x both kinds (a cross-check of the general proof) *)
Theorem C17_finite_domain_check : finite_domain_check = true.
Proof. exact finite_domain_check_true. Qed.

(* ---- non-vacuity -------------------------------------------------------------------------------- *)

(* a failed --check on a two-node match ends with status 20 before the write *)
Example C17_ex_check_fails :
  set_pre (mkset true true false true false None true false ROk 2 (Some [CkMatch; CkMismatch]) None AValue ROk false)
  = Some (SExit 20).
Proof. reflexivity. Qed.

(* an unmatched --mustexist path ends with status 1; without --mustexist the
   same failure is ignored and the run reaches the write *)
Example C17_ex_unmatched :
  set_pre (mkset true true false true false None true true RCaught 0 None None AValue ROk false) = Some (SExit 1)
  /\ set_pre (mkset true true false true false None true false RCaught 0 None None AValue ROk false) = None.
Proof. split; reflexivity. Qed.

(* a merge conflict in the third file: exit_state 13, nothing written *)
Example C17_ex_merge_conflict :
  merge_pre (mkmerge true true ToOverwrite true false
               [mkmfile true 1 (MCode 0); mkmfile true 1 (MCode 0); mkmfile true 1 (MCode 13)]
               None true (MCode 0) ROk 1) = Some (SExit 13).
Proof. reflexivity. Qed.

(* the successful yaml-set --backup over a stale .bak: the eight calls, and the end state *)
Example C17_ex_set_backup_trace :
  save (CSet true false) None (init_fs true true false)
  = mkout (mkfs (Some New) (Some Orig) None None)
          [Exists Bak; Remove Bak; Copy2 Target Bak; MkTmp; OpenRead Target; CopyObj Target Tmp;
           OpenTrunc Target; Dump Target true]
          SOk.
Proof. reflexivity. Qed.

(* the dump fails half way with an OSError: the target is damaged, the backup intact *)
Example C17_ex_fault_mid_dump :
  o_fs (save (CSet true false) (Some (mkfault 7 Mid FOs)) (init_fs true true false))
  = mkfs (Some Partial) (Some Orig) None None.
Proof. reflexivity. Qed.

(* the dump fails with an AssertionError: restore path, backup removed, status 3 *)
Example C17_ex_assert_restore :
  save (CSet true false) (Some (mkfault 7 Mid FAssert)) (init_fs true true false)
  = mkout (mkfs (Some Orig) None None None)
          [Exists Bak; Remove Bak; Copy2 Target Bak; MkTmp; OpenRead Target; CopyObj Target Tmp;
           OpenTrunc Target; Dump Target true; OpenTrunc Target; CopyObj Tmp Target; Remove Bak]
          (SExit 3).
Proof. reflexivity. Qed.

(* the copy itself is interrupted after the stale .bak was removed: the target is intact *)
Example C17_ex_fault_mid_copy :
  o_fs (save (CMerge ToOverwrite true true 3) (Some (mkfault 3 Mid FOs)) (init_fs true true false))
  = mkfs (Some Orig) (Some Partial) None None.
Proof. reflexivity. Qed.

(* an existing --output file: refused after the exists() call *)
Example C17_ex_output_exists :
  save (CMerge ToOutput false false 1) None (init_fs false false true)
  = mkout (init_fs false false true) [Exists Output] (SExit 1).
Proof. reflexivity. Qed.

(* the structural condition is met by a real plan *)
Example C17_ex_backup_first :
  backup_first (p_main (plan_of (CRotate true true) (init_fs true true false))).
Proof.
  exists [Exists Bak; Remove Bak], [OpenTrunc Target; Dump Target true]; repeat split.
Qed.
