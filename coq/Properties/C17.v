(* C17 -- A failing or interrupted tool run never loses the user's file.
   Statements only; the models are Model/SaveProtocol.v (module Sv) and
   Model/SaveCli.v (module Sc), the declarative notions Spec/C17Spec.v, the
   proofs Proofs/SaveProofs.v.

   The theorems speak about EVERY option set, every start state (stale .bak or
   not, whatever its content), every number of output documents, every fault
   position k (a natural number, not a bounded index), both fault modes (the
   call raises before / in the middle of its effect) and all four exception
   classes (OSError, AssertionError, another Exception, a BaseException such as
   KeyboardInterrupt), and about a serialiser that accepts or refuses the
   document by itself.
   The model is the code as repaired by the `fix:` commits of this property:
   yaml-merge took its backup before prepare_for_dump; yaml-set restored the file
   only after an AssertionError of the dumper; yaml-set's JSON save and
   yaml-merge's writer truncated the file before serialising. *)
From Coq Require Import List Bool Arith.
From YP Require Import SaveProtocol SaveCli C17Spec SaveProofs SaveProofs2.
Import ListNotations.
Import Sv Sc.

(* ---- pre-write failures --------------------------------------------------------- *)

(* yaml-set: whenever a step before the write ends the run (unmatched required
   path, failed --check, impossible change, unreadable input, bad arguments...),
   no I/O call is made at all -- even with a fault armed -- so the file system
   is the one the run started in and the status is the step's. *)
Theorem C17_prewrite_unchanged_set :
  forall (i : set_in) (f : option fault) (s : fs) (st : status),
    set_pre i = Some st -> set_main i f s = mkout s [] st.
Proof. exact set_prewrite. Qed.
Print Assumptions C17_prewrite_unchanged_set.

(* ... and these are the ONLY ways yaml-set ends with a non-zero status when no
   I/O call fails: a failing run touched nothing. *)
Theorem C17_set_failure_is_prewrite :
  forall (i : set_in) (s : fs),
    s_dump_ok i = true -> get s Target <> None ->
    failed (o_status (set_main i None s)) ->
    untouched s (o_fs (set_main i None s)) /\ o_trace (set_main i None s) = [].
Proof. exact set_failure_is_prewrite. Qed.
Print Assumptions C17_set_failure_is_prewrite.

(* ... and with a serialiser that may refuse the changed document (the new
   input s_dump_ok): EVERY non-zero end of yaml-set in which no I/O call fails
   leaves the target file and the --output name as they were, and no backup file
   has appeared (a run that got as far as the restore path removes the backup it
   made, and a stale one with it). *)
Theorem C17_set_failure_keeps_target :
  forall (i : set_in) (s : fs),
    get s Target = Some Orig -> start_ok s ->
    failed (o_status (set_main i None s)) ->
    target_kept_nothing_appeared s (o_fs (set_main i None s)).
Proof. exact set_failure_keeps_target. Qed.
Print Assumptions C17_set_failure_keeps_target.

(* a document JSON cannot represent is found (json.dumps) before the backup is
   taken and before the file is opened: nothing is touched, whatever faults are
   armed *)
Theorem C17_set_unserialisable_json_untouched :
  forall (i : set_in) (f f2 : option fault) (s : fs),
    s_dump_ok i = false -> s_json i = true -> start_ok s ->
    let o := set_main2 i f f2 s in
    untouched s (o_fs o) /\ failed (o_status o) /\ forallb only_looks (o_trace o) = true.
Proof. exact set_unserialisable_json_untouched. Qed.
Print Assumptions C17_set_unserialisable_json_untouched.

(* yaml-merge: a load failure, a merge or anchor conflict (any non-zero
   exit_state), or a result that cannot be prepared for dumping leaves the file
   system untouched; the only calls made are the exists() of validateargs. *)
Theorem C17_prewrite_unchanged_merge :
  forall (i : merge_in) (f : option fault) (s : fs) (st : status),
    start_ok s -> merge_pre i = Some st ->
    let o := merge_main i f s in
    untouched s (o_fs o) /\ failed (o_status o) /\ forallb only_looks (o_trace o) = true.
Proof. exact merge_prewrite. Qed.
Print Assumptions C17_prewrite_unchanged_merge.

Theorem C17_merge_failure_is_prewrite :
  forall (i : merge_in) (s : fs),
    start_ok s ->
    (m_mode i = ToOverwrite -> m_backup i = true -> get s Target <> None) ->
    failed (o_status (merge_main i None s)) ->
    untouched s (o_fs (merge_main i None s)) /\ forallb only_looks (o_trace (merge_main i None s)) = true.
Proof. exact merge_failure_is_prewrite. Qed.
Print Assumptions C17_merge_failure_is_prewrite.

(* a merged result the serialiser refuses (ruamel's dumper raising on it) is
   found while rendering into memory: before the backup, before the output file
   is opened *)
Theorem C17_merge_unserialisable_untouched :
  forall (i : merge_in) (s : fs),
    start_ok s -> m_dump_ok i = false ->
    let o := merge_main i None s in
    untouched s (o_fs o) /\ failed (o_status o) /\ forallb only_looks (o_trace o) = true.
Proof. exact merge_unserialisable_untouched. Qed.
Print Assumptions C17_merge_unserialisable_untouched.

(* The side condition of the last theorem but one is needed: --overwrite NEW --backup
   with no NEW to copy fails inside the save (copy2 raises) after a stale
   NEW.bak was removed.  Nothing of the user's target is lost (there is none). *)
Theorem C17_merge_backup_of_nothing_refuted :
  exists (i : merge_in) (s : fs),
    start_ok s /\ failed (o_status (merge_main i None s)) /\ o_fs (merge_main i None s) <> s.
Proof. exact merge_backup_of_nothing_witness. Qed.

(* ---- --output never replaces an existing file -------------------------------------------- *)

Theorem C17_output_never_replaces :
  forall (i : merge_in) (f : option fault) (s : fs),
    m_mode i = ToOutput -> get s Output <> None ->
    let o := merge_main i f s in
    o_fs o = s /\ failed (o_status o) /\ forallb only_looks (o_trace o) = true.
Proof. exact output_never_replaces. Qed.
Print Assumptions C17_output_never_replaces.

Theorem C17_output_kept_by_save :
  forall (backup json : bool) (n : nat) (ok : bool) (f : option fault) (s : fs),
    get s Output <> None -> output_kept s (o_fs (save (CMerge ToOutput backup json n ok) f s)).
Proof. exact output_kept_by_save. Qed.
Print Assumptions C17_output_kept_by_save.

(* ---- with --backup -------------------------------------------------------------------------- *)

(* a run in which no call fails ends with status 0, the .bak holding the
   pre-image and the target the complete new document *)
Theorem C17_bak_is_preimage :
  forall (c : cfg) (s : fs),
    cfg_backup c = true -> cfg_dump_ok c = true -> get s Target = Some Orig ->
    o_status (save c None s) = SOk /\ bak_is_preimage (o_fs (save c None s)).
Proof. exact bak_is_preimage_holds. Qed.
Print Assumptions C17_bak_is_preimage.

(* if any single I/O call of the save fails -- at any position, before or in
   the middle of its effect, with an exception of any class; or the serialiser
   refuses the document by itself, or both -- the target or its backup still
   holds the complete original bytes *)
Theorem C17_one_copy_survives :
  forall (c : cfg) (f : option fault) (s : fs),
    cfg_backup c = true -> get s Target = Some Orig ->
    one_intact_copy (o_fs (save c f s)).
Proof. exact one_copy_survives. Qed.
Print Assumptions C17_one_copy_survives.

(* ... and even when a call of yaml-set's restore path fails after the dump
   failed (two failures) *)
Theorem C17_one_copy_survives_two_faults :
  forall (c : cfg) (f f2 : option fault) (s : fs),
    cfg_backup c = true -> get s Target = Some Orig ->
    one_intact_copy (o_fs (save2 c f f2 s)).
Proof. exact one_copy_survives2. Qed.
Print Assumptions C17_one_copy_survives_two_faults.

(* the general lemma: ANY sequence of calls in which copy2(target, bak)
   completes before the first call that can damage the target, and no later call
   writes to the backup, keeps one intact copy under any single fault *)
Theorem C17_backup_first_general :
  forall (l : list op) (f : option fault) (k : nat) (s : fs),
    backup_first l -> get s Target = Some Orig ->
    one_intact_copy (r_fs (run_until_fault f k l s)).
Proof. exact backup_first_safe. Qed.
Print Assumptions C17_backup_first_general.

(* ---- yaml-set's restore path (with or without --backup) ---------------------------------- *)

(* the dump step of the YAML save fails -- the dumper raises by itself, or an
   injected failure of either mode and of ANY Exception class hits that call --
   and no call of the restore path fails: the target holds the complete original
   bytes again, for every start state; the run ends non-zero; the backup made a
   moment ago is removed; nothing else is touched *)
Theorem C17_dump_failure_restores :
  forall (backup ok : bool) (f : option fault) (s : fs),
    get s Target = Some Orig -> dump_step_fails backup ok f s ->
    let o := save (CSet backup false ok) f s in
    get (o_fs o) Target = Some Orig /\ failed (o_status o)
    /\ get (o_fs o) Output = get s Output
    /\ get (o_fs o) Bak = (if backup then None else get s Bak)
    /\ get (o_fs o) Tmp = None.
Proof. exact dump_failure_restores. Qed.
Print Assumptions C17_dump_failure_restores.

(* its status: 3 (log.critical) after an AssertionError, 1 (re-raise) otherwise *)
Theorem C17_dump_failure_status :
  forall (backup ok : bool) (f : option fault) (s : fs),
    get s Target = Some Orig -> dump_step_fails backup ok f s ->
    o_status (save (CSet backup false ok) f s) =
      match f with
      | Some ft => match f_kind ft with FAssert => SExit 3 | _ => SCrash end
      | None => SCrash
      end.
Proof. exact dump_failure_status. Qed.
Print Assumptions C17_dump_failure_status.

(* the hypothesis "backup on" of C17_one_copy_survives matters (the property
   text promises nothing without --backup).  Since the repair a failed dump alone
   no longer loses the file; ONE failing call still does when it is the
   truncating open itself, which stands outside the try block ... *)
Theorem C17_no_backup_no_promise :
  exists (c : cfg) (f : fault) (s : fs),
    cfg_backup c = false /\ get s Target = Some Orig /\ ~ one_intact_copy (o_fs (save c (Some f) s)).
Proof. exact no_backup_no_promise_witness. Qed.

(* ... and these are the only single failures of yaml-set's YAML save that lose
   the file without --backup: the truncating open raising after it truncated, or
   the dump interrupted by something that is not an Exception *)
Theorem C17_no_backup_single_fault_losses :
  forall (f : option fault) (s : fs),
    get s Target = Some Orig ->
    failed (o_status (save (CSet false false true) f s)) ->
    ~ one_intact_copy (o_fs (save (CSet false false true) f s)) ->
    exists ft, f = Some ft /\
      ((at_k ft = 3 /\ f_mode ft = Mid) \/ (at_k ft = 4 /\ f_kind ft = FInterrupt)).
Proof. exact no_backup_single_fault_losses. Qed.
Print Assumptions C17_no_backup_single_fault_losses.

(* the old witness restated: after a failed dump the loss needs a SECOND failure,
   inside the restore path (the copy back interrupted half way) -- whether the
   dump failure was injected or the dumper's own *)
Theorem C17_no_backup_second_fault_loses :
  exists (f f2 : fault) (s : fs),
    get s Target = Some Orig /\ dump_step_fails false true (Some f) s
    /\ ~ one_intact_copy (o_fs (save2 (CSet false false true) (Some f) (Some f2) s))
    /\ ~ one_intact_copy (o_fs (save (CSet false false false) (Some f2) s)).
Proof. exact no_backup_second_fault_witness. Qed.

(* ---- the same facts over the whole finite part of the domain, by computation ----------------- *)
(* every yaml-set / rotate / merge option set x serialiser verdict x stale x every
   position up to past the end x both modes x four classes (x the same for a
   second fault of yaml-set) -- a cross-check of the general proof *)
Theorem C17_finite_domain_check : finite_domain_check = true.
Proof. exact finite_domain_check_true. Qed.

(* ---- non-vacuity -------------------------------------------------------------------------------- *)

(* a failed --check on a two-node match ends with status 20 before the write *)
Example C17_ex_check_fails :
  set_pre (mkset true true false true false None true false ROk 2 (Some [CkMatch; CkMismatch]) None AValue ROk false true)
  = Some (SExit 20).
Proof. reflexivity. Qed.

(* an unmatched --mustexist path ends with status 1; without --mustexist the
   same failure is ignored and the run reaches the write *)
Example C17_ex_unmatched :
  set_pre (mkset true true false true false None true true RCaught 0 None None AValue ROk false true) = Some (SExit 1)
  /\ set_pre (mkset true true false true false None true false RCaught 0 None None AValue ROk false true) = None.
Proof. split; reflexivity. Qed.

(* a merge conflict in the third file: exit_state 13, nothing written *)
Example C17_ex_merge_conflict :
  merge_pre (mkmerge true true ToOverwrite true false
               [mkmfile true 1 (MCode 0); mkmfile true 1 (MCode 0); mkmfile true 1 (MCode 13)]
               None true (MCode 0) ROk 1 true) = Some (SExit 13).
Proof. reflexivity. Qed.

(* the successful yaml-set --backup over a stale .bak: the eight calls, and the end state *)
Example C17_ex_set_backup_trace :
  save (CSet true false true) None (init_fs true true false)
  = mkout (mkfs (Some New) (Some Orig) None None)
          [Exists Bak; Remove Bak; Copy2 Target Bak; MkTmp; OpenRead Target; CopyObj Target Tmp;
           OpenTrunc Target; Dump Target true]
          SOk.
Proof. reflexivity. Qed.

(* the dump is interrupted half way (KeyboardInterrupt): the target is damaged, the backup intact *)
Example C17_ex_fault_mid_dump :
  o_fs (save (CSet true false true) (Some (mkfault 7 Mid FInterrupt)) (init_fs true true false))
  = mkfs (Some Partial) (Some Orig) None None.
Proof. reflexivity. Qed.

(* the dump fails half way with an OSError: since the repair the restore path, status 1 *)
Example C17_ex_oserror_restore :
  save (CSet true false true) (Some (mkfault 7 Mid FOs)) (init_fs true true false)
  = mkout (mkfs (Some Orig) None None None)
          [Exists Bak; Remove Bak; Copy2 Target Bak; MkTmp; OpenRead Target; CopyObj Target Tmp;
           OpenTrunc Target; Dump Target true; OpenTrunc Target; CopyObj Tmp Target; Remove Bak]
          SCrash.
Proof. reflexivity. Qed.

(* the dump fails with an AssertionError: restore path, backup removed, status 3 *)
Example C17_ex_assert_restore :
  save (CSet true false true) (Some (mkfault 7 Mid FAssert)) (init_fs true true false)
  = mkout (mkfs (Some Orig) None None None)
          [Exists Bak; Remove Bak; Copy2 Target Bak; MkTmp; OpenRead Target; CopyObj Target Tmp;
           OpenTrunc Target; Dump Target true; OpenTrunc Target; CopyObj Tmp Target; Remove Bak]
          (SExit 3).
Proof. reflexivity. Qed.

(* the copy itself is interrupted after the stale .bak was removed: the target is intact *)
Example C17_ex_fault_mid_copy :
  o_fs (save (CMerge ToOverwrite true true 3 true) (Some (mkfault 6 Mid FOs)) (init_fs true true false))
  = mkfs (Some Orig) (Some Partial) None None.
Proof. reflexivity. Qed.

(* an existing --output file: refused after the exists() call *)
Example C17_ex_output_exists :
  save (CMerge ToOutput false false 1 true) None (init_fs false false true)
  = mkout (init_fs false false true) [Exists Output] (SExit 1).
Proof. reflexivity. Qed.

(* the structural condition is met by a real plan *)
Example C17_ex_backup_first :
  backup_first (p_main (plan_of (CRotate true true) (init_fs true true false))).
Proof.
  exists [Exists Bak; Remove Bak], [OpenTrunc Target; Dump Target true]; repeat split.
Qed.

(* the dump fails with a TypeError half way, no --backup: the hypotheses of
   C17_dump_failure_restores hold; the 8 calls; the file is back; status 1 *)
Example C17_ex_dump_typeerror_restored :
  dump_step_fails false true (Some (mkfault 4 Mid FOther)) (init_fs true true false)
  /\ save (CSet false false true) (Some (mkfault 4 Mid FOther)) (init_fs true true false)
     = mkout (mkfs (Some Orig) (Some Stale) None None)
             [MkTmp; OpenRead Target; CopyObj Target Tmp; OpenTrunc Target; Dump Target true;
              OpenTrunc Target; CopyObj Tmp Target]
             SCrash.
Proof.
  split; [right; eexists; split; [reflexivity|]; split; [reflexivity | discriminate] | reflexivity].
Qed.

(* the dumper itself refuses the document (yaml-set -g a -T '!x' on `a: 1`), with
   --backup over a stale .bak: restored, the backup removed, status 1 *)
Example C17_ex_dumper_refuses_restored :
  dump_step_fails true false None (init_fs true true false)
  /\ save (CSet true false false) None (init_fs true true false)
     = mkout (mkfs (Some Orig) None None None)
             [Exists Bak; Remove Bak; Copy2 Target Bak; MkTmp; OpenRead Target; CopyObj Target Tmp;
              OpenTrunc Target; Dump Target false; OpenTrunc Target; CopyObj Tmp Target; Remove Bak]
             SCrash.
Proof. split; [left; split; reflexivity | reflexivity]. Qed.

(* a KeyboardInterrupt inside the dump is no Exception: no restore *)
Example C17_ex_dump_interrupted :
  save (CSet false false true) (Some (mkfault 4 Mid FInterrupt)) (init_fs true false false)
  = mkout (mkfs (Some Partial) None None None)
          [MkTmp; OpenRead Target; CopyObj Target Tmp; OpenTrunc Target; Dump Target true] SCrash.
Proof. reflexivity. Qed.

(* the restore path's own copy fails after an AssertionError of the dump: not
   status 3 but the traceback's 1; with --backup the .bak still holds the original *)
Example C17_ex_restore_path_fails :
  save2 (CSet true false true) (Some (mkfault 6 Mid FAssert)) (Some (mkfault 8 Mid FOs)) (init_fs true false false)
  = mkout (mkfs (Some Partial) (Some Orig) None None)
          [Exists Bak; Copy2 Target Bak; MkTmp; OpenRead Target; CopyObj Target Tmp; OpenTrunc Target;
           Dump Target true; OpenTrunc Target; CopyObj Tmp Target]
          SCrash.
Proof. reflexivity. Qed.

(* yaml-set on a JSON target whose document holds a complex key: json.dumps
   raises before anything is touched (hypotheses of C17_set_unserialisable_json_untouched) *)
Example C17_ex_set_json_unserialisable :
  set_main (mkset true true false true true None true false ROk 1 None None AValue ROk false false) None
           (init_fs true true false)
  = mkout (init_fs true true false) [Render false] SCrash.
Proof. reflexivity. Qed.

(* yaml-merge --overwrite --backup of a result the dumper refuses: only exists()
   and the rendering happened (hypotheses of C17_merge_unserialisable_untouched) *)
Example C17_ex_merge_unserialisable :
  merge_main (mkmerge true true ToOverwrite true false [mkmfile true 1 (MCode 0); mkmfile true 1 (MCode 0)]
                      None true (MCode 0) ROk 1 false) None (init_fs true true false)
  = mkout (init_fs true true false) [Exists Target; Render false] SCrash.
Proof. reflexivity. Qed.

(* the successful yaml-merge --overwrite --backup of two JSON documents: rendered
   first, then the backup, then open + write *)
Example C17_ex_merge_trace :
  save (CMerge ToOverwrite true true 2 true) None (init_fs true false false)
  = mkout (mkfs (Some New) (Some Orig) None None)
          [Exists Target; Render true; Render true; Exists Bak; Copy2 Target Bak; OpenTrunc Target; WriteText Target]
          SOk.
Proof. reflexivity. Qed.

(* ======================================================================================== *)
(* eyaml-rotate-keys dumps straight into the truncated file (`with open(yaml_file, 'w') as
   yaml_dump: yaml.dump(yaml_data, yaml_dump)`, no handler, no restore): what a failing dump does. *)

(* WITH --backup: the dump call fails (either mode, any class) - the target stays truncated /
   half written, nothing restores it (unlike yaml-set), the .bak taken a moment ago holds the
   complete original bytes, the run ends with a traceback.  "target or backup": the backup. *)
Theorem C17_rotate_dump_failure_with_backup :
  forall (ft : fault) (s : fs),
    get s Target = Some Orig -> at_k ft = length (backup_ops s) + 1 ->
    let o := save (CRotate true true) (Some ft) s in
    get (o_fs o) Target = Some Partial /\ get (o_fs o) Bak = Some Orig /\ o_status o = SCrash
    /\ get (o_fs o) Output = get s Output.
Proof. exact rotate_dump_fault_with_backup. Qed.
Print Assumptions C17_rotate_dump_failure_with_backup.

(* WITHOUT --backup the same failure ALWAYS loses the file (the property text promises nothing
   here: "when a backup was requested") ... *)
Theorem C17_rotate_dump_failure_without_backup :
  forall (m : fmode) (kd : fkind) (s : fs),
    get s Target = Some Orig ->
    let o := save (CRotate false true) (Some (mkfault 1 m kd)) s in
    get (o_fs o) Target = Some Partial /\ get (o_fs o) Bak = get s Bak /\ o_status o = SCrash
    /\ o_trace o = [OpenTrunc Target; Dump Target true].
Proof. exact rotate_dump_fault_without_backup. Qed.
Print Assumptions C17_rotate_dump_failure_without_backup.

Theorem C17_rotate_no_backup_refuted :
  exists (f : fault) (s : fs),
    get s Target = Some Orig /\ ~ one_intact_copy (o_fs (save (CRotate false true) (Some f) s)).
Proof.
  exists (mkfault 1 Before FOs), (init_fs true true false). split; [reflexivity|].
  intros [H|H]; vm_compute in H; discriminate H.
Qed.

(* ... and these are exactly the single failures that lose a file rotated without --backup: the
   truncating open raising after it truncated, or the dump failing in any way *)
Theorem C17_rotate_no_backup_losses :
  forall (f : option fault) (s : fs),
    get s Target = Some Orig -> get s Bak <> Some Orig ->
    (failed (o_status (save (CRotate false true) f s)) /\ ~ one_intact_copy (o_fs (save (CRotate false true) f s))
     <-> exists ft, f = Some ft /\ ((at_k ft = 0 /\ f_mode ft = Mid) \/ at_k ft = 1)).
Proof. exact rotate_no_backup_losses. Qed.
Print Assumptions C17_rotate_no_backup_losses.

(* ---- close() as a call of its own; two failures outside yaml-set's restore path ------------- *)

(* The analogue of C17_one_copy_survives_two_faults for the tools that write through a `with`
   block and have no handler - yaml-merge --overwrite --backup, eyaml-rotate-keys --backup and
   yaml-set's JSON save: ANY failing call (position, mode, class; or the serialiser's refusal)
   AND THEN the implicit close() of the output handle failing too (before / half way through its
   flush), or the close() failing on its own after every call completed - the target or its .bak
   still holds the complete original bytes.  (Model: Sv.close_out / save_close.) *)
Theorem C17_one_copy_survives_close_fault :
  forall (c : cfg) (f : option fault) (m : option fmode) (s : fs),
    cfg_backup c = true -> (forall b ok, c <> CSet b false ok) -> get s Target = Some Orig ->
    one_intact_copy (o_fs (save_close c f m s)).
Proof. exact close_one_copy_survives. Qed.
Print Assumptions C17_one_copy_survives_close_fault.

Theorem C17_merge_one_copy_survives_two_faults :
  forall (json : bool) (ndocs : nat) (ok : bool) (f : option fault) (m : option fmode) (s : fs),
    get s Target = Some Orig ->
    one_intact_copy (o_fs (save_close (CMerge ToOverwrite true json ndocs ok) f m s)).
Proof.
  intros json n ok f m s H. apply close_one_copy_survives; [reflexivity | discriminate | exact H].
Qed.
Print Assumptions C17_merge_one_copy_survives_two_faults.

Theorem C17_rotate_one_copy_survives_two_faults :
  forall (f : option fault) (m : option fmode) (s : fs),
    get s Target = Some Orig ->
    one_intact_copy (o_fs (save_close (CRotate true true) f m s)).
Proof.
  intros f m s H. apply close_one_copy_survives; [reflexivity | discriminate | exact H].
Qed.
Print Assumptions C17_rotate_one_copy_survives_two_faults.

(* a failing close() ends the run with a traceback (status 1) even when every call before it completed *)
Theorem C17_close_failure_status :
  forall (c : cfg) (m : option fmode) (s : fs),
    (forall b ok, c <> CSet b false ok) -> closing_handle (o_trace (save c None s)) <> None -> m <> None ->
    o_status (save_close c None m s) = SCrash.
Proof. exact close_failure_status. Qed.
Print Assumptions C17_close_failure_status.

(* the --backup hypothesis is needed here too: yaml-merge --overwrite without --backup, every call
   completes, close() fails half way through its flush *)
Theorem C17_close_no_backup_refuted :
  exists (c : cfg) (s : fs), cfg_backup c = false /\ get s Target = Some Orig /\
    o_status (save c None s) = SOk /\
    ~ one_intact_copy (o_fs (save_close c None (Some Mid) s)).
Proof. exact close_no_backup_witness. Qed.

(* non-vacuity: the write of yaml-merge --overwrite --backup fails half way (call 6 of 7) and then
   the close() fails as well: the .bak holds the original; the rotation's dump fails with --backup *)
Example C17_ex_merge_write_then_close_fail :
  save_close (CMerge ToOverwrite true false 1 true) (Some (mkfault 6 Mid FOs)) (Some Mid) (init_fs true true false)
  = mkout (mkfs (Some Partial) (Some Orig) None None)
          [Exists Target; Render true; Exists Bak; Remove Bak; Copy2 Target Bak; OpenTrunc Target; WriteText Target]
          SCrash.
Proof. reflexivity. Qed.

(* every call completes, then close() fails half way through its flush: status 1, the .bak is the pre-image *)
Example C17_ex_merge_close_fails_alone :
  save (CMerge ToOverwrite true false 1 true) None (init_fs true true false)
  = mkout (mkfs (Some New) (Some Orig) None None)
          [Exists Target; Render true; Exists Bak; Remove Bak; Copy2 Target Bak; OpenTrunc Target; WriteText Target] SOk
  /\ save_close (CMerge ToOverwrite true false 1 true) None (Some Mid) (init_fs true true false)
  = mkout (mkfs (Some Partial) (Some Orig) None None)
          [Exists Target; Render true; Exists Bak; Remove Bak; Copy2 Target Bak; OpenTrunc Target; WriteText Target] SCrash.
Proof. split; reflexivity. Qed.

(* the backup copy itself is interrupted: no handle is open, close() is not called: the target is intact *)
Example C17_ex_rotate_copy_fails_no_close :
  save_close (CRotate true true) (Some (mkfault 1 Mid FOs)) (Some Mid) (init_fs true false false)
  = mkout (mkfs (Some Orig) (Some Partial) None None) [Exists Bak; Copy2 Target Bak] SCrash.
Proof. reflexivity. Qed.

(* the hypotheses of C17_rotate_dump_failure_with_backup are met: over a stale .bak the dump is call 4 *)
Example C17_ex_rotate_dump_fails_backup :
  length (backup_ops (init_fs true true false)) + 1 = 4
  /\ save (CRotate true true) (Some (mkfault 4 Mid FOther)) (init_fs true true false)
     = mkout (mkfs (Some Partial) (Some Orig) None None)
             [Exists Bak; Remove Bak; Copy2 Target Bak; OpenTrunc Target; Dump Target true] SCrash.
Proof. split; reflexivity. Qed.

(* Every remaining statement of this file, so that none is left unaudited. *)
Print Assumptions C17_merge_backup_of_nothing_refuted.
Print Assumptions C17_no_backup_no_promise.
Print Assumptions C17_no_backup_second_fault_loses.
Print Assumptions C17_finite_domain_check.
Print Assumptions C17_rotate_no_backup_refuted.
Print Assumptions C17_close_no_backup_refuted.
