(* C10 -- Anchor conflicts in a merge follow the chosen policy and the result
   reloads.  Statements only; proofs in Proofs/AnchorsFuel.v, AnchorsProofs.v,
   AnchorsPolicy.v.  Model: Model/Anchors.v (anchors.py, Merger._calc_unique_anchor,
   _resolve_anchor_conflicts, merge_with's call order); spec: Spec/SpecC10.v.

   The statements speak about the two documents as _resolve_anchor_conflicts
   hands them to the merge proper (C05's subject).  Side conditions, both
   computable and exercised beyond by the correspondence run: no hash key
   carries an anchor (keys_plain); anchors sit on Scalars (scalar_anchors). *)
From Coq Require Import List Ascii String ZArith NArith Bool.
From YP Require Import Outcome PyStr PyVal Doc PathParser Searches MergeConfig Merge Anchors SpecC10
  AnchorsFuel AnchorsStr AnchorsProofs AnchorsPolicy AnchorsScan AnchorsUnique MergeLeaves
  MergeRootLeaves AnchorsGuards AnchorsFinal AnchorsNoCrash.
Import ListNotations.
Open Scope string_scope.
Open Scope list_scope.

(* 'stop' refuses the merge: whenever both documents define a name and the two
   anchors do not match, no run of the conflict resolution is accepted *)
Theorem C10_stop :
  forall cfg l r a la ra,
    anchor_merge_mode cfg = Ok KStop ->
    ad_get a (an_scan_anchors l []) = Some la -> ad_get a (an_scan_anchors r []) = Some ra ->
    anchors_match la ra = false ->
    forall res, resolve_conflicts cfg l r <> Ok res.
Proof. exact resolve_stop_refuses. Qed.
Print Assumptions C10_stop.

(* 'left': every place (definition and aliases) of a conflicting name in the
   right-hand document is the left-hand node -- same object, left value *)
Theorem C10_left :
  forall cfg l r l' r' a la ra,
    anchor_merge_mode cfg = Ok KLeft ->
    keys_plain l = true -> keys_plain r = true -> scalar_anchors l -> scalar_anchors r ->
    ad_get a (an_scan_anchors l []) = Some la -> ad_get a (an_scan_anchors r []) = Some ra ->
    anchors_match la ra = false ->
    resolve_conflicts cfg l r = Ok (l', r') ->
    all_read a la r'.
Proof. exact resolve_left_reads_left. Qed.
Print Assumptions C10_left.

(* 'right': every place of a name both documents define is, in the left-hand
   document, the right-hand node *)
Theorem C10_right :
  forall cfg l r l' r' a la ra,
    anchor_merge_mode cfg = Ok KRight ->
    keys_plain l = true -> scalar_anchors r ->
    ad_get a (an_scan_anchors l []) = Some la -> ad_get a (an_scan_anchors r []) = Some ra ->
    resolve_conflicts cfg l r = Ok (l', r') ->
    all_read a ra l'.
Proof. exact resolve_right_reads_right. Qed.
Print Assumptions C10_right.

(* same-name anchors with equal values are never a conflict: when every common
   name matches, the outcome is the same under all four policies, and the
   right-hand document is untouched *)
Theorem C10_equal_not_conflict :
  forall cfg cfg' l r m m',
    anchor_merge_mode cfg = Ok m -> anchor_merge_mode cfg' = Ok m' ->
    no_conflict l r ->
    resolve_conflicts cfg l r = resolve_conflicts cfg' l r.
Proof. exact resolve_no_conflict_any_policy. Qed.
Print Assumptions C10_equal_not_conflict.

Theorem C10_equal_right_untouched :
  forall cfg l r l' r', no_conflict l r -> resolve_conflicts cfg l r = Ok (l', r') -> r' = r.
Proof. exact resolve_no_conflict_right_untouched. Qed.

(* 'rename': the loop that picks the new name terminates within |known| + 1
   rounds (the fuel is sufficient: never OutOfFuel) and its answer is a name
   neither document uses *)
Theorem C10_rename_fuel :
  forall anchor known,
    exists s, calc_unique_anchor anchor known = Ok s /\ mem_string s known = false.
Proof. exact calc_unique_total. Qed.
Print Assumptions C10_rename_fuel.

Theorem C10_rename_new_name :
  forall anchor known s, In anchor known -> calc_unique_anchor anchor known = Ok s -> s <> anchor.
Proof. exact calc_unique_changes. Qed.

(* two different names that both had to be changed never receive the same new name *)
Theorem C10_rename_names_differ :
  forall a b known s, In a known -> In b known ->
    calc_unique_anchor a known = Ok s -> calc_unique_anchor b known = Ok s -> a = b.
Proof. exact calc_unique_inj. Qed.
Print Assumptions C10_rename_names_differ.

(* UNIQUE NAMES: whenever the conflict resolution accepts (under any of the four
   policies), the two documents it hands to the merge proper hold ONE anchored
   node per anchor name: no two distinct objects share a name -- and every
   alias has its definition, an alias being a further place of the same node.
   Inputs: documents of the property's quantifier (an_doc_ok, computable:
   containers whose anchors sit on Scalar hash values / array elements), each
   with one node per name (a loaded document may re-define a name; such inputs
   are outside the statement), the right-hand tree a faithful picture of its
   heap (rename_anchor mutates OBJECTS). *)
Theorem C10_unique_names :
  forall cfg l r l' r',
    an_doc_ok l = true -> an_doc_ok r = true ->
    one_node_per_name l -> one_node_per_name r -> an_heap_ok r ->
    resolve_conflicts cfg l r = Ok (l', r') ->
    an_pair_unique l' r'.
Proof. exact resolve_unique_names. Qed.
Print Assumptions C10_unique_names.

(* RENAME keeps both values: for every name a whose two anchors conflict, the
   left document reads its own node at every place of a; on the right no place
   carries a any more, and EXACTLY the places that carried it (the definition
   and every alias, at any depth) carry the new name nn -- the same objects with
   the same values (an_with_name changes the name only) -- where nn is the name
   _calc_unique_anchor picks, used by neither input document, and absent from
   the left result. *)
Theorem C10_rename :
  forall cfg l r l' r' a la ra,
    anchor_merge_mode cfg = Ok KRename ->
    an_doc_ok l = true -> an_doc_ok r = true ->
    one_node_per_name l -> one_node_per_name r -> an_heap_ok r ->
    ad_get a (an_scan_anchors l []) = Some la -> ad_get a (an_scan_anchors r []) = Some ra ->
    anchors_match la ra = false ->
    resolve_conflicts cfg l r = Ok (l', r') ->
    all_read a la l' /\
    exists nn, calc_unique_anchor a (known_names (an_scan_anchors l []) (an_scan_anchors r [])) = Ok nn /\
               ~ In nn (known_names (an_scan_anchors l []) (an_scan_anchors r [])) /\
               uses a r' = [] /\
               uses nn r' = map (an_with_name nn) (uses a r) /\
               uses nn l' = [].
Proof. exact resolve_rename. Qed.
Print Assumptions C10_rename.

(* THE LIFT THROUGH THE MERGE PROPER (C05's recursive core, Merge.merge_rec: everything
   below the merge target).  The merge creates no anchored Scalar and changes none: every
   Scalar of the merged document (key, value, element, set member) is a Scalar of one of the
   two resolved documents -- the same object with its anchor, tag and value -- or the
   unnamed null _insert_set creates.  For all documents, policies and rule tables. *)
Theorem C10_merge_keeps_scalars :
  forall lit cfg r nc l m,
    merge_rec lit cfg r nc l = Ok m ->
    forall p, In p (an_all m) -> is_leaf p = true -> In p (an_all l) \/ In p (an_all r) \/ p = mg_null.
Proof. exact merge_keeps_scalars. Qed.
Print Assumptions C10_merge_keeps_scalars.

(* left / right / rename: what every Scalar named a reads in the two resolved documents
   (C10_left / C10_right / C10_rename), every alias of that name reads in the merged one *)
Theorem C10_lift_reads :
  forall lit cfg r nc l m a x,
    (forall p, In p (an_all l) -> is_leaf p = true -> c10_name p = Some a -> p = x) ->
    (forall p, In p (an_all r) -> is_leaf p = true -> c10_name p = Some a -> p = x) ->
    merge_rec lit cfg r nc l = Ok m ->
    forall p, In p (an_all m) -> is_leaf p = true -> c10_name p = Some a -> p = x.
Proof. exact merge_lift_reads. Qed.
Print Assumptions C10_lift_reads.

(* unique names: one anchored Scalar per name in the pair => one in the merged document *)
Theorem C10_lift_unique :
  forall lit cfg r nc l m,
    (forall n k a, In n (an_all l ++ an_all r) -> In k (an_all l ++ an_all r) ->
       is_leaf n = true -> is_leaf k = true -> c10_name n = Some a -> c10_name k = Some a -> n = k) ->
    merge_rec lit cfg r nc l = Ok m ->
    forall n k a, In n (an_all m) -> In k (an_all m) -> is_leaf n = true -> is_leaf k = true ->
      c10_name n = Some a -> c10_name k = Some a -> n = k.
Proof. exact merge_lift_unique. Qed.
Print Assumptions C10_lift_unique.

(* the replacement policies on documents with plain keys are the declarative
   substitution of SpecC10 *)
Theorem C10_replace_is_subst :
  forall repl b d, an_name repl = Some b -> keys_plain d = true ->
    replace_anchor repl d = Ok (subst_named b repl d).
Proof. exact replace_anchor_subst. Qed.

(* ---------- Examples (non-vacuity; each by computation) ---------- *)
Definition lf (o : N) (a : option string) (v : pyval) : node :=
  NLeaf (mkinfo o a (match a with Some _ => true | None => false end) None) v.
Definition ky (s : string) : node := NLeaf (mkinfo 1%N None false None) (PStr s).
Definition ex_cfg (p : string) : mconfig :=
  mkconfig false [] [] None None None None (Some p) None None None None None.

(* {a: &x 1, b: *x}   and   {c: &x 2, d: [*x], e: &y 7} *)
Definition ex_lx : node := lf 10 (Some "x") (PInt 1).
Definition ex_rx : node := lf 20 (Some "x") (PInt 2).
Definition ex_ry : node := lf 21 (Some "y") (PInt 7).
Definition ex_l : node := NMap (mkinfo 2 None true None) [(ky "a", ex_lx); (ky "b", ex_lx)].
Definition ex_r : node :=
  NMap (mkinfo 3 None true None)
       [(ky "c", ex_rx); (ky "d", NSeq (mkinfo 4 None true None) [ex_rx]); (ky "e", ex_ry)].

Example C10_example_hypotheses :
  keys_plain ex_l = true /\ keys_plain ex_r = true /\
  ad_get "x" (an_scan_anchors ex_l []) = Some ex_lx /\ ad_get "x" (an_scan_anchors ex_r []) = Some ex_rx /\
  anchors_match ex_lx ex_rx = false.
Proof. repeat split; reflexivity. Qed.

Example C10_example_scalar_anchors : scalar_anchors ex_l /\ scalar_anchors ex_r.
Proof.
  split; intros k n; vm_compute an_scan_anchors; simpl.
  - destruct (String.eqb k "x"); intros H; inversion H; reflexivity.
  - destruct (String.eqb k "x"); [intros H; inversion H; reflexivity|].
    destruct (String.eqb k "y"); intros H; inversion H; reflexivity.
Qed.

Example C10_stop_example : resolve_conflicts (ex_cfg "stop") ex_l ex_r = Raise MergeExc.
Proof. vm_compute. reflexivity. Qed.

Example C10_left_example :
  resolve_conflicts (ex_cfg "left") ex_l ex_r =
  Ok (ex_l, NMap (mkinfo 3 None true None)
                 [(ky "c", ex_lx); (ky "d", NSeq (mkinfo 4 None true None) [ex_lx]); (ky "e", ex_ry)]).
Proof. vm_compute. reflexivity. Qed.

Example C10_right_example :
  resolve_conflicts (ex_cfg "right") ex_l ex_r =
  Ok (NMap (mkinfo 2 None true None) [(ky "a", ex_rx); (ky "b", ex_rx)], ex_r).
Proof. vm_compute. reflexivity. Qed.

(* rename: the definition and the alias inside the nested array carry the new
   name x_1 (one object, oid 20); &y and the left-hand document are untouched *)
Example C10_rename_example :
  resolve_conflicts (ex_cfg "rename") ex_l ex_r =
  Ok (ex_l, NMap (mkinfo 3 None true None)
                 [(ky "c", lf 20 (Some "x_1") (PInt 2));
                  (ky "d", NSeq (mkinfo 4 None true None) [lf 20 (Some "x_1") (PInt 2)]);
                  (ky "e", ex_ry)]).
Proof. vm_compute. reflexivity. Qed.

(* a renamed name steps over names that are taken: x -> x_1 (taken) -> x_1_2 *)
Example C10_rename_collision_example :
  calc_unique_anchor "x" ["x"; "x_1"; "y"] = Ok "x_1_2".
Proof. vm_compute. reflexivity. Qed.

(* equal values: accepted under 'stop'; the left document adopts the right node *)
Example C10_equal_example :
  let r1 := NMap (mkinfo 3 None true None) [(ky "c", lf 20 (Some "x") (PInt 1))] in
  resolve_conflicts (ex_cfg "stop") ex_l r1 =
  Ok (NMap (mkinfo 2 None true None) [(ky "a", lf 20 (Some "x") (PInt 1)); (ky "b", lf 20 (Some "x") (PInt 1))], r1).
Proof. vm_compute. reflexivity. Qed.

(* true and 1 are different values (after fix 9fe76f9): a conflict *)
Example C10_typed_values_example :
  anchors_match (NLeaf (mkinfo 5 (Some "x") true (Some sbool_tag)) (PInt 1)) (lf 6 (Some "x") (PInt 1)) = false
  /\ anchors_match (lf 5 (Some "x") (PInt 1)) (lf 6 (Some "x") (PFloat (QArith_base.Qmake 1%Z 1%positive) "1.0")) = false
  /\ anchors_match (lf 5 (Some "x") (PInt 1)) (lf 6 (Some "x") (PInt 1)) = true.
Proof. repeat split; reflexivity. Qed.

(* the serializer's invariant on a merged result: one object per name *)
Example C10_unique_names_example :
  forall res, resolve_conflicts (ex_cfg "rename") ex_l ex_r = Ok res ->
    one_object_per_name (fst res) /\ one_object_per_name (snd res).
Proof.
  intros res E. rewrite C10_rename_example in E. inversion E; subst; clear E. simpl fst; simpl snd.
  split; intros n m a Hn Hm Nn Nm; simpl in Hn, Hm;
    repeat (destruct Hn as [<-|Hn]; [|]); try contradiction;
    repeat (destruct Hm as [<-|Hm]; [|]); try contradiction;
    try reflexivity; try discriminate; vm_compute in Nn, Nm; congruence.
Qed.

(* the hypotheses of C10_unique_names / C10_rename are satisfiable:
   {a: &x 1, b: *x}  and  {c: &x 2, d: [*x], e: &y 7, f: &x_1 0}  (every key its own object) *)
Definition kz (o : N) (s : string) : node := NLeaf (mkinfo o None false None) (PStr s).
Definition ex2_l : node := NMap (mkinfo 2 None true None) [(kz 30 "a", ex_lx); (kz 31 "b", ex_lx)].
Definition ex2_r : node :=
  NMap (mkinfo 3 None true None)
       [(kz 32 "c", ex_rx); (kz 33 "d", NSeq (mkinfo 4 None true None) [ex_rx]); (kz 34 "e", ex_ry);
        (kz 35 "f", lf 22 (Some "x_1") (PInt 0))].

Ltac in_cases H := simpl in H; repeat (destruct H as [<-|H]; [|]); try contradiction.

Example C10_wf_example :
  an_doc_ok ex2_l = true /\ an_doc_ok ex2_r = true /\
  one_node_per_name ex2_l /\ one_node_per_name ex2_r /\ an_heap_ok ex2_r /\
  ad_get "x" (an_scan_anchors ex2_l []) = Some ex_lx /\ ad_get "x" (an_scan_anchors ex2_r []) = Some ex_rx /\
  anchors_match ex_lx ex_rx = false /\
  resolve_conflicts (ex_cfg "rename") ex2_l ex2_r =
  Ok (ex2_l, NMap (mkinfo 3 None true None)
                  [(kz 32 "c", lf 20 (Some "x_1_2") (PInt 2));
                   (kz 33 "d", NSeq (mkinfo 4 None true None) [lf 20 (Some "x_1_2") (PInt 2)]);
                   (kz 34 "e", ex_ry); (kz 35 "f", lf 22 (Some "x_1") (PInt 0))]).
Proof.
  split; [reflexivity|]. split; [reflexivity|].
  split; [intros n m a Hn Hm Nn Nm; in_cases Hn; in_cases Hm; try reflexivity; vm_compute in Nn, Nm; congruence|].
  split; [intros n m a Hn Hm Nn Nm; in_cases Hn; in_cases Hm; try reflexivity; vm_compute in Nn, Nm; congruence|].
  split; [intros n m Hn Hm E; in_cases Hn; in_cases Hm; try reflexivity; vm_compute in E; discriminate|].
  repeat split; vm_compute; reflexivity.
Qed.

(* the hypotheses of C10_lift_reads hold of the pair the 'left' policy produces from ex_l / ex_r *)
Example C10_lift_example :
  let r' := NMap (mkinfo 3 None true None)
                 [(ky "c", ex_lx); (ky "d", NSeq (mkinfo 4 None true None) [ex_lx]); (ky "e", ex_ry)] in
  (forall p, In p (an_all ex_l) -> is_leaf p = true -> c10_name p = Some "x" -> p = ex_lx) /\
  (forall p, In p (an_all r') -> is_leaf p = true -> c10_name p = Some "x" -> p = ex_lx) /\
  exists m, merge_rec (fun _ => Ok LFail) (ex_cfg "left") r' (mkcoord 3 None None) ex_l = Ok m.
Proof.
  split; [intros p Hp _ Np; in_cases Hp; try reflexivity; vm_compute in Np; discriminate|].
  split; [intros p Hp _ Np; in_cases Hp; try reflexivity; vm_compute in Np; discriminate|].
  eexists. vm_compute. reflexivity.
Qed.

(* Scope: the theorems above assume anchors on Scalars (scalar_anchors).  Beyond it the code
   misses anchors: an anchored Array that is an ELEMENT of an Array is not recorded by
   scan_for_anchors (known finding F-C10-1; witness  [&l [1]] ) *)
Theorem C10_anchored_array_element_unseen_refuted :
  exists d, (exists i e, d = NSeq i [e] /\ an_name e = Some "l") /\ an_scan_anchors d [] = [].
Proof.
  exists (NSeq (mkinfo 2 None true None)
               [NSeq (mkinfo 3 (Some "l") true None) [lf 4 None (PInt 1)]]).
  split; [eexists; eexists; split; reflexivity|reflexivity].
Qed.

(* ================= round 4: the FINAL document, no crash, computable guards ================= *)

(* The merge proper INCLUDING its root dispatch (_insert_dict / _insert_list / _insert_set /
   _insert_scalar: the fresh wrapper list `[rhs]`, the Hash built from a Set, the Set built from a
   list, lhs.yaml_set_tag(rhs.tag) on the merged container) creates no anchored Scalar and changes
   none: every Scalar of the document merge_root RETURNS is a Scalar of one of the two documents it
   was given, or the unnamed null _insert_set creates.  All documents, policies, rule tables. *)
Theorem C10_merge_root_keeps_scalars :
  forall lit cfg l r m,
    merge_root lit cfg l r = Ok m ->
    forall p, In p (an_all m) -> is_leaf p = true -> In p (an_all l) \/ In p (an_all r) \/ p = mg_null.
Proof. exact merge_root_keeps_scalars. Qed.
Print Assumptions C10_merge_root_keeps_scalars.

(* The bridge: in a tidy document (computable guard an_doc_tidy: no container, hash key or SET
   MEMBER carries an anchor name) every node carrying a name is a Scalar at a place; the conflict
   resolution hands a tidy pair to the merge proper. *)
Theorem C10_tidy_bridge :
  forall d, an_doc_tidy d = true ->
    forall p a, In p (an_all d) -> c10_name p = Some a -> In p (places d) /\ is_leaf p = true.
Proof. exact tidy_bridge. Qed.

Theorem C10_resolved_pair_tidy :
  forall cfg l r l' r',
    an_doc_tidy l = true -> an_doc_tidy r = true ->
    (anchor_merge_mode cfg = Ok KRename -> an_heap_ok r) ->
    resolve_conflicts cfg l r = Ok (l', r') ->
    an_doc_tidy l' = true /\ an_doc_tidy r' = true.
Proof. exact resolve_tidy. Qed.
Print Assumptions C10_resolved_pair_tidy.

(* the Prop-level hypotheses of C10_unique_names / C10_rename are decided by boolean tests *)
Theorem C10_guards_decide :
  forall d, (one_node_per_name_b d = true <-> one_node_per_name d) /\
            (an_heap_ok_b d = true <-> an_heap_ok d) /\
            (an_doc_tidy d = true -> an_doc_ok d = true).
Proof. intros d. split; [apply one_node_per_name_b_iff|split; [apply an_heap_ok_b_iff|apply doc_tidy_ok]]. Qed.
Print Assumptions C10_guards_decide.

(* LEFT, of the document merge_with returns: every Scalar of the merged document -- hash key,
   value, array element, set member, at any depth -- that carries a conflicting name a IS the
   left-hand node la (same object, left value).  `all_read a la l`: the left document itself
   reads la at every place of a (it does when it holds one node per name). *)
Theorem C10_left_final :
  forall cfg lit l r m a la ra,
    anchor_merge_mode cfg = Ok KLeft ->
    an_doc_tidy l = true -> an_doc_tidy r = true ->
    ad_get a (an_scan_anchors l []) = Some la -> ad_get a (an_scan_anchors r []) = Some ra ->
    anchors_match la ra = false ->
    all_read a la l ->
    merge_with_anchors cfg lit l r = Ok m ->
    all_scalars_read a la m.
Proof. exact final_left. Qed.
Print Assumptions C10_left_final.

(* RIGHT: every Scalar of the merged document carrying a name both documents define is the
   right-hand node *)
Theorem C10_right_final :
  forall cfg lit l r m a la ra,
    anchor_merge_mode cfg = Ok KRight ->
    an_doc_tidy l = true -> an_doc_tidy r = true ->
    ad_get a (an_scan_anchors l []) = Some la -> ad_get a (an_scan_anchors r []) = Some ra ->
    all_read a ra r ->
    merge_with_anchors cfg lit l r = Ok m ->
    all_scalars_read a ra m.
Proof. exact final_right. Qed.
Print Assumptions C10_right_final.

Theorem C10_one_node_reads :
  forall d a x, an_doc_ok d = true -> one_node_per_name d ->
    ad_get a (an_scan_anchors d []) = Some x -> all_read a x d.
Proof. exact one_node_reads. Qed.

(* RENAME keeps both values, in the merged document: every Scalar named a is the left node;
   every Scalar carrying the new name nn is the right node under its new name (same object, same
   value); nn is _calc_unique_anchor's answer, used by neither input.  Guard: c10_pair_guard,
   ONE computable test on the pair (tidy documents, one node per name, right-hand tree faithful
   to its heap). *)
Theorem C10_rename_final :
  forall cfg lit l r m a la ra,
    anchor_merge_mode cfg = Ok KRename -> c10_pair_guard l r = true ->
    ad_get a (an_scan_anchors l []) = Some la -> ad_get a (an_scan_anchors r []) = Some ra ->
    anchors_match la ra = false ->
    merge_with_anchors cfg lit l r = Ok m ->
    all_scalars_read a la m /\
    exists nn, calc_unique_anchor a (known_names (an_scan_anchors l []) (an_scan_anchors r [])) = Ok nn /\
               ~ In nn (known_names (an_scan_anchors l []) (an_scan_anchors r [])) /\
               all_scalars_read nn (an_with_name nn ra) m.
Proof. exact final_rename_b. Qed.
Print Assumptions C10_rename_final.

(* UNIQUE NAMES in the merged document, under any of the four policies: one anchored Scalar per
   name -- what the serializer needs (no anchor defined twice, every alias has its definition) *)
Theorem C10_unique_names_final :
  forall cfg lit l r m,
    c10_pair_guard l r = true -> merge_with_anchors cfg lit l r = Ok m -> an_doc_unique m.
Proof. exact final_unique_names_b. Qed.
Print Assumptions C10_unique_names_final.

(* NO CRASH.  On documents whose hash keys carry no anchor (anchored containers as values are
   allowed), for every configuration: _resolve_anchor_conflicts ends in a resolved pair, in the
   MergeException of 'stop', or in the NameError of a policy text outside its enumeration; never
   KeyError (dictionary lookups, replace_anchor's data.pop), AttributeError (repl_node.anchor),
   OutOfFuel (_calc_unique_anchor).  Guard keys_plain = the side condition finding F-C10-2 marks. *)
Theorem C10_no_crash_partial :
  forall cfg l r, keys_plain l = true -> keys_plain r = true -> an_clean cfg (resolve_conflicts cfg l r).
Proof. exact resolve_no_crash. Qed.
Print Assumptions C10_no_crash_partial.

Theorem C10_no_crash_policy_partial :
  forall cfg l r mode,
    anchor_merge_mode cfg = Ok mode -> keys_plain l = true -> keys_plain r = true ->
    (exists res, resolve_conflicts cfg l r = Ok res) \/
    (mode = KStop /\ resolve_conflicts cfg l r = Raise MergeExc).
Proof. exact resolve_no_crash_policy. Qed.
Print Assumptions C10_no_crash_policy_partial.

(* ... and the guard is needed.  KNOWN FINDING F-C10-3 (found by this proof's forced hypothesis,
   replayed on the code):  {&x k: 1}  +  {a: &x [1, 2]}  under anchors=right -- the left KEY named x
   is to be replaced by the right-hand node named x, an Array: `data.insert(idx, repl_node, ...)`
   hashes it and the merge ends in TypeError (unhashable type: 'CommentedSeq'), neither a document
   nor a MergeException. *)
Definition w3_l : node := NMap (mkinfo 2 None true None) [(lf 3 (Some "x") (PStr "k"), lf 4 None (PInt 1))].
Definition w3_r : node :=
  NMap (mkinfo 5 None true None)
       [(lf 6 None (PStr "a"), NSeq (mkinfo 7 (Some "x") true None) [lf 4 None (PInt 1); lf 8 None (PInt 2)])].

Theorem C10_no_crash_refuted :
  exists cfg l r,
    anchor_merge_mode cfg = Ok KRight /\ keys_plain l = false /\
    resolve_conflicts cfg l r = Raise (PyCrash TypeError).
Proof. exists (ex_cfg "right"), w3_l, w3_r. repeat split; vm_compute; reflexivity. Qed.

(* 'stop', exactly: a MergeException iff some common name does not match *)
Theorem C10_stop_exact_partial :
  forall cfg l r,
    anchor_merge_mode cfg = Ok KStop -> keys_plain l = true -> keys_plain r = true ->
    ((exists a la ra, ad_get a (an_scan_anchors l []) = Some la /\ ad_get a (an_scan_anchors r []) = Some ra /\
                      anchors_match la ra = false) -> resolve_conflicts cfg l r = Raise MergeExc) /\
    (no_conflict l r -> exists res, resolve_conflicts cfg l r = Ok res).
Proof. exact resolve_stop_exact. Qed.
Print Assumptions C10_stop_exact_partial.

(* ---------- the edges of the quantifier (known findings) ---------- *)
Definition ct (o : N) (a : option string) : info := mkinfo o a true None.

(* F-C10-1: an anchored CONTAINER that is an array element.   [&l [1, 2]]  +  {list: &l [3]}
   under anchors=stop: the two anchors named l differ, yet the merge is accepted and the merged
   document holds two different objects of different value under the one name. *)
Definition w1_l : node := NSeq (ct 2 None) [NSeq (ct 3 (Some "l")) [lf 4 None (PInt 1); lf 5 None (PInt 2)]].
Definition w1_r : node := NMap (ct 6 None) [(lf 7 None (PStr "list"), NSeq (ct 8 (Some "l")) [lf 9 None (PInt 3)])].

Theorem C10_anchored_container_element_refuted :
  exists cfg lit l r m n k,
    anchor_merge_mode cfg = Ok KStop /\ merge_with_anchors cfg lit l r = Ok m /\
    In n (an_all m) /\ In k (an_all m) /\ c10_name n = Some "l" /\ c10_name k = Some "l" /\
    node_oid n <> node_oid k /\ node_eq n k = false /\
    an_doc_tidy l = false.
Proof.
  exists (ex_cfg "stop"), (fun _ => Ok LFail), w1_l, w1_r.
  eexists. exists (NSeq (ct 3 (Some "l")) [lf 4 None (PInt 1); lf 5 None (PInt 2)]), (NSeq (ct 8 (Some "l")) [lf 9 None (PInt 3)]).
  split; [reflexivity|]. split; [vm_compute; reflexivity|].
  split; [simpl; tauto|]. split; [simpl; tauto|].
  repeat split; try reflexivity. vm_compute. discriminate.
Qed.

(* F-C10-2: anchored KEYS.   {p: 0, &z kzw: [1], &x kxv: {a: v}}  +  {b: [{f: &x v, c: &z v}, 2]}
   under anchors=right: both anchored keys are replaced by right-hand nodes equal to `v`; the
   second re-insertion meets the key the first one made and one entry of the Hash is lost. *)
Definition w2_l : node := NMap (ct 2 None)
  [(lf 3 None (PStr "p"), lf 4 None (PInt 0));
   (lf 5 (Some "z") (PStr "kzw"), NSeq (ct 6 None) [lf 7 None (PInt 1)]);
   (lf 8 (Some "x") (PStr "kxv"), NMap (ct 9 None) [(lf 10 None (PStr "a"), lf 11 None (PStr "v"))])].
Definition w2_r : node := NMap (ct 12 None)
  [(lf 13 None (PStr "b"),
    NSeq (ct 14 None) [NMap (ct 15 None) [(lf 16 None (PStr "f"), lf 17 (Some "x") (PStr "v"));
                                          (lf 18 None (PStr "c"), lf 19 (Some "z") (PStr "v"))];
                       lf 20 None (PInt 2)])].

Theorem C10_anchored_key_collision_refuted :
  exists cfg l r li lkvs li' lkvs' r',
    anchor_merge_mode cfg = Ok KRight /\ l = NMap li lkvs /\ keys_plain l = false /\
    resolve_conflicts cfg l r = Ok (NMap li' lkvs', r') /\
    List.length lkvs = 3 /\ List.length lkvs' = 2 /\
    (* the entry  kzw: [1]  is gone: no key of the result holds its value *)
    (forall kv, In kv lkvs' -> snd kv <> NSeq (ct 6 None) [lf 7 None (PInt 1)]).
Proof.
  exists (ex_cfg "right"), w2_l, w2_r. eexists. eexists. eexists. eexists. eexists.
  split; [reflexivity|]. split; [reflexivity|]. split; [reflexivity|].
  split; [vm_compute; reflexivity|]. split; [reflexivity|]. split; [reflexivity|].
  intros kv Hin. simpl in Hin. destruct Hin as [<-|[<-|[]]]; discriminate.
Qed.

(* ---------- non-vacuity of the round-4 statements ---------- *)
(* the one computable guard holds of  {a: &x 1, b: *x} / {c: &x 2, d: [*x], e: &y 7, f: &x_1 0};
   merge_with returns a document under 'rename' and under 'left' *)
Example C10_final_example :
  c10_pair_guard ex2_l ex2_r = true /\
  all_read "x" ex_lx ex2_l /\ all_read "x" ex_rx ex2_r /\
  (exists m, merge_with_anchors (ex_cfg "rename") (fun _ => Ok LFail) ex2_l ex2_r = Ok m) /\
  (exists m, merge_with_anchors (ex_cfg "left") (fun _ => Ok LFail) ex2_l ex2_r = Ok m) /\
  (exists m, merge_with_anchors (ex_cfg "right") (fun _ => Ok LFail) ex2_l ex2_r = Ok m).
Proof.
  split; [vm_compute; reflexivity|].
  split; [intros n Hn; vm_compute in Hn; repeat (destruct Hn as [<-|Hn]; [reflexivity|]); contradiction|].
  split; [intros n Hn; vm_compute in Hn; repeat (destruct Hn as [<-|Hn]; [reflexivity|]); contradiction|].
  repeat split; eexists; vm_compute; reflexivity.
Qed.

(* the guards are not trivially true:  [&x 1, &x 2]  re-defines a name;  a tree showing one oid
   with two contents is no heap;  a Set member carrying an anchor is not tidy *)
Example C10_guards_example :
  one_node_per_name_b (NSeq (ct 2 None) [lf 3 (Some "x") (PInt 1); lf 4 (Some "x") (PInt 2)]) = false /\
  an_heap_ok_b (NSeq (ct 2 None) [lf 3 None (PInt 1); lf 3 None (PInt 2)]) = false /\
  an_doc_tidy (NSet (ct 2 None) [lf 3 (Some "x") (PInt 1)]) = false /\
  keys_plain ex2_l = true /\ keys_plain ex2_r = true.
Proof. repeat split; vm_compute; reflexivity. Qed.

(* Every remaining statement of this file, so that none is left unaudited. *)
Print Assumptions C10_equal_right_untouched.
Print Assumptions C10_rename_new_name.
Print Assumptions C10_replace_is_subst.
Print Assumptions C10_anchored_array_element_unseen_refuted.
Print Assumptions C10_tidy_bridge.
Print Assumptions C10_one_node_reads.
Print Assumptions C10_no_crash_refuted.
Print Assumptions C10_anchored_container_element_refuted.
Print Assumptions C10_anchored_key_collision_refuted.
