(* C07 -- yaml-paths search is sound and complete, and every printed path
   resolves.  Statements only; proofs live in Proofs/PathsEnum.v (model = pure
   enumeration), Proofs/PathsSpec.v (enumeration = declarative places),
   Proofs/PathsLeaves.v (expansion) and Proofs/PathsMain.v.

   Model: Model/PathsSearch.v (search_for_paths, yield_children, record_anchors,
   search_anchor, get_search_term as they are after the `fix:` commits, the
   last two being the lone-scalar document branch and record_anchors).
   Spec: Spec/SpecC07.v (places of a document, `satisfies`, `justified`,
   `wanted`, `leaf_place`).

   `transparent mt o d` = "d has no anchors and no merge keys" OR "both alias
   options are on": the cases in which every place counts.  lit / re_search are
   the ast.literal_eval / re oracles: every theorem holds for all of them.
   All theorems are about runs that end normally (search_doc ... = Ok res); a
   run ends abnormally only when search_matches raises (invalid regular
   expression: C12/C15's subject). *)
From Coq Require Import List Ascii String ZArith NArith Bool.
From YP Require Import Outcome PyStr PyVal Doc Generated PathParser PathPrinter Searches PathsSearch
     SpecC07 PathsEnum PathsSpec PathsLeaves PathsMain PathsResolve PathsAlias PathsAliasMain PathsPrint PathsPrintProofs.
Import ListNotations.
Open Scope string_scope.

(* ---- nothing but satisfying places is reported ---- *)
Theorem C07_sound :
  forall lit re_search (mt : mtable) (tm : terms) (sp : sep) (o : opts) (d : node) (res : list hit),
    o_anchors o = false -> o_expand o = false -> transparent mt o d ->
    search_doc lit re_search mt tm sp o d = Ok res ->
    forall h, In h res -> justified lit re_search tm o d h.
Proof. exact sound. Qed.
Print Assumptions C07_sound.

(* ---- full-strength completeness is false of the code: a matching key hides
        the satisfying places beneath it (known finding key_match_prunes_subtree) ---- *)
Definition C07_i0 : info := mkinfo 0 None false None.
Definition C07_leaf (s : string) : node := NLeaf C07_i0 (PStr s).
Definition C07_lit0 : string -> outcome litres := fun _ => Ok LFail.     (* literal_eval("a") etc. raise ValueError *)
Definition C07_re0 : string -> string -> outcome reres := fun _ _ => Ok (RMatch false).
(* {a: {b: a}}  searched for  =a  with --keynames *)
Definition C07_wdoc : node := NMap C07_i0 [(C07_leaf "a", NMap C07_i0 [(C07_leaf "b", C07_leaf "a")])].
Definition C07_tm_a : terms := mkterms false MEquals "*" "a".
Definition C07_o_kv : opts := mkopts true true false true false false.

Theorem C07_complete_refuted :
  exists lit re_search mt tm sp o d res l,
    o_anchors o = false /\ o_expand o = false /\ transparent mt o d /\ nodup_keys d /\
    search_doc lit re_search mt tm sp o d = Ok res /\
    wanted lit re_search tm o d l /\
    ~ (exists h, In h res /\ h_loc h = l).
Proof.
  exists C07_lit0, C07_re0, [], C07_tm_a, Dot, C07_o_kv, C07_wdoc,
         [mkhit "a" [RKey (PStr "a")] HKey], [RKey (PStr "a"); RKey (PStr "b")].
  split; [reflexivity|]. split; [reflexivity|]. split; [right; split; reflexivity|].
  split; [simpl; repeat constructor; simpl; tauto|].
  split; [vm_compute; reflexivity|]. split.
  - left. split; [reflexivity|]. exists (C07_leaf "a"). split; [|vm_compute; reflexivity].
    left. exists [RKey (PStr "a")], (NMap C07_i0 [(C07_leaf "b", C07_leaf "a")]), (RKey (PStr "b")).
    split; [reflexivity|]. split; [|split; [|reflexivity]].
    + apply (reach_step C07_wdoc (key_ref (C07_leaf "a")) (NMap C07_i0 [(C07_leaf "b", C07_leaf "a")])).
      * constructor. left; reflexivity.
      * constructor.
    + apply (child_map C07_i0 [(C07_leaf "b", C07_leaf "a")] (C07_leaf "b") (C07_leaf "a")). left; reflexivity.
  - intros [h [[<-|[]] E]]. discriminate.
Qed.

(* ---- completeness with the guard: every wanted place is reported, or lies
        beneath a reported matching key ---- *)
Theorem C07_complete_partial :
  forall lit re_search (mt : mtable) (tm : terms) (sp : sep) (o : opts) (d : node) (res : list hit),
    o_anchors o = false -> o_expand o = false -> transparent mt o d ->
    search_doc lit re_search mt tm sp o d = Ok res ->
    forall l, wanted lit re_search tm o d l ->
    exists h, In h res /\ prefix (h_loc h) l /\ (h_loc h = l \/ (h_kind h = HKey /\ o_keys o = true)).
Proof. exact complete_cover. Qed.
Print Assumptions C07_complete_partial.

(* ---- values-only search (the default): completeness at full strength.
        "For any document": the lone scalar a document may consist of is a
        value place too (SpecC07.root_place, at the root location []); the
        former exception (finding F-C07-3 scalar_document) is repaired. ---- *)
Theorem C07_complete :
  forall lit re_search (mt : mtable) (tm : terms) (sp : sep) (o : opts) (d : node) (res : list hit),
    o_anchors o = false -> o_expand o = false -> transparent mt o d -> o_keys o = false ->
    search_doc lit re_search mt tm sp o d = Ok res ->
    forall l, wanted lit re_search tm o d l -> exists h, In h res /\ h_loc h = l.
Proof. exact complete_values. Qed.
Print Assumptions C07_complete.

(* the former witness of finding F-C07-3: the document `a` searched for =a.
   The root is wanted and reported, by the root path of the notation ("" in
   dot notation, "/" in forward-slash notation: what yaml-get -p takes for the
   document itself); key-only searches and the null (empty) document report
   nothing, and nothing is wanted there *)
Example C07_scalar_document :
  wanted C07_lit0 C07_re0 C07_tm_a (mkopts true false false true false false) (C07_leaf "a") []
  /\ search_doc C07_lit0 C07_re0 [] C07_tm_a Dot (mkopts true false false true false false) (C07_leaf "a")
     = Ok [mkhit "" [] HValue]
  /\ search_doc C07_lit0 C07_re0 [] C07_tm_a Slash (mkopts true true false true false true) (C07_leaf "a")
     = Ok [mkhit "/" [] HValue]
  /\ search_doc C07_lit0 C07_re0 [] C07_tm_a Dot (mkopts false true false true false false) (C07_leaf "a") = Ok []
  /\ search_doc C07_lit0 C07_re0 [] (mkterms true MEquals "*" "a") Dot (mkopts true false false true false false)
                (NLeaf C07_i0 PNone) = Ok []
  /\ ~ wanted C07_lit0 C07_re0 (mkterms true MEquals "*" "a") (mkopts true false false true false false)
              (NLeaf C07_i0 PNone) [].
Proof.
  split; [left; split; [reflexivity|]; exists (C07_leaf "a"); split; [right; repeat split; reflexivity|vm_compute; reflexivity]|].
  split; [vm_compute; reflexivity|]. split; [vm_compute; reflexivity|]. split; [vm_compute; reflexivity|].
  split; [vm_compute; reflexivity|].
  intros W. apply (wanted_leaf C07_lit0 C07_re0 _ (mkopts true false false true false false) C07_i0 PNone []) in W.
  destruct W as [_ [_ [W _]]]. discriminate W.
Qed.

(* ---- each place at most once ---- *)
Theorem C07_once :
  forall lit re_search (mt : mtable) (tm : terms) (sp : sep) (o : opts) (d : node) (res : list hit),
    o_anchors o = false -> o_expand o = false -> transparent mt o d -> nodup_keys d ->
    search_doc lit re_search mt tm sp o d = Ok res ->
    NoDup (map h_loc res).
Proof. exact once. Qed.
Print Assumptions C07_once.

(* ---- alias modes.  With both alias options on (--allowaliases) every
        aliased repeat and every merged-in key counts: for ANY document
        (anchors, aliases, merge keys) the three theorems above apply, since
        `transparent` holds by its first disjunct. ---- *)
Theorem C07_alias_modes :
  forall lit re_search (mt : mtable) (tm : terms) (sp : sep) (o : opts) (d : node) (res : list hit),
    o_anchors o = false -> o_expand o = false -> o_kalias o = true -> o_valias o = true -> nodup_keys d ->
    search_doc lit re_search mt tm sp o d = Ok res ->
    (forall h, In h res -> justified lit re_search tm o d h) /\
    (forall l, wanted lit re_search tm o d l ->
               exists h, In h res /\ prefix (h_loc h) l /\ (h_loc h = l \/ (h_kind h = HKey /\ o_keys o = true))) /\
    NoDup (map h_loc res).
Proof.
  intros lit re_search mt tm sp o d res Ha Hx Hk Hv Hn E.
  assert (Ht : transparent mt o d) by (left; auto).
  split; [eapply sound; eauto|]. split; [eapply complete_cover; eauto|eapply once; eauto].
Qed.
Print Assumptions C07_alias_modes.

(* The other modes, step level: a node whose anchor name was already met is
   classified as an alias, and an aliased value yields nothing (nor is it
   descended into) unless value aliases are included. *)
Theorem C07_alias_classified :
  forall lit re_search tm o x seen b name,
    o_anchors o = false -> get_node_anchor x = Some name ->
    search_anchor lit re_search tm o x seen b =
    Ok (if mem_string name seen then UnsearchableAlias else UnsearchableAnchor,
        if mem_string name seen then seen else (seen ++ [name])%list).
Proof. exact alias_classified. Qed.

Theorem C07_alias_value_excluded :
  forall lit re_search mt tm sp o rec v tmp lc seen,
    o_valias o = false ->
    value_part lit re_search mt tm sp o rec UnsearchableAlias v tmp lc seen = Ok ([], seen).
Proof. exact alias_value_excluded. Qed.

(* ---- expansion: yield_children reports exactly the leaf descendants ---- *)
Theorem C07_expand :
  forall lit re_search (mt : mtable) (tm : terms) (sp : sep) (o : opts) (n : node),
    o_anchors o = false -> transparent mt o n ->
    forall bp lc kd seen r,
      yield_children lit re_search mt tm sp o n bp lc kd seen = Ok r ->
      (forall h, In h (fst r) -> h_kind h = HChild kd) /\
      (forall l, In l (map h_loc (fst r)) <-> exists l', l = (lc ++ l')%list /\ leaf_place n l').
Proof. exact yield_children_leaves. Qed.
Print Assumptions C07_expand.

(* with expansion on, the whole search lists the enumeration in which a matched
   key is replaced by the leaf descendants of its value (PathsEnum.key_hit_enum);
   enum_doc d = enum d [] for a container, the root place for a lone scalar *)
Theorem C07_expand_search :
  forall lit re_search (mt : mtable) (tm : terms) (sp : sep) (o : opts) (d : node) (res : list hit),
    o_anchors o = false -> transparent mt o d ->
    search_doc lit re_search mt tm sp o d = Ok res ->
    map h_lk res = enum_doc lit re_search tm o d.
Proof. exact search_doc_enum. Qed.
Print Assumptions C07_expand_search.

(* ---- "every reported path resolves", the part provable without the query
        evaluator: the location a report stands for, walked position by
        position (keys -> RKey, [n] -> RIdx), reaches the matched node -- the
        satisfying scalar for a value report, the value under the satisfying
        key for a key report.  Missing: that the printed TEXT parses to
        segments naming this location (C08's escape/parse round trip; false for
        the keys of known finding unsafe_key_section) and that the evaluator
        follows them (C01/C02).  Checked on the real code by the harness. ---- *)
Theorem C07_resolves_partial :
  forall lit re_search (mt : mtable) (tm : terms) (sp : sep) (o : opts) (d : node) (res : list hit),
    o_anchors o = false -> o_expand o = false -> transparent mt o d ->
    search_doc lit re_search mt tm sp o d = Ok res ->
    forall h, In h res -> resolves_to lit re_search tm d h.
Proof. exact resolves_location. Qed.
Print Assumptions C07_resolves_partial.

(* ---- alias recognition goes by anchor NAME: with a redefined name a
        different node is excluded as an "alias" (known finding
        reused_anchor_name).  [&x a, &x b] searched for =b under --anchorsonly ---- *)
Definition C07_doc_reuse : node :=
  NSeq C07_i0 [NLeaf (mkinfo 1 (Some "x") true None) (PStr "a"); NLeaf (mkinfo 2 (Some "x") true None) (PStr "b")].

Theorem C07_alias_reused_name_refuted :
  exists lit re_search mt tm sp o d l,
    o_anchors o = false /\ o_expand o = false /\ o_keys o = false /\
    search_doc lit re_search mt tm sp o d = Ok [] /\ wanted lit re_search tm o d l.
Proof.
  exists C07_lit0, C07_re0, [], (mkterms false MEquals "*" "b"), Dot, (mkopts true false false false false false),
         C07_doc_reuse, [RIdx 1].
  split; [reflexivity|]. split; [reflexivity|]. split; [reflexivity|]. split; [vm_compute; reflexivity|].
  left. split; [reflexivity|]. exists (NLeaf (mkinfo 2 (Some "x") true None) (PStr "b")). split; [|vm_compute; reflexivity].
  left. exists [], C07_doc_reuse, (RIdx 1). split; [reflexivity|].
  split; [constructor|]. split; [|reflexivity]. apply child_seq. reflexivity.
Qed.

(* ---- non-vacuity ---- *)
(* {a: a, k: [a, b], s: {a: 1}} : anchor-free, distinct keys *)
Definition C07_doc2 : node :=
  NMap C07_i0 [(C07_leaf "a", C07_leaf "a");
               (C07_leaf "k", NSeq C07_i0 [C07_leaf "a"; C07_leaf "b"]);
               (C07_leaf "s", NMap C07_i0 [(C07_leaf "a", NLeaf C07_i0 (PInt 1))])].
Definition C07_o_v : opts := mkopts true false false true false false.
Definition C07_o_kx : opts := mkopts true true false true false true.

Example C07_hyps_hold :
  transparent [] C07_o_v C07_doc2 /\ nodup_keys C07_doc2 /\
  search_doc C07_lit0 C07_re0 [] C07_tm_a Dot C07_o_v C07_doc2 =
  Ok [mkhit "a" [RKey (PStr "a")] HValue; mkhit "k[0]" [RKey (PStr "k"); RIdx 0] HValue].
Proof.
  split; [right; split; reflexivity|]. split; [|vm_compute; reflexivity].
  simpl. repeat split; repeat constructor; simpl; intuition discriminate.
Qed.

Example C07_keys_example :
  search_doc C07_lit0 C07_re0 [] C07_tm_a Slash C07_o_kv C07_doc2 =
  Ok [mkhit "/a" [RKey (PStr "a")] HKey; mkhit "/k[0]" [RKey (PStr "k"); RIdx 0] HValue;
      mkhit "/s/a" [RKey (PStr "s"); RKey (PStr "a")] HKey].
Proof. vm_compute. reflexivity. Qed.

(* expansion of the matched parent `k` by --expand with the expression =k *)
Example C07_expand_example :
  search_doc C07_lit0 C07_re0 [] (mkterms false MEquals "*" "k") Dot C07_o_kx C07_doc2 =
  Ok [mkhit "k[0]" [RKey (PStr "k"); RIdx 0] (HChild HKey); mkhit "k[1]" [RKey (PStr "k"); RIdx 1] (HChild HKey)].
Proof. vm_compute. reflexivity. Qed.

(* --allowaliases on a document with an anchor, two aliases and a merge key:
   {a: &x {k: a}, b: *x, c: {<<: *x}} ; every repeat is reported *)
Definition C07_ix : info := mkinfo 1 (Some "x") true None.
Definition C07_anch : node := NMap C07_ix [(C07_leaf "k", C07_leaf "a")].
Definition C07_doc3 : node :=
  NMap C07_i0 [(C07_leaf "a", C07_anch); (C07_leaf "b", C07_anch);
               (C07_leaf "c", NMap (mkinfo 2 None true None) [(C07_leaf "k", C07_leaf "a")])].
Definition C07_mt3 : mtable := [(2%N, mkminfo [0] [C07_anch])].
Definition C07_o_all : opts := mkopts true false false true true false.
Definition C07_o_none : opts := mkopts true false false false false false.

Example C07_alias_all_example :
  search_doc C07_lit0 C07_re0 C07_mt3 C07_tm_a Dot C07_o_all C07_doc3 =
  Ok [mkhit "a.k" [RKey (PStr "a"); RKey (PStr "k")] HValue; mkhit "b.k" [RKey (PStr "b"); RKey (PStr "k")] HValue;
      mkhit "c.k" [RKey (PStr "c"); RKey (PStr "k")] HValue].
Proof. vm_compute. reflexivity. Qed.

Example C07_alias_none_example :
  search_doc C07_lit0 C07_re0 C07_mt3 C07_tm_a Dot C07_o_none C07_doc3 =
  Ok [mkhit "a.k" [RKey (PStr "a"); RKey (PStr "k")] HValue].
Proof. vm_compute. reflexivity. Qed.

(* ---- alias-exclusion modes on documents WITH anchors, all four combinations
        of the two alias options.  An aliased repeat is an occurrence of an
        anchored node that is the same object (oid) as an earlier occurrence in
        document order; `vreach` / `vplace_*` (SpecC07) walk to a place without
        passing a merged-in entry or an aliased repeat that the options exclude;
        `vwanted` / `vjustified` are `wanted` / `justified` restricted to such
        visible places.

        (a) every visible satisfying place is still reported (or lies beneath a
            reported matching key: finding key_match_prunes_subtree, which is
            deliberate).  Guard:
            anchor names and objects go together (fails when a document
            redefines an anchor name: finding reused_anchor_name). ---- *)
Theorem C07_alias_complete_partial :
  forall lit re_search (mt : mtable) (tm : terms) (sp : sep) (o : opts) (d : node) (res : list hit),
    o_anchors o = false -> o_expand o = false -> names_consistent (anc_occs d) = true ->
    search_doc lit re_search mt tm sp o d = Ok res ->
    forall l, vwanted lit re_search tm mt o d l ->
    exists h, In h res /\ prefix (h_loc h) l /\ (h_loc h = l \/ (h_kind h = HKey /\ o_keys o = true)).
Proof. exact alias_complete. Qed.
Print Assumptions C07_alias_complete_partial.

(* without the guard: [&x a, &x b] searched for =b under --anchorsonly; [1] is
   a visible wanted place (a different object, not a repeat), nothing is reported *)
Theorem C07_alias_complete_refuted :
  exists lit re_search mt tm sp o d l,
    o_anchors o = false /\ o_expand o = false /\ o_keys o = false /\
    search_doc lit re_search mt tm sp o d = Ok [] /\ vwanted lit re_search tm mt o d l.
Proof.
  exists C07_lit0, C07_re0, [], (mkterms false MEquals "*" "b"), Dot, (mkopts true false false false false false),
         C07_doc_reuse, [RIdx 1].
  split; [reflexivity|]. split; [reflexivity|]. split; [reflexivity|]. split; [vm_compute; reflexivity|].
  left. split; [reflexivity|]. exists (NLeaf (mkinfo 2 (Some "x") true None) (PStr "b")).
  split; [|split; [reflexivity|vm_compute; reflexivity]].
  left. exists [], (RIdx 1), [], C07_doc_reuse. split; [reflexivity|]. split; [constructor|].
  left. exists C07_i0, [NLeaf (mkinfo 1 (Some "x") true None) (PStr "a"); NLeaf (mkinfo 2 (Some "x") true None) (PStr "b")], 1.
  split; [reflexivity|]. split; [reflexivity|]. split; [reflexivity|]. intros _. vm_compute. reflexivity.
Qed.

(* (b) no aliased repeat is reported unless the alias options ask for it: every
       report is a visible satisfying place of its kind.  Guard (finding
       reused_anchor_name): names and objects go together.  The second
       hypothesis, `shared_closed`, is no finding but what the YAML loader
       guarantees (like nodup_keys): an aliased repeat / a merged-in entry IS
       the object met before, so nothing anchored occurs for the first time
       inside it.  (The former guard `exposed` also excluded anchors first
       defined beneath a matched key or beneath the value of an excluded
       aliased key: repaired, record_anchors.) ---- *)
Theorem C07_alias_excluded_partial :
  forall lit re_search (mt : mtable) (tm : terms) (sp : sep) (o : opts) (d : node) (res : list hit),
    o_anchors o = false -> o_expand o = false -> names_consistent (anc_occs d) = true ->
    shared_closed mt o d [] = true ->
    search_doc lit re_search mt tm sp o d = Ok res ->
    forall h, In h res -> vjustified lit re_search tm mt o d h.
Proof. exact alias_excluded. Qed.
Print Assumptions C07_alias_excluded_partial.

(* a visible justified report is a justified report (soundness in the exclusion modes) *)
Theorem C07_alias_visible_sound :
  forall lit re_search (mt : mtable) (tm : terms) (o : opts) (d : node) (h : hit),
    vjustified lit re_search tm mt o d h -> justified lit re_search tm o d h.
Proof. exact vjustified_justified. Qed.
Print Assumptions C07_alias_visible_sound.

(* the former witness of the second half of finding key_match_prunes_subtree:
   {a: {k: &w b}, z: *w} searched for <c with --keynames under --anchorsonly.
   Key a matches, nothing beneath it is searched, but record_anchors puts &w on
   record: the alias z: *w is recognised and no longer reported.  Also
   {&k a: 1, b: {*k : {x: &n v}}, c: *n} searched for =v: &n is first defined
   beneath the value of an excluded aliased key; c: *n is not reported. *)
Definition C07_w : node := NLeaf (mkinfo 5 (Some "w") true None) (PStr "b").
Definition C07_doc_prune : node :=
  NMap C07_i0 [(C07_leaf "a", NMap C07_i0 [(C07_leaf "k", C07_w)]); (C07_leaf "z", C07_w)].
Definition C07_tm_ltc : terms := mkterms false MLt "*" "c".
Definition C07_o_kv_none : opts := mkopts true true false false false false.
Definition C07_ka : node := NLeaf (mkinfo 6 (Some "k") true None) (PStr "a").
Definition C07_nv : node := NLeaf (mkinfo 7 (Some "n") true None) (PStr "v").
Definition C07_doc_keyalias : node :=
  NMap C07_i0 [(C07_ka, NLeaf C07_i0 (PInt 1));
               (C07_leaf "b", NMap C07_i0 [(C07_ka, NMap C07_i0 [(C07_leaf "x", C07_nv)])]);
               (C07_leaf "c", C07_nv)].

Example C07_alias_excluded_repaired :
  names_consistent (anc_occs C07_doc_prune) = true /\
  shared_closed [] C07_o_kv_none C07_doc_prune [] = true /\
  search_doc C07_lit0 C07_re0 [] C07_tm_ltc Dot C07_o_kv_none C07_doc_prune = Ok [mkhit "a" [RKey (PStr "a")] HKey] /\
  names_consistent (anc_occs C07_doc_keyalias) = true /\
  shared_closed [] C07_o_none C07_doc_keyalias [] = true /\
  search_doc C07_lit0 C07_re0 [] (mkterms false MEquals "*" "v") Dot C07_o_none C07_doc_keyalias = Ok [].
Proof. vm_compute. repeat split; reflexivity. Qed.

(* non-vacuity of the guards: {a: &x {k: a}, b: *x, c: {<<: *x}} under --anchorsonly *)
Example C07_alias_guards_hold :
  names_consistent (anc_occs C07_doc3) = true /\
  shared_closed C07_mt3 C07_o_none C07_doc3 [] = true /\
  vwanted C07_lit0 C07_re0 C07_tm_a C07_mt3 C07_o_none C07_doc3 [RKey (PStr "a"); RKey (PStr "k")].
Proof.
  split; [vm_compute; reflexivity|]. split; [vm_compute; reflexivity|].
  left. split; [reflexivity|]. exists (C07_leaf "a"). split; [|split; [reflexivity|vm_compute; reflexivity]].
  left. exists [RKey (PStr "a")], (RKey (PStr "k")), [C07_anch], C07_anch. split; [reflexivity|]. split.
  - apply (vr_entry C07_mt3 C07_o_none [] C07_i0 _ 0 (C07_leaf "a") C07_anch [] [C07_anch] C07_anch).
    + reflexivity.
    + intros [H _]. vm_compute in H. discriminate.
    + intros _. reflexivity.
    + intros _. reflexivity.
    + constructor.
  - right. exists C07_ix, [(C07_leaf "k", C07_leaf "a")], 0, (C07_leaf "k").
    split; [reflexivity|]. split; [reflexivity|]. split; [reflexivity|].
    split; [intros [H _]; vm_compute in H; discriminate|]. split; intros _; reflexivity.
Qed.

(* ---- "prints exactly the search results": process_yaml_file's loop over the
        expressions with its de-duplication by str(path), and print_results in
        the paths-only mode (-F, no -P/-L/-n, one expression or -X)
        (Model/PathsPrint.v): the printed lines are exactly the texts of the
        results of the accepted expressions, each text once.  (The other
        output modes are modelled and tied; the value text of -L is an
        oracle.) ---- *)
Theorem C07_print_exact :
  forall lit re_search value_text (mt : mtable) (sp : sep) (o : opts) (d : node)
         fl exprs file idx lines bad,
    paths_only fl (List.length exprs) ->
    process_doc lit re_search value_text mt sp o d fl exprs file idx = Ok (lines, bad) ->
    (forall line, In line lines -> exists e h, from lit re_search mt sp o d exprs e h /\ hit_str h = Ok line) /\
    (forall e h, from lit re_search mt sp o d exprs e h -> exists line, In line lines /\ hit_str h = Ok line) /\
    NoDup lines.
Proof. exact print_exact. Qed.
Print Assumptions C07_print_exact.

(* two expressions with a common result, a rejected expression, -F -X *)
Example C07_print_example :
  paths_only (mkpflags true true false false false) 3 /\
  process_doc C07_lit0 C07_re0 (fun _ => Ok "") [] Dot C07_o_v C07_doc2
              (mkpflags true true false false false) ["=a"; "x"; "^a"] "f.yaml" 0%Z
  = Ok (["a"; "k[0]"], true).
Proof. split; [repeat split; auto|vm_compute; reflexivity]. Qed.

(* get_search_term through the parser model *)
Example C07_search_term_example :
  get_search_term "!=~/^a/" = Ok (Some (mkterms true MRegex "*" "^a")) /\ get_search_term "a" = Ok None.
Proof. vm_compute. split; reflexivity. Qed.

(* ====================================================================== *)
(* "Every reported path, fed back into a query on the same document in the
   notation it was printed in, resolves to exactly the one node that matched":
   the TEXT part (proofs: Proofs/ResolvePaths.v ResolveTools.v ResolveMain.v;
   vocabulary: Model/PathBuild.v, explained in Properties/C02.v).

   For every path the search reports (any options with --refnames off, expansion
   on or off, any alias mode), for the place [h_loc h] it was reported for and
   the node [n] the document holds there:
     - the text search_for_paths built is [build_path sp (h_loc h)];
     - str() leaves it unchanged, so it IS the printed text (C07_print_exact);
     - the evaluator's required query on it yields exactly one result, the node n
       (with its coordinates [pb_coords]).
   Guards (each a listed finding, witnesses below):
     [pb_safe sp d (h_loc h)]  the keys on the way are ones escape_path_section
                               protects - finding F-C07-2 (unsafe_key_section);
     [seq_plain d]             no sequence element carries an anchor: such an
                               element is printed as [&anchor], which names every
                               node with that anchor name - finding F-C07-4.
   [lookup d (h_loc h) = Some n] says what n is; that the location of a report
   reaches the matched node is C07_resolves_partial.  The evaluator's oracles and
   parameters are universally quantified. *)
From YP Require Import Eval C08Spec PathBuild ResolveEval ResolvePaths ResolveTools.

Theorem C07_resolves_text_partial :
  forall elit ere nstr vstr kw_handler creator
         lit re_search (mt : mtable) (tm : terms) (sp : sep) (o : opts) (d : node) (res : list hit)
         (h : hit) (n : node) (f : nat),
    o_anchors o = false -> seq_plain d = true ->
    search_doc lit re_search mt tm sp o d = Ok res -> In h res ->
    lookup d (h_loc h) = Some n -> pb_safe sp d (h_loc h) = true ->
    h_path h = build_path sp (h_loc h)
    /\ path_str Auto (h_path h) = Ok (h_path h)
    /\ exists p, prepare (S f) (h_path h) = Ok p
                 /\ get_required elit ere nstr vstr kw_handler creator p d = ([pb_coords d (h_loc h) n], Done).
Proof. exact paths_text_resolves. Qed.
Print Assumptions C07_resolves_text_partial.

(* the text alone, for every report whose keys are protected (no other guard on the keys) *)
Theorem C07_reported_text_partial :
  forall lit re_search (mt : mtable) (tm : terms) (sp : sep) (o : opts) (d : node) (res : list hit),
    o_anchors o = false -> seq_plain d = true ->
    search_doc lit re_search mt tm sp o d = Ok res ->
    forall h, In h res -> okl sp (h_loc h) = true -> h_path h = build_path sp (h_loc h).
Proof. exact reported_text. Qed.
Print Assumptions C07_reported_text_partial.

(* ---- non-vacuity: keys with every escapable character, nested sequences,
   both notations, expansion ---- *)
Definition C07_esc_key : string := "a\b.c/d(e)f[g]h^i$j%k l'm""n".
Definition C07_doc_esc : node :=
  NMap C07_i0 [ (C07_leaf C07_esc_key,
                 NSeq C07_i0 [ C07_leaf "x";
                               NSeq C07_i0 [ NMap C07_i0 [ (C07_leaf "p q", C07_leaf "hit") ] ] ]);
                (C07_leaf "z", C07_leaf "hit") ].
Definition C07_tm_hit : terms := mkterms false MEquals "*" "hit".
Definition C07_re_eq : string -> string -> outcome reres := fun _ _ => Ok (RMatch false).
Definition C07_kw0 (_ : bool) (_ : keyword) (_ : string) (_ : rval) (_ : ctx) : gen rval := gnil.
Definition C07_cr0 (_ : list pseg) (_ : nat) (_ : rval) (_ : ctx) : gen rval := gnil.

Example C07_resolves_text_nonvacuous :
  seq_plain C07_doc_esc = true
  /\ omap (map (fun h => (h_path h, h_loc h))) (search_doc C07_lit0 C07_re0 [] C07_tm_hit Slash C07_o_v C07_doc_esc)
     = Ok [ ("/a\\b.c\/d\(e\)f\[g\]h\^i\$j\%k\ l\'m\""n[1][0]/p\ q",
             [RKey (PStr C07_esc_key); RIdx 1; RIdx 0; RKey (PStr "p q")]);
            ("/z", [RKey (PStr "z")]) ]
  /\ pb_safe Slash C07_doc_esc [RKey (PStr C07_esc_key); RIdx 1; RIdx 0; RKey (PStr "p q")] = true
  /\ pb_safe Dot C07_doc_esc [RKey (PStr C07_esc_key); RIdx 1; RIdx 0; RKey (PStr "p q")] = true
  /\ lookup C07_doc_esc [RKey (PStr C07_esc_key); RIdx 1; RIdx 0; RKey (PStr "p q")] = Some (C07_leaf "hit")
  /\ omap (map h_path) (search_doc C07_lit0 C07_re0 [] C07_tm_hit Dot C07_o_v C07_doc_esc)
     = Ok [ "a\\b\.c/d\(e\)f\[g\]h\^i\$j\%k\ l\'m\""n[1][0].p\ q"; "z" ].
Proof. vm_compute. repeat split; reflexivity. Qed.

(* ---- the guards are needed ---- *)
(* F-C07-2: {"a*": hit, "ab": x} - the reported text a* is re-read as a search and
   selects both values;  F-C07-4: [&x hit, &x other] (a redefined anchor name) -
   the element is printed as [&x], which selects both elements *)
Definition C07_requery (sp : sep) (d : node) (t : string) : option (list N) :=
  match prepare 5 t with
  | Ok p => Some (map (fun x => match x with RCoords (RNode n) _ _ _ _ => node_oid n | _ => 999%N end)
                      (fst (get_required C07_lit0 C07_re_eq (fun _ => "") (fun _ => "") C07_kw0 C07_cr0 p d)))
  | _ => None
  end.
Definition C07_doc_star : node :=
  NMap C07_i0 [ (C07_leaf "a*", NLeaf (mkinfo 1 None false None) (PStr "hit"));
                (C07_leaf "ab", NLeaf (mkinfo 2 None false None) (PStr "x")) ].
Definition C07_doc_anchored : node :=
  NSeq C07_i0 [ NLeaf (mkinfo 1 (Some "x") true None) (PStr "hit"); NLeaf (mkinfo 2 (Some "x") true None) (PStr "other") ].

Theorem C07_resolves_text_refuted :
  (omap (map (fun h => (h_path h, h_loc h))) (search_doc C07_lit0 C07_re0 [] C07_tm_hit Dot C07_o_v C07_doc_star)
     = Ok [("a*", [RKey (PStr "a*")])]
   /\ pb_safe Dot C07_doc_star [RKey (PStr "a*")] = false
   /\ C07_requery Dot C07_doc_star "a*" = Some [1; 2]%N)
  /\ (omap (map (fun h => (h_path h, h_loc h))) (search_doc C07_lit0 C07_re0 [] C07_tm_hit Dot C07_o_v C07_doc_anchored)
        = Ok [("[&x]", [RIdx 0])]
      /\ seq_plain C07_doc_anchored = false
      /\ pb_safe Dot C07_doc_anchored [RIdx 0] = true
      /\ build_path Dot [RIdx 0] = "[0]"
      /\ C07_requery Dot C07_doc_anchored "[&x]" = Some [1; 2]%N).
Proof. vm_compute. repeat split; reflexivity. Qed.

(* ==================================================================== *)
(* The loader guarantee [shared_closed] is no longer an assumption: it FOLLOWS,
   for every combination of the options, from the computable document
   well-formedness [doc_wf d] (neither the options nor the merge table in it) =
     same_oid_same_tree d   two anchored occurrences that are one object (same
                            oid) are the same tree - what sharing an alias
                            object means for a tree that repeats a shared
                            object wherever it is reachable;
     c07_keys_leaf d        mapping keys and set members are scalars.
   (A third part, merged_closed - a merged-in entry holds only anchored objects
   met before - was a real restriction, false for an inline merge source that
   first defines an anchor; it is gone since search_for_paths / yield_children
   walk a hidden merged-in entry with record_anchors.)
   harness/c07.py evaluates the EXTRACTED predicate on every encoded document
   of every run (request paths-docwf), next to an independent evaluation on the
   real object graph, so the hypothesis is tested on real loaded documents. *)
From YP Require Import PathsDocWf PathsDocWfMain.

Theorem C07_shared_closed_from_wf :
  forall (mt : mtable) (d : node), doc_wf d = true -> forall o, shared_closed mt o d [] = true.
Proof. exact doc_wf_shared_closed. Qed.
Print Assumptions C07_shared_closed_from_wf.

Theorem C07_alias_excluded_wf_partial :
  forall lit re_search (mt : mtable) (tm : terms) (sp : sep) (o : opts) (d : node) (res : list hit),
    o_anchors o = false -> o_expand o = false -> names_consistent (anc_occs d) = true ->
    doc_wf d = true ->
    search_doc lit re_search mt tm sp o d = Ok res ->
    forall h, In h res -> vjustified lit re_search tm mt o d h.
Proof. exact alias_excluded_wf. Qed.
Print Assumptions C07_alias_excluded_wf_partial.

(* the former witness C07_inline_merge_refuted, now a positive example:
   `a: {<<: {k: &v hit}}` / `b: *v`, =hit.  The merge source is an inline mapping
   that defines &v for the first time.  With the default alias options the
   merged-in a.k is hidden but walked by record_anchors, so &v is on record, the
   alias b is an aliased repeat (is_repeat) and nothing is reported (was: ['b']);
   [doc_wf] and [names_consistent] hold, so C07_alias_excluded_wf_partial applies
   to this document.  With both alias options on, a.k and b are reported.  With
   an own key j: *v in front of the merge (items() order: own keys first) a.j is
   the original and is the one report. *)
Example C07_inline_merge_repaired :
  doc_wf dw_doc = true /\ names_consistent (anc_occs dw_doc) = true /\
  shared_closed dw_mt dw_opts dw_doc [] = true /\
  is_repeat (flat_map entry_occs (firstn 1 [(dw_leaf 1 "a", NMap (dw_i 2) [(dw_leaf 3 "k", dw_v)])])) dw_v = true /\
  search_doc dw_lit dw_re dw_mt (mkterms false MEquals "*" "hit") Dot dw_opts dw_doc = Ok [] /\
  search_doc dw_lit dw_re dw_mt (mkterms false MEquals "*" "hit") Dot dw_opts_all dw_doc =
    Ok [mkhit "a.k" [RKey (PStr "a"); RKey (PStr "k")] HValue; mkhit "b" [RKey (PStr "b")] HValue] /\
  search_doc dw_lit dw_re dw_mt_j (mkterms false MEquals "*" "hit") Dot dw_opts dw_doc_j =
    Ok [mkhit "a.j" [RKey (PStr "a"); RKey (PStr "j")] HValue].
Proof. exact inline_merge_repaired. Qed.

(* non-vacuity: anchor + merge through an alias + alias of a value *)
Example C07_doc_wf_example :
  doc_wf dw_doc2 = true /\ names_consistent (anc_occs dw_doc2) = true /\
  search_doc dw_lit dw_re dw_mt2 (mkterms false MEquals "*" "hit") Dot dw_opts dw_doc2 =
    Ok [mkhit "x.k" [RKey (PStr "x"); RKey (PStr "k")] HValue].
Proof. exact doc_wf_example. Qed.

Example C07_doc_wf_guards_hold :
  doc_wf C07_doc3 = true /\ doc_wf C07_doc_prune = true /\ doc_wf C07_doc_keyalias = true.
Proof. vm_compute. repeat split; reflexivity. Qed.

(* ==================================================================== *)
(* "each at most once" in EVERY mode: all four alias-inclusion modes (the
   exclusion modes included), every key mode, expansion on or off, any document
   with anchors / aliases / merge keys - refnames off.  (C07_once needed
   [transparent] and expansion off.) *)
From YP Require Import PathsOnce.

Theorem C07_once_any_mode :
  forall lit re_search (mt : mtable) (tm : terms) (sp : sep) (o : opts) (d : node) (res : list hit),
    o_anchors o = false -> nodup_keys d ->
    search_doc lit re_search mt tm sp o d = Ok res -> NoDup (map h_loc res).
Proof. exact once_any_mode. Qed.
Print Assumptions C07_once_any_mode.

Example C07_once_any_mode_hyps :
  o_anchors C07_o_none = false /\ nodup_keys C07_doc3 /\
  exists res, search_doc C07_lit0 C07_re0 C07_mt3 C07_tm_a Dot C07_o_none C07_doc3 = Ok res /\ res <> [].
Proof.
  split; [reflexivity|]. split.
  - simpl. repeat split; repeat constructor; simpl; intuition discriminate.
  - eexists. split; [vm_compute; reflexivity | discriminate].
Qed.

(* Every remaining statement of this file, so that none is left unaudited. *)
Print Assumptions C07_complete_refuted.
Print Assumptions C07_alias_classified.
Print Assumptions C07_alias_value_excluded.
Print Assumptions C07_alias_reused_name_refuted.
Print Assumptions C07_alias_complete_refuted.
Print Assumptions C07_resolves_text_refuted.
