(* C07 -- yaml-paths search is sound and complete, and every printed path
   resolves.  Statements only; proofs live in Proofs/PathsEnum.v (model = pure
   enumeration), Proofs/PathsSpec.v (enumeration = declarative places),
   Proofs/PathsLeaves.v (expansion) and Proofs/PathsMain.v.

   Model: Model/PathsSearch.v (search_for_paths, yield_children,
   search_anchor, get_search_term as they are after the five `fix:` commits).
   Spec: Spec/SpecC07.v (places of a document, `satisfies`, `justified`,
   `wanted`, `leaf_place`).

   `transparent mt o d` = "d has no anchors and no merge keys" OR "both alias
   options are on": the cases in which every place counts.  lit / re_search are
   the ast.literal_eval / re oracles: every theorem holds for all of them.
   All theorems are about runs that end normally (search_doc ... = Ok res); a
   run ends abnormally only when search_matches raises (invalid regular
   expression: C12/C15's subject). *)
From Coq Require Import List Ascii String ZArith NArith Bool.
From YP Require Import Outcome PyStr PyVal Doc Generated PathParser PathPrinter Searches PathsSearch
     SpecC07 PathsEnum PathsSpec PathsLeaves PathsMain PathsResolve.
Import ListNotations.
Open Scope string_scope.

(* ---- nothing but satisfying places is reported ---- *)
Theorem C07_sound :
  forall lit re_search (mt : mtable) (tm : terms) (sp : sep) (o : opts) (d : node) (res : list hit),
    o_anchors o = false -> o_expand o = false -> transparent mt o d ->
    search_doc lit re_search mt tm sp o d = Ok res ->
    forall h, In h res -> justified lit re_search tm o d h.
Proof. exact sound. Qed.
Print Assumptions C07_sound.

(* ---- full-strength completeness is false of the code: a matching key hides
        the satisfying places beneath it (known finding key_match_prunes_subtree) ---- *)
Definition C07_i0 : info := mkinfo 0 None false None.
Definition C07_leaf (s : string) : node := NLeaf C07_i0 (PStr s).
Definition C07_lit0 : string -> outcome litres := fun _ => Ok LFail.     (* literal_eval("a") etc. raise ValueError *)
Definition C07_re0 : string -> string -> outcome reres := fun _ _ => Ok (RMatch false).
(* {a: {b: a}}  searched for  =a  with --keynames *)
Definition C07_wdoc : node := NMap C07_i0 [(C07_leaf "a", NMap C07_i0 [(C07_leaf "b", C07_leaf "a")])].
Definition C07_tm_a : terms := mkterms false MEquals "*" "a".
Definition C07_o_kv : opts := mkopts true true false true false false.

Theorem C07_complete_refuted :
  exists lit re_search mt tm sp o d res l,
    o_anchors o = false /\ o_expand o = false /\ transparent mt o d /\ nodup_keys d /\
    search_doc lit re_search mt tm sp o d = Ok res /\
    wanted lit re_search tm o d l /\
    ~ (exists h, In h res /\ h_loc h = l).
Proof.
  exists C07_lit0, C07_re0, [], C07_tm_a, Dot, C07_o_kv, C07_wdoc,
         [mkhit "a" [RKey (PStr "a")] HKey], [RKey (PStr "a"); RKey (PStr "b")].
  split; [reflexivity|]. split; [reflexivity|]. split; [right; split; reflexivity|].
  split; [simpl; repeat constructor; simpl; tauto|].
  split; [vm_compute; reflexivity|]. split.
  - left. split; [reflexivity|]. exists (PStr "a"). split; [|vm_compute; reflexivity].
    exists [RKey (PStr "a")], (NMap C07_i0 [(C07_leaf "b", C07_leaf "a")]), (RKey (PStr "b")), C07_i0.
    split; [reflexivity|]. split.
    + apply (reach_step C07_wdoc (key_ref (C07_leaf "a")) (NMap C07_i0 [(C07_leaf "b", C07_leaf "a")])).
      * constructor. left; reflexivity.
      * constructor.
    + apply (child_map C07_i0 [(C07_leaf "b", C07_leaf "a")] (C07_leaf "b") (C07_leaf "a")). left; reflexivity.
  - intros [h [[<-|[]] E]]. discriminate.
Qed.

(* ---- completeness with the guard: every wanted place is reported, or lies
        beneath a reported matching key ---- *)
Theorem C07_complete_partial :
  forall lit re_search (mt : mtable) (tm : terms) (sp : sep) (o : opts) (d : node) (res : list hit),
    o_anchors o = false -> o_expand o = false -> transparent mt o d ->
    search_doc lit re_search mt tm sp o d = Ok res ->
    forall l, wanted lit re_search tm o d l ->
    exists h, In h res /\ prefix (h_loc h) l /\ (h_loc h = l \/ (h_kind h = HKey /\ o_keys o = true)).
Proof. exact complete_cover. Qed.
Print Assumptions C07_complete_partial.

(* ---- values-only search (the default): completeness at full strength ---- *)
Theorem C07_complete :
  forall lit re_search (mt : mtable) (tm : terms) (sp : sep) (o : opts) (d : node) (res : list hit),
    o_anchors o = false -> o_expand o = false -> transparent mt o d -> o_keys o = false ->
    search_doc lit re_search mt tm sp o d = Ok res ->
    forall l, wanted lit re_search tm o d l -> exists h, In h res /\ h_loc h = l.
Proof. exact complete_values. Qed.
Print Assumptions C07_complete.

(* ---- each place at most once ---- *)
Theorem C07_once :
  forall lit re_search (mt : mtable) (tm : terms) (sp : sep) (o : opts) (d : node) (res : list hit),
    o_anchors o = false -> o_expand o = false -> transparent mt o d -> nodup_keys d ->
    search_doc lit re_search mt tm sp o d = Ok res ->
    NoDup (map h_loc res).
Proof. exact once. Qed.
Print Assumptions C07_once.

(* ---- alias modes.  With both alias options on (--allowaliases) every
        aliased repeat and every merged-in key counts: for ANY document
        (anchors, aliases, merge keys) the three theorems above apply, since
        `transparent` holds by its first disjunct. ---- *)
Theorem C07_alias_modes :
  forall lit re_search (mt : mtable) (tm : terms) (sp : sep) (o : opts) (d : node) (res : list hit),
    o_anchors o = false -> o_expand o = false -> o_kalias o = true -> o_valias o = true -> nodup_keys d ->
    search_doc lit re_search mt tm sp o d = Ok res ->
    (forall h, In h res -> justified lit re_search tm o d h) /\
    (forall l, wanted lit re_search tm o d l ->
               exists h, In h res /\ prefix (h_loc h) l /\ (h_loc h = l \/ (h_kind h = HKey /\ o_keys o = true))) /\
    NoDup (map h_loc res).
Proof.
  intros lit re_search mt tm sp o d res Ha Hx Hk Hv Hn E.
  assert (Ht : transparent mt o d) by (left; auto).
  split; [eapply sound; eauto|]. split; [eapply complete_cover; eauto|eapply once; eauto].
Qed.
Print Assumptions C07_alias_modes.

(* The other modes, step level: a node whose anchor name was already met is
   classified as an alias, and an aliased value yields nothing (nor is it
   descended into) unless value aliases are included. *)
Theorem C07_alias_classified :
  forall lit re_search tm o x seen b name,
    o_anchors o = false -> get_node_anchor x = Some name ->
    search_anchor lit re_search tm o x seen b =
    Ok (if mem_string name seen then UnsearchableAlias else UnsearchableAnchor,
        if mem_string name seen then seen else (seen ++ [name])%list).
Proof. exact alias_classified. Qed.

Theorem C07_alias_value_excluded :
  forall lit re_search mt tm sp o rec v tmp lc seen,
    o_valias o = false ->
    value_part lit re_search mt tm sp o rec UnsearchableAlias v tmp lc seen = Ok ([], seen).
Proof. exact alias_value_excluded. Qed.

(* ---- expansion: yield_children reports exactly the leaf descendants ---- *)
Theorem C07_expand :
  forall lit re_search (mt : mtable) (tm : terms) (sp : sep) (o : opts) (n : node),
    o_anchors o = false -> transparent mt o n ->
    forall bp lc kd seen r,
      yield_children lit re_search mt tm sp o n bp lc kd seen = Ok r ->
      (forall h, In h (fst r) -> h_kind h = HChild kd) /\
      (forall l, In l (map h_loc (fst r)) <-> exists l', l = (lc ++ l')%list /\ leaf_place n l').
Proof. exact yield_children_leaves. Qed.
Print Assumptions C07_expand.

(* with expansion on, the whole search lists the enumeration in which a matched
   key is replaced by the leaf descendants of its value (PathsEnum.key_hit_enum) *)
Theorem C07_expand_search :
  forall lit re_search (mt : mtable) (tm : terms) (sp : sep) (o : opts) (d : node) (res : list hit),
    o_anchors o = false -> transparent mt o d ->
    search_doc lit re_search mt tm sp o d = Ok res ->
    map h_lk res = enum lit re_search tm o d [].
Proof. exact search_doc_enum. Qed.
Print Assumptions C07_expand_search.

(* ---- "every reported path resolves", the part provable without the query
        evaluator: the location a report stands for, walked position by
        position (keys -> RKey, [n] -> RIdx), reaches the matched node -- the
        satisfying scalar for a value report, the value under the satisfying
        key for a key report.  Missing: that the printed TEXT parses to
        segments naming this location (C08's escape/parse round trip; false for
        the keys of known finding unsafe_key_section) and that the evaluator
        follows them (C01/C02).  Checked on the real code by the harness. ---- *)
Theorem C07_resolves_partial :
  forall lit re_search (mt : mtable) (tm : terms) (sp : sep) (o : opts) (d : node) (res : list hit),
    o_anchors o = false -> o_expand o = false -> transparent mt o d ->
    search_doc lit re_search mt tm sp o d = Ok res ->
    forall h, In h res -> resolves_to lit re_search tm d h.
Proof. exact resolves_location. Qed.
Print Assumptions C07_resolves_partial.

(* ---- alias recognition goes by anchor NAME: with a redefined name a
        different node is excluded as an "alias" (known finding
        reused_anchor_name).  [&x a, &x b] searched for =b under --anchorsonly ---- *)
Definition C07_doc_reuse : node :=
  NSeq C07_i0 [NLeaf (mkinfo 1 (Some "x") true None) (PStr "a"); NLeaf (mkinfo 2 (Some "x") true None) (PStr "b")].

Theorem C07_alias_reused_name_refuted :
  exists lit re_search mt tm sp o d l,
    o_anchors o = false /\ o_expand o = false /\ o_keys o = false /\
    search_doc lit re_search mt tm sp o d = Ok [] /\ wanted lit re_search tm o d l.
Proof.
  exists C07_lit0, C07_re0, [], (mkterms false MEquals "*" "b"), Dot, (mkopts true false false false false false),
         C07_doc_reuse, [RIdx 1].
  split; [reflexivity|]. split; [reflexivity|]. split; [reflexivity|]. split; [vm_compute; reflexivity|].
  left. split; [reflexivity|]. exists (PStr "b"). split; [|vm_compute; reflexivity].
  exists [], C07_doc_reuse, (RIdx 1), (mkinfo 2 (Some "x") true None). split; [reflexivity|].
  split; [constructor|]. apply child_seq. reflexivity.
Qed.

(* ---- non-vacuity ---- *)
(* {a: a, k: [a, b], s: {a: 1}} : anchor-free, distinct keys *)
Definition C07_doc2 : node :=
  NMap C07_i0 [(C07_leaf "a", C07_leaf "a");
               (C07_leaf "k", NSeq C07_i0 [C07_leaf "a"; C07_leaf "b"]);
               (C07_leaf "s", NMap C07_i0 [(C07_leaf "a", NLeaf C07_i0 (PInt 1))])].
Definition C07_o_v : opts := mkopts true false false true false false.
Definition C07_o_kx : opts := mkopts true true false true false true.

Example C07_hyps_hold :
  transparent [] C07_o_v C07_doc2 /\ nodup_keys C07_doc2 /\
  search_doc C07_lit0 C07_re0 [] C07_tm_a Dot C07_o_v C07_doc2 =
  Ok [mkhit "a" [RKey (PStr "a")] HValue; mkhit "k[0]" [RKey (PStr "k"); RIdx 0] HValue].
Proof.
  split; [right; split; reflexivity|]. split; [|vm_compute; reflexivity].
  simpl. repeat split; repeat constructor; simpl; intuition discriminate.
Qed.

Example C07_keys_example :
  search_doc C07_lit0 C07_re0 [] C07_tm_a Slash C07_o_kv C07_doc2 =
  Ok [mkhit "/a" [RKey (PStr "a")] HKey; mkhit "/k[0]" [RKey (PStr "k"); RIdx 0] HValue;
      mkhit "/s/a" [RKey (PStr "s"); RKey (PStr "a")] HKey].
Proof. vm_compute. reflexivity. Qed.

(* expansion of the matched parent `k` by --expand with the expression =k *)
Example C07_expand_example :
  search_doc C07_lit0 C07_re0 [] (mkterms false MEquals "*" "k") Dot C07_o_kx C07_doc2 =
  Ok [mkhit "k[0]" [RKey (PStr "k"); RIdx 0] (HChild HKey); mkhit "k[1]" [RKey (PStr "k"); RIdx 1] (HChild HKey)].
Proof. vm_compute. reflexivity. Qed.

(* --allowaliases on a document with an anchor, two aliases and a merge key:
   {a: &x {k: a}, b: *x, c: {<<: *x}} ; every repeat is reported *)
Definition C07_ix : info := mkinfo 1 (Some "x") true None.
Definition C07_anch : node := NMap C07_ix [(C07_leaf "k", C07_leaf "a")].
Definition C07_doc3 : node :=
  NMap C07_i0 [(C07_leaf "a", C07_anch); (C07_leaf "b", C07_anch);
               (C07_leaf "c", NMap (mkinfo 2 None true None) [(C07_leaf "k", C07_leaf "a")])].
Definition C07_mt3 : mtable := [(2%N, mkminfo [0] [C07_anch])].
Definition C07_o_all : opts := mkopts true false false true true false.
Definition C07_o_none : opts := mkopts true false false false false false.

Example C07_alias_all_example :
  search_doc C07_lit0 C07_re0 C07_mt3 C07_tm_a Dot C07_o_all C07_doc3 =
  Ok [mkhit "a.k" [RKey (PStr "a"); RKey (PStr "k")] HValue; mkhit "b.k" [RKey (PStr "b"); RKey (PStr "k")] HValue;
      mkhit "c.k" [RKey (PStr "c"); RKey (PStr "k")] HValue].
Proof. vm_compute. reflexivity. Qed.

Example C07_alias_none_example :
  search_doc C07_lit0 C07_re0 C07_mt3 C07_tm_a Dot C07_o_none C07_doc3 =
  Ok [mkhit "a.k" [RKey (PStr "a"); RKey (PStr "k")] HValue].
Proof. vm_compute. reflexivity. Qed.

(* get_search_term through the parser model *)
Example C07_search_term_example :
  get_search_term "!=~/^a/" = Ok (Some (mkterms true MRegex "*" "^a")) /\ get_search_term "a" = Ok None.
Proof. vm_compute. split; reflexivity. Qed.
