(* C01 -- Query results equal the documented YAML Path segment semantics.
   Statements only; proofs live in Proofs/EvalSem.v.

   What is proved here (for every document, every context, every oracle):
   the segment handlers of the evaluator model select exactly the nodes the
   declarative segment semantics of Spec/SpecC01.v select -- same node objects
   (Doc.node values carry the object identity), same order, each once -- for
   key on a hash, anchor, and wildcard segments; and exists() is exactly
   "the required query yields a node".
   What is NOT proved (see docs/C01.md): the path-level statement
   required d p = sem p (root d) for whole paths (composition through the
   fuelled drivers, list pass-through, searches, `**`).  That statement is
   evaluated on every run by the reference of harness/c01.py against the real
   code; it is refuted for optional queries (F10) and for descendant searches
   reaching several nodes (F12a), witnesses below. *)
From Coq Require Import List Ascii String ZArith NArith Bool.
From YP Require Import Outcome PyStr PyVal Doc Generated PathParser PathPrinter Searches Eval SpecC01 EvalSem.
Import ListNotations.
Open Scope string_scope.

Theorem C01_key_on_hash :
  forall self k i kvs c,
    let g := by_key self (AStr k) (RNode (NMap i kvs)) c in
    snd g = Done /\ nodes_of (fst g) = sel_key_map k kvs.
Proof. exact by_key_map. Qed.
Print Assumptions C01_key_on_hash.

Theorem C01_anchor :
  forall a v c (n : node),
    v = RNode n ->
    let g := by_anchor (AStr a) v c in
    snd g = Done /\ nodes_of (fst g) = sel_anchor a n.
Proof. exact by_anchor_node. Qed.
Print Assumptions C01_anchor.

Theorem C01_wildcard_children :
  forall v c (n : node),
    v = RNode n ->
    let g := match_all_unfiltered v c in
    snd g = Done /\ nodes_of (fst g) = sel_children n.
Proof. exact match_all_children. Qed.
Print Assumptions C01_wildcard_children.

Theorem C01_exists_iff :
  forall lit re_search nstr vstr kw_handler creator p d b,
    exists_ lit re_search nstr vstr kw_handler creator p d = ([b], Done) ->
    (b = true <-> fst (get_required lit re_search nstr vstr kw_handler creator p d) <> []).
Proof. exact exists_iff_required. Qed.
Print Assumptions C01_exists_iff.

(* ---- witnesses ---- *)
Definition lit2 (s : string) : outcome litres :=
  Ok (match py_int s with Some z => LVal (PInt z) | None => LFail end).
Definition re2 (_ _ : string) : outcome reres := Ok (RMatch false).
Definition nstr2 (_ : node) : string := "".
Definition vstr2 (_ : list rval) : string := "".
Definition kw2 (_ : bool) (_ : keyword) (_ : string) (_ : rval) (_ : ctx) : gen rval := gnil.
Definition cr2 (_ : list pseg) (_ : nat) (_ : rval) (_ : ctx) : gen rval := ([], Mut 0 PNone).
Definition inf2 (n : N) : info := mkinfo n None false None.
Definition leaf2 (n : N) (v : pyval) : node := NLeaf (inf2 n) v.
Definition oids (g : gen rval) : list N * stop :=
  (map node_oid (nodes_of (fst g)), snd g).

(* [{a: null}, {a: {b: 1}}] *)
Definition doc_f10 : node :=
  NSeq (inf2 0) [NMap (inf2 1) [(leaf2 2 (PStr "a"), leaf2 3 PNone)];
                 NMap (inf2 4) [(leaf2 2 (PStr "a"), NMap (inf2 5) [(leaf2 6 (PStr "b"), leaf2 7 (PInt 1))])]].

(* F10: on an existing path the optional query returns an extra node -- the
   null intermediate value -- so "optional = required on an existing path"
   is false. *)
Theorem C01_optional_on_existing_refuted :
  match prepare 10 "a.b" with
  | Ok p => oids (get_required lit2 re2 nstr2 vstr2 kw2 cr2 p doc_f10) = ([7%N], Done) /\
            oids (get_optional lit2 re2 nstr2 vstr2 kw2 cr2 p doc_f10) = ([3%N; 7%N], Done)
  | _ => False
  end.
Proof. vm_compute. split; reflexivity. Qed.

(* [{a: {x: 2, y: 1}}] : the element HAS a descendant a.* equal to 1, but the
   list loop of _get_nodes_by_search only looks at the first one (F12a). *)
Definition doc_f12 : node :=
  NSeq (inf2 0) [NMap (inf2 1) [(leaf2 2 (PStr "a"),
     NMap (inf2 3) [(leaf2 4 (PStr "x"), leaf2 5 (PInt 2)); (leaf2 6 (PStr "y"), leaf2 7 (PInt 1))])]].
Theorem C01_descendant_search_first_only_refuted :
  match prepare 12 "[a.*=1]" with
  | Ok p => oids (get_required lit2 re2 nstr2 vstr2 kw2 cr2 p doc_f12) = ([], Err (YPE Unmatched))
  | _ => False
  end.
Proof. vm_compute. reflexivity. Qed.

(* Non-vacuity: a path through key, pass-through, search and wildcard selects the expected objects. *)
Example C01_query_example :
  match prepare 20 "[a.b=1].a.*" with
  | Ok p => oids (get_required lit2 re2 nstr2 vstr2 kw2 cr2 p doc_f10) = ([7%N], Done)
  | _ => False
  end.
Proof. vm_compute. reflexivity. Qed.

Example C01_notation_example :
  match prepare 20 "a.b", prepare 20 "/a/b" with
  | Ok p, Ok q => oids (get_required lit2 re2 nstr2 vstr2 kw2 cr2 p doc_f10)
                  = oids (get_required lit2 re2 nstr2 vstr2 kw2 cr2 q doc_f10)
  | _, _ => False
  end.
Proof. vm_compute. reflexivity. Qed.
