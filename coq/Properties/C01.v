(* C01 -- Query results equal the documented YAML Path segment semantics.
   Statements only; proofs live in Proofs/EvalSem*.v and Proofs/SpecC01Facts.v.

   PATH LEVEL (second half of this file): for every document and every prepared
   path of the C01 fragment the required query of the model yields exactly
   [sem_doc p d] of Spec/SpecC01.v -- same node objects, same order, none
   missing, none extra, and the stream ends normally -- wherever the
   specification speaks and outside the two listed findings (computable guard:
   the strict reading of the specification carries no SOut marker).

   SEGMENT LEVEL (first half, older):

   What is proved here (for every document, every context, every oracle):
   the segment handlers of the evaluator model select exactly the nodes the
   declarative segment semantics of Spec/SpecC01.v select -- same node objects
   (Doc.node values carry the object identity), same order, each once -- for
   key on a hash, anchor, and wildcard segments; and exists() is exactly
   "the required query yields a node".
   What is NOT proved (see docs/C01.md): the path-level statement
   required d p = sem p (root d) for whole paths (composition through the
   fuelled drivers, list pass-through, searches, `**`).  That statement is
   evaluated on every run by the reference of harness/c01.py against the real
   code; it is refuted for descendant searches reaching several nodes (F12a),
   witness below (the optional-query witness F10 was repaired: fix 09e1e7a). *)
From Coq Require Import List Ascii String ZArith NArith Bool.
From YP Require Import Outcome PyStr PyVal Doc Generated PathParser PathPrinter Searches Eval SpecC01 EvalSem
  EvalSemLib EvalSemPath EvalSemTop SpecC01Facts C08Spec.
Import ListNotations.
Open Scope string_scope.

Theorem C01_key_on_hash :
  forall self k i kvs c,
    let g := by_key self (AStr k) (RNode (NMap i kvs)) c in
    snd g = Done /\ nodes_of (fst g) = sel_key_map k kvs.
Proof. exact by_key_map. Qed.
Print Assumptions C01_key_on_hash.

Theorem C01_anchor :
  forall a v c (n : node),
    v = RNode n ->
    let g := by_anchor (AStr a) v c in
    snd g = Done /\ nodes_of (fst g) = sel_anchor a n.
Proof. exact by_anchor_node. Qed.
Print Assumptions C01_anchor.

Theorem C01_wildcard_children :
  forall v c (n : node),
    v = RNode n ->
    let g := match_all_unfiltered v c in
    snd g = Done /\ nodes_of (fst g) = sel_children n.
Proof. exact match_all_children. Qed.
Print Assumptions C01_wildcard_children.

Theorem C01_exists_iff :
  forall lit re_search nstr vstr kw_handler creator p d b,
    exists_ lit re_search nstr vstr kw_handler creator p d = ([b], Done) ->
    (b = true <-> fst (get_required lit re_search nstr vstr kw_handler creator p d) <> []).
Proof. exact exists_iff_required. Qed.
Print Assumptions C01_exists_iff.

(* ---- witnesses ---- *)
Definition lit2 (s : string) : outcome litres :=
  Ok (match py_int s with Some z => LVal (PInt z) | None => LFail end).
Definition re2 (_ _ : string) : outcome reres := Ok (RMatch false).
Definition nstr2 (_ : node) : string := "".
Definition vstr2 (_ : list rval) : string := "".
Definition kw2 (_ : bool) (_ : keyword) (_ : string) (_ : rval) (_ : ctx) : gen rval := gnil.
Definition cr2 (_ : list pseg) (_ : nat) (_ : rval) (_ : ctx) : gen rval := ([], Mut 0 PNone).
Definition inf2 (n : N) : info := mkinfo n None false None.
Definition leaf2 (n : N) (v : pyval) : node := NLeaf (inf2 n) v.
Definition oids (g : gen rval) : list N * stop :=
  (map node_oid (nodes_of (fst g)), snd g).

(* [{a: null}, {a: {b: 1}}] *)
Definition doc_f10 : node :=
  NSeq (inf2 0) [NMap (inf2 1) [(leaf2 2 (PStr "a"), leaf2 3 PNone)];
                 NMap (inf2 4) [(leaf2 2 (PStr "a"), NMap (inf2 5) [(leaf2 6 (PStr "b"), leaf2 7 (PInt 1))])]].

(* The witness of the former C01_optional_on_existing_refuted (F10, repaired by
   fix 09e1e7a): the optional walk used to stop at the null value of the first
   `a` and yield it - ([3; 7], Done) for a.b.  It now walks on through the null:
   a non-creatable continuation selects what the required query selects (the
   guard [opt_ok] holds, so this is an instance of the theorem below), and a
   KEY continuation finds the path missing in that branch and builds it beneath
   the null (the creating query, F16b). *)
Example C01_optional_walks_through_null :
  match prepare 10 "a.*", prepare 10 "a.b" with
  | Ok (PPath segs), Ok p2 =>
      opt_ok lit2 re2 nstr2 vstr2 kw2 cr2 (fuel_for (PPath segs)) segs 0 (RNode doc_f10) root_ctx = true /\
      oids (get_required lit2 re2 nstr2 vstr2 kw2 cr2 (PPath segs) doc_f10) = ([7%N], Done) /\
      oids (get_optional lit2 re2 nstr2 vstr2 kw2 cr2 (PPath segs) doc_f10) = ([7%N], Done) /\
      oids (get_required lit2 re2 nstr2 vstr2 kw2 cr2 p2 doc_f10) = ([7%N], Done) /\
      get_optional lit2 re2 nstr2 vstr2 kw2 cr2 p2 doc_f10 = ([], Mut 0 PNone)
  | _, _ => False
  end.
Proof. vm_compute. repeat split. Qed.

(* [{a: {x: 2, y: 1}}] : the element HAS a descendant a.* equal to 1, but the
   list loop of _get_nodes_by_search only looks at the first one (F12a). *)
Definition doc_f12 : node :=
  NSeq (inf2 0) [NMap (inf2 1) [(leaf2 2 (PStr "a"),
     NMap (inf2 3) [(leaf2 4 (PStr "x"), leaf2 5 (PInt 2)); (leaf2 6 (PStr "y"), leaf2 7 (PInt 1))])]].
Theorem C01_descendant_search_first_only_refuted :
  match prepare 12 "[a.*=1]" with
  | Ok p => oids (get_required lit2 re2 nstr2 vstr2 kw2 cr2 p doc_f12) = ([], Err (YPE Unmatched))
  | _ => False
  end.
Proof. vm_compute. reflexivity. Qed.

(* Non-vacuity: a path through key, pass-through, search and wildcard selects the expected objects. *)
Example C01_query_example :
  match prepare 20 "[a.b=1].a.*" with
  | Ok p => oids (get_required lit2 re2 nstr2 vstr2 kw2 cr2 p doc_f10) = ([7%N], Done)
  | _ => False
  end.
Proof. vm_compute. reflexivity. Qed.

Example C01_notation_example :
  match prepare 20 "a.b", prepare 20 "/a/b" with
  | Ok p, Ok q => oids (get_required lit2 re2 nstr2 vstr2 kw2 cr2 p doc_f10)
                  = oids (get_required lit2 re2 nstr2 vstr2 kw2 cr2 q doc_f10)
  | _, _ => False
  end.
Proof. vm_compute. reflexivity. Qed.


(* ======================================================================== *)
(* PATH LEVEL                                                                *)
(* [sem_doc .. false p d] is the documented meaning of the path p on the
   document d; [sem_doc .. true p d] is the same list in which the situations of
   the listed finding F12a are marked SOut, like the places where the
   documentation is silent or says "error" (a segment applied to a slice
   result, an index into a set, a non-integer array slice, an unparsable search
   attribute, an invalid regular expression).  [specified] = no SOut marker.
   [item_res] reads off what a yielded NodeCoords designates: the document node
   (the object: Doc.node carries its identity) or the members of a virtual
   slice result. *)

(* Processor.get_nodes(path, mustexist=True): every document, every path of the
   fragment, every oracle, every keyword handler / creator (never reached) *)
Theorem C01_required_sem_partial :
  forall lit re_search nstr vstr kw_handler creator p d,
    c01_frag p = true -> is_null_node d = false ->
    specified (sem_doc lit re_search nstr true p d) = true ->
    let g := get_required lit re_search nstr vstr kw_handler creator p d in
    map item_res (fst g) = sem_doc lit re_search nstr false p d /\
    snd g = match sem_doc lit re_search nstr false p d with [] => Err (YPE Unmatched) | _ => Done end.
Proof. exact required_sem. Qed.
Print Assumptions C01_required_sem_partial.

(* the evaluator itself (what exists() and the writers call), from any context *)
Theorem C01_required_root_partial :
  forall lit re_search nstr vstr kw_handler creator segs d c,
    c01_frag (PPath segs) = true ->
    specified (sem_path lit re_search nstr true (PPath segs) true d) = true ->
    let g := ev lit re_search nstr vstr kw_handler creator (fuel_for (PPath segs)) MReq segs 0 (RNode d) c in
    snd g = Done /\ map item_res (fst g) = sem_path lit re_search nstr false (PPath segs) true d.
Proof. exact ev_root_sem. Qed.
Print Assumptions C01_required_root_partial.

(* "Refusing to get nodes from a null document" *)
Theorem C01_required_null :
  forall lit re_search nstr vstr kw_handler creator p d,
    is_null_node d = true ->
    get_required lit re_search nstr vstr kw_handler creator p d = gnil /\ sem_doc lit re_search nstr false p d = [].
Proof. exact required_null. Qed.

(* the guard is not a second specification: where the strict reading marks
   nothing it IS the documented meaning *)
Theorem C01_guard_is_documented_meaning :
  forall lit re_search nstr p d,
    specified (sem_doc lit re_search nstr true p d) = true ->
    sem_doc lit re_search nstr false p d = sem_doc lit re_search nstr true p d.
Proof. exact sem_doc_strict_eq. Qed.
Print Assumptions C01_guard_is_documented_meaning.

(* an optional-match query on a path that exists in every branch ([opt_ok]:
   no branch without a match at a segment that could be created -- F16b; the
   second clause, no null node with segments still to go -- F10 --, went with
   fix 09e1e7a) is the required query: same stream, hence no node created (a
   creation ends the stream with Mut) *)
Theorem C01_optional_on_existing_partial :
  forall lit re_search nstr vstr kw_handler creator p segs d,
    p = PPath segs ->
    opt_ok lit re_search nstr vstr kw_handler creator (fuel_for p) segs 0 (RNode d) root_ctx = true ->
    fst (get_required lit re_search nstr vstr kw_handler creator p d) <> [] ->
    get_optional lit re_search nstr vstr kw_handler creator p d
    = get_required lit re_search nstr vstr kw_handler creator p d.
Proof. exact optional_on_existing. Qed.
Print Assumptions C01_optional_on_existing_partial.

(* ---- the unguarded statement is false: F12a ---- *)
Definition sres_oids (l : list selres) : list (list N) :=
  map (fun s => match s with SNode n => [node_oid n] | SVirt ns => map node_oid ns | SOut => [] end) l.

(* F12a: [a.*=1] over [{a: {x: 2, y: 1}}] -- the documented meaning selects the
   element (it has a descendant a.* equal to 1), the code selects nothing *)
Theorem C01_required_sem_refuted :
  exists p d,
    c01_frag p = true /\ is_null_node d = false /\
    map item_res (fst (get_required lit2 re2 nstr2 vstr2 kw2 cr2 p d)) <> sem_doc lit2 re2 nstr2 false p d.
Proof.
  destruct (prepare 12 "[a.*=1]") as [p| |] eqn:E; try (vm_compute in E; discriminate).
  exists p, doc_f12. vm_compute in E. injection E as <-. repeat split. vm_compute. discriminate.
Qed.
Print Assumptions C01_required_sem_refuted.

(* F29, repaired (fix 5db14c1): {s: !!set {a, b}}, s.*[.=a] -- `*` returns every
   immediate child and the filter keeps the member a.  The code used to yield
   nothing (no set branch in _get_nodes_by_match_all_filtered; s.* and s[.=a]
   both worked); it now yields the member, the strict reading marks nothing, so
   the path is inside the guard of C01_required_sem_partial. *)
Definition doc_f29 : node :=
  NMap (inf2 0) [(leaf2 1 (PStr "s"), NSet (inf2 2) [leaf2 3 (PStr "a"); leaf2 4 (PStr "b")])].
Definition lit_str (s : string) : outcome litres := Ok LFail.
Example C01_wildcard_filter_on_set :
  match prepare 12 "s.*[.=a]" with
  | Ok p => c01_frag p = true /\
            sres_oids (sem_doc lit_str re2 nstr2 false p doc_f29) = [[3%N]] /\
            oids (get_required lit_str re2 nstr2 vstr2 kw2 cr2 p doc_f29) = ([3%N], Done) /\
            specified (sem_doc lit_str re2 nstr2 true p doc_f29) = true
  | _ => False
  end.
Proof. vm_compute. repeat split. Qed.

(* ---- non-vacuity of the guards ---- *)
(* {x: [{a: 1, b: [1, 2, 3]}, {a: 2, b: [4, 5, 6]}], s: !!set {a, b}} *)
Definition doc_nv : node :=
  NMap (inf2 0)
    [(leaf2 1 (PStr "x"),
      NSeq (inf2 2)
        [NMap (inf2 3) [(leaf2 4 (PStr "a"), leaf2 5 (PInt 1));
                        (leaf2 6 (PStr "b"), NSeq (inf2 7) [leaf2 5 (PInt 1); leaf2 8 (PInt 2); leaf2 9 (PInt 3)])];
         NMap (inf2 10) [(leaf2 4 (PStr "a"), leaf2 8 (PInt 2));
                         (leaf2 6 (PStr "b"), NSeq (inf2 11) [leaf2 12 (PInt 4); leaf2 13 (PInt 5); leaf2 14 (PInt 6)])]]);
     (leaf2 15 (PStr "s"), NSet (inf2 16) [leaf2 17 (PStr "a"); leaf2 18 (PStr "b")])].

Definition nv_check (text : string) (want : list (list N)) : Prop :=
  match prepare 20 text with
  | Ok p => c01_frag p = true /\ specified (sem_doc lit2 re2 nstr2 true p doc_nv) = true /\
            sres_oids (sem_doc lit2 re2 nstr2 false p doc_nv) = want /\
            sres_oids (map item_res (fst (get_required lit2 re2 nstr2 vstr2 kw2 cr2 p doc_nv))) = want
  | _ => False
  end.

(* key, pass-through into the Array-of-Hashes, search on a named attribute, index, slice *)
Example C01_guard_nonvacuous_1 : nv_check "x[a=2].b[1:3]" [[13%N; 14%N]].
Proof. vm_compute. repeat split. Qed.
Example C01_guard_nonvacuous_2 : nv_check "x.b[-1]" [[9%N]; [14%N]].
Proof. vm_compute. repeat split. Qed.
(* `**` then a filter, `*` then a filter, descendant search reaching one node, inverted search, set *)
Example C01_guard_nonvacuous_3 : nv_check "**[.=5]" [[13%N]].
Proof. vm_compute. repeat split. Qed.
Example C01_guard_nonvacuous_4 : nv_check "x.*[b.0!=1].a" [[8%N]].
Proof. vm_compute. repeat split. Qed.
Example C01_guard_nonvacuous_5 : nv_check "/s[.=b]" [[18%N]].
Proof. vm_compute. repeat split. Qed.
Example C01_guard_nonvacuous_6 : nv_check "x.**" [[5%N]; [5%N]; [8%N]; [9%N]; [8%N]; [12%N]; [13%N]; [14%N]].
Proof. vm_compute. repeat split. Qed.

(* the optional guard: x.a exists in every element *)
Example C01_optional_guard_nonvacuous :
  match prepare 20 "x.a" with
  | Ok (PPath segs) =>
      opt_ok lit2 re2 nstr2 vstr2 kw2 cr2 (fuel_for (PPath segs)) segs 0 (RNode doc_nv) root_ctx = true /\
      oids (get_optional lit2 re2 nstr2 vstr2 kw2 cr2 (PPath segs) doc_nv) = ([5%N; 8%N], Done)
  | _ => False
  end.
Proof. vm_compute. repeat split. Qed.

(* F16b: a.b over [{a: {b: 1}}, {a: {c: 1}}] -- the required query matches, the
   optional one goes on to create b in the second element *)
Definition doc_f16b : node :=
  NSeq (inf2 0) [NMap (inf2 1) [(leaf2 2 (PStr "a"), NMap (inf2 3) [(leaf2 4 (PStr "b"), leaf2 5 (PInt 1))])];
                 NMap (inf2 6) [(leaf2 2 (PStr "a"), NMap (inf2 7) [(leaf2 8 (PStr "c"), leaf2 5 (PInt 1))])]].
Theorem C01_optional_partial_existence_refuted :
  match prepare 10 "a.b" with
  | Ok p => oids (get_required lit2 re2 nstr2 vstr2 kw2 cr2 p doc_f16b) = ([5%N], Done) /\
            snd (get_optional lit2 re2 nstr2 vstr2 kw2 cr2 p doc_f16b) = Mut 0 PNone
  | _ => False
  end.
Proof. vm_compute. split; reflexivity. Qed.


(* notation: the same segments written in dot and in forward-slash notation are
   read back (separator inferred) as the same escaped segments -- all that
   [sem_path] reads of a prepared path besides the pre-parsed search attributes,
   which are part of the segments.  From C08 (guards: C08's [wf], the property's
   own exclusion of dot texts starting with "/").  The step from equal escaped
   segments to equal RESULTS is C01_notation below. *)
Theorem C01_notation_segments_partial :
  forall l : list sseg,
    wf Dot l = true -> wf Slash l = true -> first_not_in ["/"%char] (render_ref Dot l) = true ->
    parse Auto true (render_ref Dot l) = Ok (segs_of l) /\
    parse Auto true (render_ref Slash l) = Ok (segs_of l).
Proof. exact notation_same_segments. Qed.
Print Assumptions C01_notation_segments_partial.


(* ======================================================================== *)
(* NOTATION: "the answer is the same whether the path is written in dot or
   forward-slash notation" (proofs: Proofs/EvalNotation.v).

   [prepare] zips the escaped parse of the text with its UNESCAPED twin parse;
   the two notations agree on the former (C01_notation_segments_partial) and
   differ on the latter (a separator escaped in one notation keeps its
   back-slash there).  The required driver reads of the unescaped segment only
   its TYPE and, for a collector, its attributes ([dispatch]'s [fallback]); the
   sub-paths are prepared from the escaped search attribute / the collector
   expression.  Hence, for every styled segment list that C08's [wf] accepts in
   both notations (every segment kind - keyword searches and collectors
   included; the only other guard is the property's own exclusion of a dot text
   starting with "/"), every document, every oracle, every fuel: the two texts
   prepare alike and the required query and exists() give EQUAL streams - the
   same results in the same order with the same coordinates and reported
   paths, the same way of stopping. *)
From YP Require Import EvalNotation.

Theorem C01_notation :
  forall lit re_search nstr vstr kw_handler creator (l : list sseg) (f : nat) (d : node),
    wf Dot l = true -> wf Slash l = true -> first_not_in ["/"%char] (render_ref Dot l) = true ->
    match prepare f (render_ref Dot l), prepare f (render_ref Slash l) with
    | Ok pd, Ok ps =>
        get_required lit re_search nstr vstr kw_handler creator pd d
        = get_required lit re_search nstr vstr kw_handler creator ps d
        /\ exists_ lit re_search nstr vstr kw_handler creator pd d
           = exists_ lit re_search nstr vstr kw_handler creator ps d
    | OutOfFuel, OutOfFuel => True
    | _, _ => False
    end.
Proof. exact notation_same_results. Qed.
Print Assumptions C01_notation.

(* what the proof rests on: similar prepared paths give equal streams *)
Theorem C01_similar_paths_same_answer :
  forall lit re_search nstr vstr kw_handler creator p q d,
    ppath_sim p q ->
    get_required lit re_search nstr vstr kw_handler creator p d
    = get_required lit re_search nstr vstr kw_handler creator q d.
Proof. exact required_sim. Qed.
Print Assumptions C01_similar_paths_same_answer.

(* non-vacuity: {"a.b": {"c/d": [{x: 1}, {x: 2}]}} and the segments  a.b  c/d  [x=2]  x :
   dot text a\.b.c/d[x=2].x, forward-slash text /a.b/c\/d[x=2]/x.  The guards hold, both texts
   prepare, the prepared paths DIFFER (unescaped twins a\.b | a.b and c/d | c\/d), the answers are
   equal and not empty. *)
Definition doc_not : node :=
  NMap (inf2 0) [(leaf2 1 (PStr "a.b"),
    NMap (inf2 2) [(leaf2 3 (PStr "c/d"),
      NSeq (inf2 4) [NMap (inf2 5) [(leaf2 6 (PStr "x"), leaf2 7 (PInt 1))];
                     NMap (inf2 8) [(leaf2 6 (PStr "x"), leaf2 9 (PInt 2))]])])].
Definition segs_not : list sseg :=
  [((Some TKey, AStr "a.b"), plain_style); ((Some TKey, AStr "c/d"), plain_style);
   ((Some TSearch, ASearch false MEquals "x" "2"), plain_style); ((Some TKey, AStr "x"), plain_style)].
Definition us_of (p : ppath) : list seg := match p with PPath l => map seg_us l | PFail _ => [] end.

Example C01_notation_nonvacuous :
  wf Dot segs_not = true /\ wf Slash segs_not = true /\ first_not_in ["/"%char] (render_ref Dot segs_not) = true
  /\ render_ref Dot segs_not = "a\.b.c/d[x=2].x" /\ render_ref Slash segs_not = "/a.b/c\/d[x=2]/x"
  /\ match prepare 5 (render_ref Dot segs_not), prepare 5 (render_ref Slash segs_not) with
     | Ok pd, Ok ps =>
         map snd (us_of pd) = [AStr "a\.b"; AStr "c/d"; ASearch false MEquals "x" "2"; AStr "x"]
         /\ map snd (us_of ps) = [AStr "a.b"; AStr "c\/d"; ASearch false MEquals "x" "2"; AStr "x"]
         /\ oids (get_required lit2 re2 nstr2 vstr2 kw2 cr2 pd doc_not) = ([9%N], Done)
         /\ oids (get_required lit2 re2 nstr2 vstr2 kw2 cr2 ps doc_not) = ([9%N], Done)
     | _, _ => False
     end.
Proof. vm_compute. repeat split; reflexivity. Qed.

(* ======================================================================== *)
(* DOCUMENT ORDER, EACH ONCE (proofs: Proofs/EvalOrder.v; vocabulary:
   Spec/SpecC01Order.v, Spec/SpecC02.v).

   [res_locn x]        the location of a result, read off its ancestry (C02:
                       C02_reported_path_is_built_partial - that location holds the
                       result's node);
   [loc_before d a b]  where the ways from the root to a and to b part, a takes the
                       earlier child (position among the pairs / elements / members of
                       the parent): a comes before b in the document and neither lies
                       above the other.  It is strict and asymmetric
                       (C01_loc_before_strict), so results that are pairwise
                       loc_before - each before every later one - are in document
                       order, every node is named once, none together with a descendant.

   Sub-fragment: the C01 fragment with `**` only as the LAST segment
   ([trav_only_last]); a `**` followed by another segment gathers a node twice or
   against document order (C01_results_doc_ordered_refuted).  The other guards are
   those of the location theorem of C02: [c02_doc_ok] (keys pairwise unequal: every
   loaded document), [c02_path_plain] (no [&anchor] segment, no index counted from
   the end, integer-looking keys spelled like str(int)), slices last. *)
From YP Require Import SpecC02 SpecC01Order EvalLocAll EvalOrder.

Theorem C01_results_doc_ordered_partial :
  forall lit re_search nstr vstr kw_handler creator d segs,
    c02_doc_ok d = true ->
    c01_frag (PPath segs) = true -> slices_last segs = true -> c02_path_plain segs = true ->
    trav_only_last segs = true ->
    ForallOrdPairs (fun x y => loc_before d (res_locn x) (res_locn y) = true)
                   (fst (get_required lit re_search nstr vstr kw_handler creator (PPath segs) d)).
Proof. exact required_ordered. Qed.
Print Assumptions C01_results_doc_ordered_partial.

Theorem C01_loc_before_strict :
  forall (d : node) (a b s : loc),
    loc_before d a (a ++ s)%list = false /\ loc_before d (a ++ s)%list a = false
    /\ (loc_before d a b = true -> loc_before d b a = false).
Proof. intros d a b s. split; [apply before_not_below | split; [apply before_not_above | apply before_asym]]. Qed.
Print Assumptions C01_loc_before_strict.

Fixpoint all_before (d : node) (ls : list loc) : bool :=
  match ls with
  | [] => true
  | a :: r => forallb (loc_before d a) r && all_before d r
  end.
Definition ord_check (text : string) (d : node) : option (bool * list N * bool) :=
  match prepare 20 text with
  | Ok (PPath segs) =>
      let g := get_required lit2 re2 nstr2 vstr2 kw2 cr2 (PPath segs) d in
      Some (c02_doc_ok d && c01_frag (PPath segs) && slices_last segs && c02_path_plain segs && trav_only_last segs,
            map node_oid (nodes_of (fst g)), all_before d (map res_locn (fst g)))
  | _ => None
  end.

(* non-vacuity on doc_nv = {x: [{a: 1, b: [1, 2, 3]}, {a: 2, b: [4, 5, 6]}], s: !!set {a, b}}: pass-through,
   wildcards, `**` last (the scalar 1 is ONE object at two places: two locations), searches, a set *)
Example C01_doc_ordered_nonvacuous :
  ord_check "x.b.*" doc_nv = Some (true, [5; 8; 9; 12; 13; 14]%N, true)
  /\ ord_check "x.*.*" doc_nv = Some (true, [5; 7; 8; 11]%N, true)
  /\ ord_check "**" doc_nv = Some (true, [5; 5; 8; 9; 8; 12; 13; 14; 17; 18]%N, true)
  /\ ord_check "x[a!=9].b[0]" doc_nv = Some (true, [5; 12]%N, true)
  /\ ord_check "s.*" doc_nv = Some (true, [17; 18]%N, true)
  /\ ord_check "x.*[.=1].b.*" doc_nv = Some (true, [], true).
Proof. vm_compute. repeat split. Qed.

(* `**` followed by another segment is outside: {a: aa}, **[.^a] gathers aa twice (one location twice);
   {a: b, b: zz}, **[.=b] gathers the value under b before the value under a *)
Definition doc_dup2 : node := NMap (inf2 0) [ (leaf2 1 (PStr "a"), leaf2 2 (PStr "aa")) ].
Definition doc_rev2 : node := NMap (inf2 0) [ (leaf2 1 (PStr "a"), leaf2 2 (PStr "b")); (leaf2 2 (PStr "b"), leaf2 3 (PStr "zz")) ].
Theorem C01_results_doc_ordered_refuted :
  ord_check "**[.^a]" doc_dup2 = Some (false, [2; 2]%N, false)
  /\ ord_check "**[.=b]" doc_rev2 = Some (false, [3; 2]%N, false)
  /\ match prepare 20 "**[.^a]" with
     | Ok (PPath segs) => c02_doc_ok doc_dup2 && c01_frag (PPath segs) && slices_last segs && c02_path_plain segs = true
                          /\ trav_only_last segs = false
     | _ => False
     end.
Proof. vm_compute. repeat split. Qed.

(* Every remaining statement of this file, so that none is left unaudited. *)
Print Assumptions C01_descendant_search_first_only_refuted.
Print Assumptions C01_required_null.
Print Assumptions C01_optional_partial_existence_refuted.
Print Assumptions C01_results_doc_ordered_refuted.
