(* C06 -- A diff is truthful and complete; it is empty of changes iff the data
   are equal.  Statements only; proofs live in Proofs/DiffBase.v, DiffPos.v,
   DiffTotal.v, DiffSync.v, DiffEq.v, DiffKeys.v (the join of two keyed lists
   modulo Python key equality), DiffCover.v, DiffAcct.v, DiffSym.v, DiffIff.v.
   The model (Model/Diff.v) is the Differ AFTER the `fix:` commits listed in
   docs/C06.md.

   Vocabulary: [compare_to path_eq cfg L R] is Differ(cfg, L).compare_to(R)
   followed by get_report (as a list in append order); [path_eq] stands for
   YAMLPath.__eq__ and is universally quantified (any function);
   [positional cfg] says the configuration selects positional comparison at
   every list (--arrays position, --aoh position|dpos, the defaults);
   [uniform cfg am hm] says it selects --arrays am and --aoh hm at every list;
   [wf_doc] says a document is real loaded Python data (unique, untagged scalar
   keys and set members; a set carries no explicit tag).  [e_loc] is the structural location of an entry (ghost
   field built next to the path text; the text itself is compared with the
   implementation by the correspondence check and resolved on the real code
   by the judge).

   Findings F1 (Python == is not data equality where tags are involved) and F3
   (a null facing a container is covered by no entry) are REPAIRED in the code
   (docs/C06.md): the theorems that carried the guards [untagged] / [faces_b] /
   [null_guard] are now full, resp. guarded by [root_guard] (about the two
   document roots only).

   Arbitrary resolved configurations ([rules] choosing modes per list, [keys]
   choosing identity keys per list / record) are covered by the `_cfg`
   theorems at the end of this file (equivalence [equiv_c], guard [kguard_c] =
   finding F4, Proofs/DiffIffCfg.v); what holds of an entry's path and values
   in the synchronised modes is stated by the `_sync` theorems
   (Proofs/DiffTruth.v); [data_eq] is an equivalence relation and the greedy
   strike-out [bag_eqb] decides multiset equality (Proofs/DiffTrans.v). *)
(* obligations tying the models' literal tables to the tables regenerated from the source *)
From YP Require Import GenTables.
From Coq Require Import List Ascii String ZArith NArith Bool Arith Permutation.
From YP Require Import Outcome PyStr PyVal Doc Diff C06Spec DiffBase DiffPos DiffTotal DiffSync DiffEq
  DiffKeys DiffCover DiffAcct DiffSym DiffKSync DiffIff DiffIffKey DiffIffCfg DiffTrans DiffTruth.
Import ListNotations.
Open Scope string_scope.

(* Under positional comparison every entry is true of the two documents:
   a SAME/CHANGE/DELETE entry's left value is what the left document holds at
   the entry's location, a SAME/CHANGE/ADD entry's right value is what the
   right document holds there -- for ALL document pairs. *)
Theorem C06_truthful :
  forall path_eq cfg L R es,
    positional cfg -> wf_doc L = true -> wf_doc R = true ->
    compare_to path_eq cfg L R = Ok es ->
    Forall (truthful L R) es.
Proof. exact positional_truthful. Qed.
Print Assumptions C06_truthful.

(* SAME values are equal and CHANGE values differ -- under the differ's own
   value comparison Differ._same_data (val_eq). *)
Theorem C06_same_equal_impl :
  forall path_eq cfg L R es,
    positional cfg -> wf_doc L = true -> wf_doc R = true ->
    compare_to path_eq cfg L R = Ok es ->
    Forall (fun e => e_action e = ASame -> val_eq (e_lhs e) (e_rhs e) = true) es.
Proof. exact positional_same_py. Qed.
Print Assumptions C06_same_equal_impl.

Theorem C06_change_differs_impl :
  forall path_eq cfg L R es,
    positional cfg -> wf_doc L = true -> wf_doc R = true ->
    compare_to path_eq cfg L R = Ok es ->
    Forall (fun e => e_action e = AChange -> val_eq (e_lhs e) (e_rhs e) = false) es.
Proof. exact positional_change_py. Qed.
Print Assumptions C06_change_differs_impl.

(* SAME values are equal and CHANGE values differ AS DATA (the spec's data_eq:
   key order is not data, sequence order and tags are) -- all document pairs,
   tags included.  (Before the repair of finding F1 the values were compared
   with Python's ==, which is identity on TaggedScalars and ignores container
   tags, and these two theorems needed the guard "no explicit tag anywhere".) *)
Theorem C06_same_equal :
  forall path_eq cfg L R es,
    positional cfg -> wf_doc L = true -> wf_doc R = true ->
    compare_to path_eq cfg L R = Ok es -> Forall same_ok es.
Proof. exact positional_same_equal. Qed.
Print Assumptions C06_same_equal.

Theorem C06_change_differs :
  forall path_eq cfg L R es,
    positional cfg -> wf_doc L = true -> wf_doc R = true ->
    compare_to path_eq cfg L R = Ok es -> Forall change_ok es.
Proof. exact positional_change_differs. Qed.
Print Assumptions C06_change_differs.

(* Differ._same_data IS data equality on real documents, tags included *)
Theorem C06_same_data_is_data_eq :
  forall a b, wf_doc a = true -> wf_doc b = true -> val_eq a b = data_eq a b.
Proof. exact val_eq_data_eq. Qed.
Print Assumptions C06_same_data_is_data_eq.

(* A positional comparison always yields a diff: the fuel compare_to hands to
   the recursion suffices (never OutOfFuel) and nothing raises -- in
   particular none of the crashes repaired by the fix: commits. *)
Theorem C06_total_positional :
  forall path_eq cfg L R, positional cfg -> exists es, compare_to path_eq cfg L R = Ok es.
Proof. exact positional_total. Qed.
Print Assumptions C06_total_positional.

(* Accounting, synchronised modes: both synchronisers account for every
   element exactly once -- the left components of the produced tuples are the
   left list, in order, each index once; the right components are a
   permutation of the right list. *)
Theorem C06_accounting_sync_value :
  forall lels rels,
    lefts (sync_value lels rels) = enumerate lels /\
    Permutation (rights (sync_value lels rels)) (enumerate rels).
Proof. exact sync_value_accounting. Qed.
Print Assumptions C06_accounting_sync_value.

Theorem C06_accounting_sync_key :
  forall cfg r lels rels,
    lefts (sync_key cfg r lels rels) = enumerate lels /\
    Permutation (rights (sync_key cfg r lels rels)) (enumerate rels).
Proof. exact sync_key_accounting. Qed.
Print Assumptions C06_accounting_sync_key.

(* yaml-diff's exit state is 1 exactly when the report has a non-SAME entry,
   and without --same/--onlysame only differences are printed. *)
Theorem C06_exit_state : forall es, exit_state es = 1 <-> shows_difference es = true.
Proof. exact exit_state_spec. Qed.
Print Assumptions C06_exit_state.

Theorem C06_printed_are_differences :
  forall es e, In e (printed_entries false false false es) -> is_different e = true.
Proof. exact printed_default_are_differences. Qed.

(* ---- completeness (positional comparison): every leaf of either document is
   covered by an entry at its location or at an ancestor's location
   (references compared as Python compares keys).  Guard [root_guard], about
   the two ROOTS only: not (one document is null and the other a container with
   content) -- what is left of finding F3 after its repair: Python None at the
   root is how an empty document arrives, and "document vs nothing" lists only
   the other side (pinned by the CLI tests).  A null that has a parent is now
   deleted / added like any other scalar. ---- *)
Theorem C06_complete_partial :
  forall path_eq cfg L R es,
    positional cfg -> wf_doc L = true -> wf_doc R = true -> root_guard L R = true ->
    compare_to path_eq cfg L R = Ok es -> covers_left L es /\ covers_right R es.
Proof. exact positional_covers. Qed.
Print Assumptions C06_complete_partial.

Theorem C06_complete_refuted :
  exists L R es, wf_doc L = true /\ wf_doc R = true /\
    compare_to path_eq_real dflt_cfg L R = Ok es /\ ~ covers_left L es.
Proof. exact complete_refuted_witness. Qed.

(* the guard holds of every pair of documents neither of which is null *)
Theorem C06_root_guard_nonnull :
  forall L R, is_null_leaf L = false -> is_null_leaf R = false -> root_guard L R = true.
Proof. exact root_guard_nonnull. Qed.

(* ---- the diff contains a non-SAME entry exactly when the documents differ
   as data.  [equiv am hm] (Spec/C06Spec.v) is data equality with sequence
   order disregarded where the options say so: under --arrays value (and
   --aoh value) a sequence is a bag of its elements.  ALL document pairs (tags
   included since the repair of finding F1), every uniform pair of options
   --arrays position|value x --aoh position|dpos|value, any YAMLPath.__eq__ in
   the pop step.  The identity-key modes follow below (they need the guard of
   finding F4). ---- *)
Theorem C06_nonsame_iff_differ :
  forall path_eq cfg am hm L R es,
    uniform cfg am hm -> unkeyed hm = true ->
    wf_doc L = true -> wf_doc R = true ->
    compare_to path_eq cfg L R = Ok es ->
    shows_difference es = negb (equiv am hm L R).
Proof. exact nonsame_iff_differ. Qed.
Print Assumptions C06_nonsame_iff_differ.

(* positional comparison: [equiv] is plain data equality *)
Theorem C06_nonsame_iff_differ_positional :
  forall path_eq cfg hm L R es,
    uniform cfg ArrPosition hm -> hm = AohPosition \/ hm = AohDpos ->
    wf_doc L = true -> wf_doc R = true ->
    compare_to path_eq cfg L R = Ok es ->
    shows_difference es = negb (data_eq L R).
Proof. exact nonsame_iff_differ_positional. Qed.
Print Assumptions C06_nonsame_iff_differ_positional.

Theorem C06_equiv_positional_is_data_eq :
  forall hm, hm = AohPosition \/ hm = AohDpos -> forall a b, equiv ArrPosition hm a b = data_eq a b.
Proof. exact equiv_positional. Qed.

(* ---- corollary: a document compared with itself, or with a second load of
   itself, shows no difference ---- *)
Theorem C06_reflexive :
  forall path_eq cfg am hm L es,
    uniform cfg am hm -> unkeyed hm = true -> wf_doc L = true ->
    compare_to path_eq cfg L L = Ok es -> shows_difference es = false.
Proof. exact reflexive_no_difference. Qed.
Print Assumptions C06_reflexive.

Theorem C06_equal_no_difference :
  forall path_eq cfg am hm L R es,
    uniform cfg am hm -> unkeyed hm = true ->
    wf_doc L = true -> wf_doc R = true ->
    data_eq L R = true ->
    compare_to path_eq cfg L R = Ok es -> shows_difference es = false.
Proof. exact equal_no_difference. Qed.
Print Assumptions C06_equal_no_difference.

(* ---- EVERY uniform pair of options, the identity-key modes included:
   --arrays position|value x --aoh position|dpos|value|key|deep, no [keys]
   configuration.  Under --aoh key|deep [equiv] reads every Array-of-Hashes as
   a bag of records named by the identity key (the first key of the first
   right-hand record): as many records, and every left record has a right
   record with the same identity value that is equal (key) / equivalent
   (deep).  Guard [kguard] (finding F4): every list pair the comparison reads
   by identity key is well keyed -- all elements of both lists are records
   holding a plain scalar under the identity key, pairwise different -- checked
   along the pairing the modes define (for position / dpos / value it only
   descends). ---- *)
Theorem C06_nonsame_iff_differ_keyed_partial :
  forall path_eq cfg am hm L R es,
    uniform cfg am hm -> c_keys cfg = [] ->
    wf_doc L = true -> wf_doc R = true ->
    kguard am hm L R = true ->
    compare_to path_eq cfg L R = Ok es ->
    shows_difference es = negb (equiv am hm L R).
Proof. exact nonsame_iff_differ_keyed. Qed.
Print Assumptions C06_nonsame_iff_differ_keyed_partial.

Theorem C06_reflexive_keyed_partial :
  forall path_eq cfg am hm L es,
    uniform cfg am hm -> c_keys cfg = [] ->
    wf_doc L = true -> kguard am hm L L = true ->
    compare_to path_eq cfg L L = Ok es -> shows_difference es = false.
Proof. exact reflexive_keyed. Qed.
Print Assumptions C06_reflexive_keyed_partial.

(* without a [keys] table synchronize_lods_by_key is the plain match by identity
   value, and each of its tuples is a matched pair, a left-only or a right-only record *)
Theorem C06_sync_key_shape :
  forall idf lhs red,
    nodup_vals (map (ida idf) lhs) = true -> nodup_vals (map (ida idf) red) = true ->
    forall p, In p (ksync idf lhs red) -> shape idf lhs red p.
Proof. exact ksync_shape. Qed.
Print Assumptions C06_sync_key_shape.

(* --aoh key: a record without the identity key makes a list differ from itself (F4) *)
Theorem C06_reflexive_refuted :
  exists cfg d es, uniform cfg ArrPosition AohKey /\ wf_doc d = true /\
    compare_to path_eq_real cfg d d = Ok es /\ shows_difference es = true.
Proof. exact reflexive_refuted_witness. Qed.

(* ---- accounting at leaf level, in EVERY mode and configuration (position,
   value, key, deep, per-path rules and keys, any YAMLPath.__eq__): the leaves
   of the left document are exactly (as a multiset) the leaves of the left
   values of the SAME / CHANGE / DELETE entries, those of the right document
   the leaves of the right values of the SAME / CHANGE / ADD entries -- through
   mappings, sets, both synchronisers and the pop-a-DELETE-to-make-a-CHANGE
   step.  Guard [root_guard] (the two roots only; what is left of finding F3). ---- *)
Theorem C06_accounting_partial :
  forall path_eq cfg L R es,
    wf_doc L = true -> wf_doc R = true -> root_guard L R = true ->
    compare_to path_eq cfg L R = Ok es ->
    Permutation (left_leaves es) (leaves L) /\ Permutation (right_leaves es) (leaves R).
Proof. exact accounting_all_modes. Qed.
Print Assumptions C06_accounting_partial.

Theorem C06_accounting_refuted :
  exists L R es, wf_doc L = true /\ wf_doc R = true /\
    compare_to path_eq_real dflt_cfg L R = Ok es /\ ~ Permutation (left_leaves es) (leaves L).
Proof. exact accounting_refuted_witness. Qed.

(* the join of two keyed lists modulo Python key equality (the split of
   _diff_dicts / _diff_sets into shared / deleted / added loses nothing) *)
Theorem C06_keyed_join :
  forall (A B : Type) (ka : A -> pyval) (kb : B -> pyval) l r,
    nodup_vals (map kb r) = true ->
    Permutation l (shared_of ka kb l r ++ dels_of ka kb l r).
Proof. exact @join_perm. Qed.
Print Assumptions C06_keyed_join.

(* ---- non-vacuity and the repaired defects, by computation on the model ---- *)
Definition dflt : dcfg := mkdcfg false [] [] None None None None.
Definition cfg_of (arrays aoh : string) : dcfg := mkdcfg false [] [] (Some arrays) (Some aoh) None None.
Definition lf (o : N) (v : pyval) : node := NLeaf (mkinfo o None false None) v.
Definition sq (o : N) (l : list node) : node := NSeq (mkinfo o None true None) l.
Definition mp (o : N) (l : list (node * node)) : node := NMap (mkinfo o None true None) l.
Definition acts (o : outcome (list entry)) : outcome (list (action * loc)) :=
  omap (map (fun e => (e_action e, e_loc e))) o.

Example positional_default : positional dflt.
Proof. split; intros nc; [reflexivity | left; reflexivity]. Qed.
Example positional_dpos : positional (cfg_of "position" "dpos").
Proof. split; intros nc; [reflexivity | right; reflexivity]. Qed.

(* defect #18, repaired: [a, null] compared with itself shows no difference *)
Example C06_fixed_null_element :
  let d := sq 0 [lf 1 (PStr "a"); lf 2 PNone] in
  wf_doc d = true /\
  acts (compare_to path_eq_real dflt d d) = Ok [(ASame, [RIdx 0]); (ASame, [RIdx 1])].
Proof. vm_compute. split; reflexivity. Qed.

Example C06_guard_example :
  let L := sq 0 [mp 1 [(lf 2 (PStr "a"), lf 3 (PInt 1)); (lf 4 (PStr "b"), lf 5 (PInt 2))]] in
  let R := sq 6 [mp 7 [(lf 4 (PStr "b"), lf 5 (PInt 2)); (lf 2 (PStr "a"), lf 3 (PInt 1))]] in
  wf_doc L = true /\ wf_doc R = true /\
  acts (compare_to path_eq_real dflt L R) = Ok [(ASame, [RIdx 0])].
Proof. vm_compute. repeat split; reflexivity. Qed.

(* defect #19, repaired: [1, 2] compared with [] reports two deletions *)
Example C06_fixed_empty_rhs :
  acts (compare_to path_eq_real dflt (sq 0 [lf 1 (PInt 1); lf 2 (PInt 2)]) (sq 3 [])) =
  Ok [(ADelete, [RIdx 0]); (ADelete, [RIdx 1])].
Proof. vm_compute. reflexivity. Qed.

(* value-synchronised: the pop-a-DELETE step turns DELETE [1] + ADD [1] into CHANGE [1] *)
Example C06_value_mode_change :
  acts (compare_to path_eq_real (cfg_of "value" "value")
          (sq 0 [lf 1 (PInt 1); lf 2 (PInt 2); lf 3 (PInt 3)])
          (sq 4 [lf 1 (PInt 1); lf 5 (PInt 4); lf 3 (PInt 3)])) =
  Ok [(ASame, [RIdx 0]); (ASame, [RIdx 2]); (AChange, [RIdx 1])].
Proof. vm_compute. reflexivity. Qed.

(* finding F3, repaired: a null that has a parent, facing a container with
   content, is deleted like any other scalar (it used to be covered by no entry) *)
Example C06_fixed_null_faces_container :
  let L := mp 0 [(lf 1 (PStr "a"), lf 2 PNone)] in
  let R := mp 3 [(lf 1 (PStr "a"), mp 4 [(lf 5 (PStr "b"), lf 6 (PInt 1))])] in
  wf_doc L = true /\ wf_doc R = true /\ root_guard L R = true /\
  acts (compare_to path_eq_real dflt L R) = Ok [(ADelete, [RKey (PStr "a")]); (AAdd, [RKey (PStr "a"); RKey (PStr "b")])] /\
  acts (compare_to path_eq_real dflt R L) = Ok [(ADelete, [RKey (PStr "a"); RKey (PStr "b")]); (AAdd, [RKey (PStr "a")])].
Proof. vm_compute. repeat split; reflexivity. Qed.

(* what is left of it: a null DOCUMENT against a container (the guard is false) *)
Example C06_complete_refuted_acts :
  let L := lf 2 PNone in
  let R := mp 3 [(lf 5 (PStr "b"), lf 6 (PInt 1))] in
  root_guard L R = false /\
  acts (compare_to path_eq_real dflt L R) = Ok [(AAdd, [RKey (PStr "b")])].
Proof. vm_compute. repeat split; reflexivity. Qed.

(* finding F1, repaired: two loads of one tagged scalar are the same data (SAME;
   it used to be CHANGE: TaggedScalar has identity equality only); a different
   tag on an equal value is a CHANGE; differently tagged records of an
   Array-of-Hashes are a CHANGE (used to be SAME: dict == ignores the tag);
   differently tagged sequences are deleted / added whole, like mappings *)
Example C06_fixed_tagged_scalars :
  let t o g := NLeaf (mkinfo o None false (Some g)) (POther "b") in
  data_eq (t 1%N "x") (t 2%N "x") = true /\
  acts (compare_to path_eq_real dflt (t 1%N "x") (t 2%N "x")) = Ok [(ASame, [])] /\
  acts (compare_to path_eq_real dflt (t 1%N "x") (t 2%N "y")) = Ok [(AChange, [])].
Proof. vm_compute. repeat split; reflexivity. Qed.

Example C06_fixed_tagged_containers :
  let tm o g := NMap (mkinfo o None true (Some g)) [(lf 2 (PStr "x"), lf 3 (PInt 1))] in
  let ts o g := NSeq (mkinfo o None true (Some g)) [lf 3 (PInt 1)] in
  wf_doc (sq 0 [tm 1%N "a"]) = true /\
  acts (compare_to path_eq_real dflt (sq 0 [tm 1%N "a"]) (sq 4 [tm 5%N "b"])) = Ok [(AChange, [RIdx 0])] /\
  acts (compare_to path_eq_real dflt (sq 0 [tm 1%N "a"]) (sq 4 [tm 5%N "a"])) = Ok [(ASame, [RIdx 0])] /\
  acts (compare_to path_eq_real dflt (ts 1%N "a") (ts 5%N "b")) = Ok [(ADelete, []); (AAdd, [])] /\
  acts (compare_to path_eq_real dflt (ts 1%N "a") (ts 5%N "a")) = Ok [(ASame, [RIdx 0])].
Proof. vm_compute. repeat split; reflexivity. Qed.

(* key mode, a record without the identity key: a document compared with
   itself shows differences (known finding F4) *)
Example C06_reflexive_refuted_key_mode :
  let d := sq 0 [mp 1 [(lf 2 (PStr "a"), lf 3 (PInt 1))]; mp 4 [(lf 5 (PStr "b"), lf 6 (PInt 2))]] in
  acts (compare_to path_eq_real (cfg_of "position" "key") d d) =
  Ok [(ASame, [RIdx 0]); (ADelete, [RIdx 1]); (AAdd, [RIdx 1])].
Proof. vm_compute. reflexivity. Qed.

(* ---- the guards of the new theorems are satisfiable by non-trivial pairs ---- *)
(* nulls and nested containers on both sides *)
Example C06_complete_guard_example :
  let L := mp 0 [(lf 1 (PStr "a"), lf 2 PNone); (lf 3 (PStr "b"), sq 4 [lf 5 (PInt 1); mp 6 [(lf 7 (PStr "c"), lf 8 (PInt 2))]])] in
  let R := mp 9 [(lf 1 (PStr "a"), lf 10 (PInt 5)); (lf 3 (PStr "b"), sq 11 [lf 5 (PInt 1); mp 12 [(lf 7 (PStr "c"), lf 13 PNone)]]);
                 (lf 14 (PStr "d"), mp 15 [])] in
  wf_doc L = true /\ wf_doc R = true /\ root_guard L R = true /\
  acts (compare_to path_eq_real dflt L R) =
  Ok [(AChange, [RKey (PStr "a")]); (ASame, [RKey (PStr "b"); RIdx 0]); (AChange, [RKey (PStr "b"); RIdx 1; RKey (PStr "c")]);
      (AAdd, [RKey (PStr "d")])].
Proof. vm_compute. repeat split; reflexivity. Qed.

(* reordered records compared under --aoh deep, and mappings holding nulls on
   both sides (one facing an empty sequence): the accounting guard holds *)
Example C06_accounting_guard_example :
  let L := sq 0 [mp 1 [(lf 2 (PStr "id"), lf 3 (PInt 1)); (lf 4 (PStr "v"), lf 5 (PStr "w"))];
                 mp 6 [(lf 2 (PStr "id"), lf 7 (PInt 2)); (lf 4 (PStr "v"), lf 8 (PStr "x"))]] in
  let R := sq 9 [mp 10 [(lf 2 (PStr "id"), lf 7 (PInt 2)); (lf 4 (PStr "v"), lf 8 (PStr "x"))];
                 mp 12 [(lf 2 (PStr "id"), lf 3 (PInt 1)); (lf 4 (PStr "v"), lf 13 (PStr "y"))]] in
  wf_doc L = true /\ wf_doc R = true /\ root_guard L R = true /\
  acts (compare_to path_eq_real (cfg_of "position" "deep") L R) =
  Ok [(ASame, [RIdx 1; RKey (PStr "id")]); (AChange, [RIdx 1; RKey (PStr "v")]);
      (ASame, [RIdx 0; RKey (PStr "id")]); (ASame, [RIdx 0; RKey (PStr "v")])].
Proof. vm_compute. repeat split; reflexivity. Qed.

Example C06_accounting_guard_example_nulls :
  let L := mp 0 [(lf 1 (PStr "a"), lf 2 PNone); (lf 3 (PStr "b"), lf 4 (PInt 1)); (lf 5 (PStr "c"), sq 6 [])] in
  let R := mp 7 [(lf 1 (PStr "a"), lf 8 (PInt 2)); (lf 3 (PStr "b"), lf 9 PNone); (lf 5 (PStr "c"), lf 10 PNone)] in
  wf_doc L = true /\ wf_doc R = true /\ root_guard L R = true /\
  acts (compare_to path_eq_real (cfg_of "value" "key") L R) =
  Ok [(AChange, [RKey (PStr "a")]); (AChange, [RKey (PStr "b")]); (AAdd, [RKey (PStr "c")])].
Proof. vm_compute. repeat split; reflexivity. Qed.

(* value mode: a reordered list is equivalent and shows no difference; uniform configurations exist *)
Example uniform_value : uniform (cfg_of "value" "value") ArrValue AohValue.
Proof. split; intros nc; reflexivity. Qed.
Example uniform_default : uniform dflt ArrPosition AohPosition.
Proof. split; intros nc; reflexivity. Qed.

Example C06_iff_value_example :
  let L := mp 0 [(lf 1 (PStr "x"), sq 2 [lf 3 (PInt 1); lf 4 (PInt 2); lf 5 (PInt 3)])] in
  let R := mp 6 [(lf 1 (PStr "x"), sq 7 [lf 5 (PInt 3); lf 3 (PInt 1); lf 4 (PInt 2)])] in
  wf_doc L = true /\ wf_doc R = true /\
  data_eq L R = false /\ equiv ArrValue AohValue L R = true /\
  omap shows_difference (compare_to path_eq_real (cfg_of "value" "value") L R) = Ok false /\
  omap shows_difference (compare_to path_eq_real dflt L R) = Ok true.
Proof. vm_compute. repeat split; reflexivity. Qed.

(* identity-key modes: the guard holds of a non-trivial pair (records reordered,
   one changed, a nested keyed list), and the model agrees with the equivalence *)
Example uniform_key : uniform (cfg_of "position" "key") ArrPosition AohKey /\ c_keys (cfg_of "position" "key") = [].
Proof. split; [split; intros nc; reflexivity | reflexivity]. Qed.
Example uniform_deep : uniform (cfg_of "position" "deep") ArrPosition AohDeep /\ c_keys (cfg_of "position" "deep") = [].
Proof. split; [split; intros nc; reflexivity | reflexivity]. Qed.

Example C06_keyed_guard_example :
  let rcd o i v sub := mp o [(lf 2 (PStr "id"), lf (o + 1)%N (PInt i)); (lf 4 (PStr "v"), lf (o + 2)%N (PStr v));
                             (lf 5 (PStr "sub"), sq (o + 3)%N sub)] in
  let s1 := mp 50 [(lf 51 (PStr "n"), lf 52 (PStr "p"))] in
  let s2 := mp 53 [(lf 51 (PStr "n"), lf 54 (PStr "q"))] in
  let L := mp 0 [(lf 1 (PStr "r"), sq 10 [rcd 20%N 1%Z "w" [s1; s2]; rcd 30%N 2%Z "x" []])] in
  let R := mp 6 [(lf 1 (PStr "r"), sq 11 [rcd 40%N 2%Z "x" []; rcd 60%N 1%Z "w" [s2; s1]])] in
  wf_doc L = true /\ wf_doc R = true /\
  kguard ArrPosition AohDeep L R = true /\ kguard ArrPosition AohKey L R = true /\ kguard ArrValue AohDeep L R = true /\
  data_eq L R = false /\
  equiv ArrPosition AohDeep L R = true /\ equiv ArrPosition AohKey L R = false /\
  omap shows_difference (compare_to path_eq_real (cfg_of "position" "deep") L R) = Ok false /\
  omap shows_difference (compare_to path_eq_real (cfg_of "position" "key") L R) = Ok true /\
  equiv ArrValue AohDeep L R = true /\
  omap shows_difference (compare_to path_eq_real (cfg_of "value" "deep") L R) = Ok false.
Proof. vm_compute. repeat split; reflexivity. Qed.

(* ====================================================================== *)
(* An entry's path leads to the values it reports: the path TEXT of an entry
   (DiffEntry.path, built by `path + escape_path_section(key, path.separator)` /
   `path + "[idx]"`), fed into a required query on the left (right) document,
   yields exactly one result - the node the truthfulness theorem says the
   document holds at the entry's location, i.e. the entry's left (right) value.
   Proofs: Proofs/ResolveDiff.v (text = build_orig of the location, NO condition on
   keys), Proofs/ResolveTools.v, Proofs/ResolveMain.v; vocabulary Model/PathBuild.v
   (explained in Properties/C02.v).  Guard [pb_safe Dot doc loc] = the keys on the
   way are ones escape_path_section protects = listed finding F5 (odd_key_path);
   witness below.  The evaluator's oracles / parameters are universally quantified. *)
From YP Require Import PathParser Eval PathBuild ResolveEval ResolveDiff ResolveTools.

Theorem C06_entry_path_resolves_partial :
  forall elit ere nstr vstr kw_handler creator path_eq cfg L R es e f,
    positional cfg -> wf_doc L = true -> wf_doc R = true ->
    compare_to path_eq cfg L R = Ok es -> In e es ->
    e_path e = build_orig (e_loc e)
    /\ (has_left e = true -> pb_safe Dot L (e_loc e) = true ->
        exists p, prepare (S f) (e_path e) = Ok p
                  /\ get_required elit ere nstr vstr kw_handler creator p L = ([pb_coords L (e_loc e) (e_lhs e)], Done))
    /\ (has_right e = true -> pb_safe Dot R (e_loc e) = true ->
        exists p, prepare (S f) (e_path e) = Ok p
                  /\ get_required elit ere nstr vstr kw_handler creator p R = ([pb_coords R (e_loc e) (e_rhs e)], Done)).
Proof. exact diff_entry_resolves. Qed.
Print Assumptions C06_entry_path_resolves_partial.

(* the text of every entry of a positional diff, with no condition on the keys *)
Theorem C06_entry_path_text :
  forall path_eq cfg L R es,
    positional cfg -> compare_to path_eq cfg L R = Ok es ->
    Forall (fun e => e_path e = build_orig (e_loc e)) es.
Proof. exact entry_path_text. Qed.
Print Assumptions C06_entry_path_text.

(* non-vacuity: keys with every escapable character, nested sequences; every
   entry's location satisfies the guard on the side(s) it speaks about *)
Definition C06_esc_key : string := "a\b.c/d(e)f[g]h^i$j%k l'm""n".
Definition C06_escL : node :=
  mp 0 [(lf 1 (PStr C06_esc_key), sq 2 [lf 3 (PInt 1); sq 4 [mp 5 [(lf 6 (PStr "p q"), lf 7 (PStr "old"))]]]);
        (lf 8 (PStr "gone/key"), lf 9 (PInt 0))].
Definition C06_escR : node :=
  mp 10 [(lf 1 (PStr C06_esc_key), sq 12 [lf 3 (PInt 1); sq 14 [mp 15 [(lf 6 (PStr "p q"), lf 17 (PStr "new"))]]; lf 18 (PInt 2)])].

Example C06_entry_path_nonvacuous :
  wf_doc C06_escL = true /\ wf_doc C06_escR = true
  /\ omap (map (fun e => (e_action e, e_path e))) (compare_to path_eq_real (cfg_of "position" "dpos") C06_escL C06_escR)
     = Ok [ (ASame, "a\\b\.c/d\(e\)f\[g\]h\^i\$j\%k\ l\'m\""n.[0]");
            (AChange, "a\\b\.c/d\(e\)f\[g\]h\^i\$j\%k\ l\'m\""n.[1].[0].p\ q");
            (AAdd, "a\\b\.c/d\(e\)f\[g\]h\^i\$j\%k\ l\'m\""n.[2]");
            (ADelete, "gone/key") ]
  /\ omap (forallb (fun e => (negb (has_left e) || pb_safe Dot C06_escL (e_loc e))
                             && (negb (has_right e) || pb_safe Dot C06_escR (e_loc e))))
          (compare_to path_eq_real (cfg_of "position" "dpos") C06_escL C06_escR) = Ok true.
Proof. vm_compute. repeat split; reflexivity. Qed.

(* the guard is needed (finding F5): {"*": 1, "b": 2} against {"*": 3, "b": 2} -
   the CHANGE entry for the key "*" has the path text "*", which selects both
   values of either document *)
Definition C06_kw0 (_ : bool) (_ : keyword) (_ : string) (_ : rval) (_ : ctx) : gen rval := gnil.
Definition C06_cr0 (_ : list pseg) (_ : nat) (_ : rval) (_ : ctx) : gen rval := gnil.
Definition C06_requery (d : node) (t : string) : option (list N) :=
  match prepare 5 t with
  | Ok p => Some (map (fun x => match x with RCoords (RNode n) _ _ _ _ => node_oid n | _ => 999%N end)
                      (fst (get_required (fun _ => Ok Searches.LFail) (fun _ _ => Ok (Searches.RMatch false))
                                         (fun _ => "") (fun _ => "") C06_kw0 C06_cr0 p d)))
  | _ => None
  end.

Theorem C06_entry_path_resolves_refuted :
  let L := mp 0 [(lf 1 (PStr "*"), lf 2 (PInt 1)); (lf 3 (PStr "b"), lf 4 (PInt 2))] in
  let R := mp 5 [(lf 1 (PStr "*"), lf 6 (PInt 3)); (lf 3 (PStr "b"), lf 4 (PInt 2))] in
  omap (map (fun e => (e_action e, e_path e, e_loc e))) (compare_to path_eq_real dflt L R)
    = Ok [ (AChange, "*", [RKey (PStr "*")]); (ASame, "b", [RKey (PStr "b")]) ]
  /\ pb_safe Dot L [RKey (PStr "*")] = false
  /\ C06_requery L "*" = Some [2; 4]%N.
Proof. vm_compute. repeat split; reflexivity. Qed.

(* ==================================================================== *)
(* ARBITRARY resolved configurations: the [rules] table (modes per list) and
   the [keys] table (identity keys per list / per record) are inputs of the
   model and universally quantified here.  [equiv_c cfg] reads every pair of
   sequences in the mode the configuration's own lookup selects at the
   coordinates of the right-hand list (position / whole-element position /
   value / identity key, the key in force per right-hand record) and is
   otherwise data equality; [kguard_c cfg] is finding F4 and the ONLY guard:
   at every pair of sequences read by identity key, each right-hand record
   holds the list's key and its own key in force, and identities pair the
   records one to one (identity values may be scalars, sequences or
   mappings: they are compared as data); it is checked along the pairing the
   comparison makes (value-synchronised lists along the greedy strike-out,
   not over all pairs of equal elements). *)
Theorem C06_nonsame_iff_differ_cfg_partial :
  forall path_eq cfg L R es,
    wf_doc L = true -> wf_doc R = true ->
    kguard_c cfg L R None PNone = true ->
    compare_to path_eq cfg L R = Ok es ->
    shows_difference es = negb (equiv_c cfg L R None PNone).
Proof. exact compare_to_iff_c. Qed.
Print Assumptions C06_nonsame_iff_differ_cfg_partial.

(* no guard at all when the configuration never selects --aoh key | deep *)
Theorem C06_nonsame_iff_differ_cfg :
  forall path_eq cfg L R es,
    nokey_cfg cfg -> wf_doc L = true -> wf_doc R = true ->
    compare_to path_eq cfg L R = Ok es ->
    shows_difference es = negb (equiv_c cfg L R None PNone).
Proof. exact nonsame_iff_differ_nokey. Qed.
Print Assumptions C06_nonsame_iff_differ_cfg.

Theorem C06_reflexive_cfg :
  forall path_eq cfg L es,
    nokey_cfg cfg -> wf_doc L = true ->
    compare_to path_eq cfg L L = Ok es -> shows_difference es = false.
Proof. exact reflexive_nokey. Qed.
Print Assumptions C06_reflexive_cfg.

Theorem C06_reflexive_cfg_partial :
  forall path_eq cfg L es,
    wf_doc L = true -> kguard_c cfg L L None PNone = true ->
    compare_to path_eq cfg L L = Ok es -> shows_difference es = false.
Proof. exact reflexive_c. Qed.
Print Assumptions C06_reflexive_cfg_partial.

Theorem C06_equal_no_difference_cfg_partial :
  forall path_eq cfg L R es,
    wf_doc L = true -> wf_doc R = true -> kguard_c cfg L R None PNone = true ->
    data_eq L R = true ->
    compare_to path_eq cfg L R = Ok es -> shows_difference es = false.
Proof. exact equal_no_difference_c. Qed.
Print Assumptions C06_equal_no_difference_cfg_partial.

(* equal documents are equivalent under every configuration (under the guard) *)
Theorem C06_equal_implies_equiv_cfg :
  forall cfg a b par pref,
    wf_doc a = true -> wf_doc b = true -> kguard_c cfg a b par pref = true ->
    data_eq a b = true -> equiv_c cfg a b par pref = true.
Proof. exact data_eq_equiv_c. Qed.
Print Assumptions C06_equal_implies_equiv_cfg.

(* the configured equivalence IS the uniform one when the configuration is uniform *)
Theorem C06_equiv_cfg_uniform :
  forall cfg am hm, uniform cfg am hm -> unkeyed hm = true ->
    forall a b par pref, equiv_c cfg a b par pref = equiv am hm a b.
Proof. exact equiv_c_uniform. Qed.
Print Assumptions C06_equiv_cfg_uniform.

Theorem C06_guard_cfg_nokey :
  forall cfg, nokey_cfg cfg -> forall a b par pref, kguard_c cfg a b par pref = true.
Proof. exact kguard_c_nokey. Qed.
Print Assumptions C06_guard_cfg_nokey.

(* F4 under a [keys] table: the configured identity key is missing *)
Theorem C06_reflexive_cfg_refuted :
  exists cfg d es, c_keys cfg <> [] /\ wf_doc d = true /\ kguard_c cfg d d None PNone = false /\
    compare_to path_eq_real cfg d d = Ok es /\ shows_difference es = true.
Proof. exact reflexive_cfg_refuted_witness. Qed.
Print Assumptions C06_reflexive_cfg_refuted.

(* non-vacuity: a NON-uniform configuration ([rules] /x = value): x reordered
   shows no difference, y reordered does *)
Example C06_cfg_rules_example :
  let L := xy_doc 0 [1; 2; 3]%Z [1; 2; 3]%Z in
  let R := xy_doc 100 [3; 1; 2]%Z [1; 2; 3]%Z in
  let R' := xy_doc 100 [1; 2; 3]%Z [3; 1; 2]%Z in
  (wf_doc L = true /\ wf_doc R = true /\ wf_doc R' = true) /\
  (~ uniform (rules_cfg R) ArrPosition AohPosition /\ ~ uniform (rules_cfg R) ArrValue AohPosition) /\
  kguard_c (rules_cfg R) L R None PNone = true /\
  equiv_c (rules_cfg R) L R None PNone = true /\ data_eq L R = false /\
  (exists es, compare_to path_eq_real (rules_cfg R) L R = Ok es /\ shows_difference es = false) /\
  equiv_c (rules_cfg R') L R' None PNone = false /\
  (exists es, compare_to path_eq_real (rules_cfg R') L R' = Ok es /\ shows_difference es = true).
Proof. exact rules_example. Qed.

(* a rule naming a list nested directly inside a positionally compared list
   ([rules] /a[0] = value on a: [[..], [..]]) is honoured (repaired: the
   element's parentref used to be its index + 1 and the rule was never found):
   a[0] reordered shows no difference, a[1] reordered does *)
Example C06_cfg_nested_rule_example :
  let L := nest_doc 0 [1; 2; 3]%Z [4; 5; 6]%Z in
  let R := nest_doc 100 [3; 1; 2]%Z [4; 5; 6]%Z in
  let R' := nest_doc 100 [1; 2; 3]%Z [6; 4; 5]%Z in
  (wf_doc L = true /\ wf_doc R = true /\ wf_doc R' = true) /\
  c_rules (nest_cfg R) <> [] /\
  kguard_c (nest_cfg R) L R None PNone = true /\
  equiv_c (nest_cfg R) L R None PNone = true /\ data_eq L R = false /\
  (exists es, compare_to path_eq_real (nest_cfg R) L R = Ok es /\ shows_difference es = false) /\
  equiv_c (nest_cfg R') L R' None PNone = false /\
  (exists es, compare_to path_eq_real (nest_cfg R') L R' = Ok es /\ shows_difference es = true).
Proof. exact nested_rule_example. Qed.

(* non-vacuity: --aoh key with [keys] /r = name on records whose first key's
   values coincide: the guard holds for the configured key, not for `id` *)
Example C06_cfg_keys_example :
  let L := recs_doc 0 [(1%Z, "a"); (1%Z, "bb")] in
  let R := recs_doc 1000 [(1%Z, "bb"); (1%Z, "a")] in
  wf_doc L = true /\ wf_doc R = true /\ c_keys (keys_cfg "name" R) <> [] /\
  kguard_c (keys_cfg "name" R) L R None PNone = true /\
  equiv_c (keys_cfg "name" R) L R None PNone = true /\ data_eq L R = false /\
  (exists es, compare_to path_eq_real (keys_cfg "name" R) L R = Ok es /\ shows_difference es = false) /\
  kguard_c (keys_cfg "id" R) L R None PNone = false.
Proof. exact keys_example. Qed.

(* ==================================================================== *)
(* data equality is an equivalence relation on real documents (reflexive:
   no hypothesis; symmetric, transitive: well-formed documents), so the greedy
   strike-out [bag_eqb data_eq] used by the value-mode equivalence decides
   equality of two lists as multisets of data: it succeeds exactly when the
   right list can be reordered into a list equal to the left one element by
   element - and "equal as bags" is itself reflexive, symmetric, transitive. *)
Theorem C06_data_eq_equivalence :
  (forall a, data_eq a a = true) /\
  (forall a b, wf_doc a = true -> wf_doc b = true -> data_eq a b = true -> data_eq b a = true) /\
  (forall a b c, wf_doc a = true -> wf_doc b = true -> wf_doc c = true ->
     data_eq a b = true -> data_eq b c = true -> data_eq a c = true).
Proof. exact (conj data_eq_refl (conj data_eq_sym data_eq_trans)). Qed.
Print Assumptions C06_data_eq_equivalence.

Theorem C06_bag_decides_multiset_equality :
  forall l l', all_wf l -> all_wf l' ->
    (bag_eqb data_eq l l' = true <->
     exists l'', Permutation l'' l' /\ forall2b data_eq l l'' = true).
Proof. exact bag_eqb_iff. Qed.
Print Assumptions C06_bag_decides_multiset_equality.

Theorem C06_bag_equivalence :
  (forall l, bag_eqb data_eq l l = true) /\
  (forall l l', all_wf l -> all_wf l' -> bag_eqb data_eq l l' = true -> bag_eqb data_eq l' l = true) /\
  (forall l1 l2 l3, all_wf l1 -> all_wf l2 -> all_wf l3 ->
     bag_eqb data_eq l1 l2 = true -> bag_eqb data_eq l2 l3 = true -> bag_eqb data_eq l1 l3 = true).
Proof. exact (conj bag_eqb_refl (conj bag_eqb_sym bag_eqb_trans)). Qed.
Print Assumptions C06_bag_equivalence.

Example C06_bag_example :
  all_wf [lf 1 (PInt 1); lf 2 (PInt 2); lf 3 (PFloat (QArith_base.Qmake 3 1) "3.0")] /\
  bag_eqb data_eq [lf 1 (PInt 1); lf 2 (PInt 2); lf 3 (PFloat (QArith_base.Qmake 3 1) "3.0")]
                  [lf 4 (PInt 3); lf 5 (PBool true); lf 6 (PInt 2)] = true.
Proof. split; [intros x [<-|[<-|[<-|[]]]]; reflexivity | vm_compute; reflexivity]. Qed.

(* ==================================================================== *)
(* What an entry says about the two documents in EVERY mode and under every
   configuration.  [C06_truthful] (positional) says both values sit at the
   entry's location.  In the synchronised modes the two values of an entry
   sit at different indices of a reordered list; [sgood L R e] says: there
   are a left location lL and a right location lR such that
     - the right value (SAME / CHANGE / ADD) is what R holds at lR;
     - the left value (SAME / CHANGE / DELETE) is what L holds at lL - or,
       for a CHANGE that _diff_synced_lists made by popping a DELETE with an
       equal path, what L holds at that DELETE's location;
     - the entry's location agrees position by position with lL or with lR
       ([mix]: keys, set members and positional indices are the same in all
       three; in a value-synchronised list the entries of a matched pair, and
       in key mode the SAME / CHANGE of a matched pair, take the LEFT index;
       in deep mode the entries beneath a matched pair take the RIGHT index;
       an unmatched left element is deleted at its left index, an unmatched
       right element added at its right index);
     - SAME values are equal under Differ._same_data.
   Witnesses: under --aoh deep a DELETE can carry the right index of the
   matched record, so [truthful] as stated for positional comparison fails
   there (C06_truthful_deep_refuted); under --arrays value the ADD carries
   the right index and the SAME the left (C06_truthful_value_example). *)
Theorem C06_truthful_sync :
  forall path_eq cfg L R es,
    wf_doc L = true -> wf_doc R = true ->
    compare_to path_eq cfg L R = Ok es -> Forall (sgood L R) es.
Proof. exact sync_truthful. Qed.
Print Assumptions C06_truthful_sync.

Theorem C06_truthful_is_sync_special_case :
  forall L R e, truthful L R e ->
    (e_action e = ASame -> val_eq (e_lhs e) (e_rhs e) = true) -> sgood L R e.
Proof. exact truthful_sgood. Qed.
Print Assumptions C06_truthful_is_sync_special_case.

Theorem C06_truthful_deep_refuted :
  wf_doc deep_L = true /\ wf_doc deep_R = true /\ kguard_c deep_cfg deep_L deep_R None PNone = true /\
  exists es, compare_to path_eq_real deep_cfg deep_L deep_R = Ok es /\
    exists e, nth_error es 3 = Some e /\ e_action e = ADelete /\ e_path e = "[0].b" /\
      e_loc e = [RIdx 0; RKey (PStr "b")] /\
      lookup deep_L (e_loc e) = None /\
      lookup deep_L [RIdx 1; RKey (PStr "b")] = Some (e_lhs e).
Proof. exact truthful_deep_witness. Qed.
Print Assumptions C06_truthful_deep_refuted.

Example C06_truthful_value_example :
  exists es, compare_to path_eq_real value_cfg (ints 0 [1; 2]%Z) (ints 100 [2; 3]%Z) = Ok es /\
    map (fun e => (e_action e, e_loc e, leaf_value (e_lhs e), leaf_value (e_rhs e))) es =
      [(ADelete, [RIdx 0], PInt 1, PNone); (ASame, [RIdx 1], PInt 2, PInt 2); (AAdd, [RIdx 1], PNone, PInt 3)].
Proof. exact truthful_value_witness. Qed.

(* Every remaining statement of this file, so that none is left unaudited. *)
Print Assumptions C06_printed_are_differences.
Print Assumptions C06_complete_refuted.
Print Assumptions C06_root_guard_nonnull.
Print Assumptions C06_equiv_positional_is_data_eq.
Print Assumptions C06_reflexive_refuted.
Print Assumptions C06_accounting_refuted.
Print Assumptions C06_entry_path_resolves_refuted.
