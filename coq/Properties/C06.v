(* C06 -- A diff is truthful and complete; it is empty of changes iff the data
   are equal.  Statements only; proofs live in Proofs/DiffBase.v, DiffPos.v,
   DiffTotal.v, DiffSync.v.  The model (Model/Diff.v) is the Differ AFTER the
   `fix:` commits listed in docs/C06.md.

   Vocabulary: [compare_to path_eq cfg L R] is Differ(cfg, L).compare_to(R)
   followed by get_report (as a list in append order); [path_eq] stands for
   YAMLPath.__eq__ and is universally quantified (any function);
   [positional cfg] says the configuration selects positional comparison at
   every list (--arrays position, --aoh position|dpos, the defaults);
   [wf_doc] says a document is real Python data (unique, untagged scalar keys
   and set members).  [e_loc] is the structural location of an entry (ghost
   field built next to the path text; the text itself is compared with the
   implementation by the correspondence check and resolved on the real code
   by the judge).

   What is NOT proved here (checked only by the correspondence run and the
   judge, see docs/C06.md "missing"): leaf coverage (C06_complete), the
   non-SAME <-> differ equivalence and its reflexivity corollary, and
   entry-level accounting through mappings. *)
From Coq Require Import List Ascii String ZArith NArith Bool Arith Permutation.
From YP Require Import Outcome PyStr PyVal Doc Diff C06Spec DiffBase DiffPos DiffTotal DiffSync DiffEq.
Import ListNotations.
Open Scope string_scope.

(* Under positional comparison every entry is true of the two documents:
   a SAME/CHANGE/DELETE entry's left value is what the left document holds at
   the entry's location, a SAME/CHANGE/ADD entry's right value is what the
   right document holds there -- for ALL document pairs. *)
Theorem C06_truthful :
  forall path_eq cfg L R es,
    positional cfg -> wf_doc L = true -> wf_doc R = true ->
    compare_to path_eq cfg L R = Ok es ->
    Forall (truthful L R) es.
Proof. exact positional_truthful. Qed.
Print Assumptions C06_truthful.

(* SAME values are equal and CHANGE values differ -- under Python's == on the
   loaded nodes (node_eq: dict equality without key order, list equality,
   set equality, identity for tagged scalars). *)
Theorem C06_same_equal_py :
  forall path_eq cfg L R es,
    positional cfg -> wf_doc L = true -> wf_doc R = true ->
    compare_to path_eq cfg L R = Ok es ->
    Forall (fun e => e_action e = ASame -> node_eq (e_lhs e) (e_rhs e) = true) es.
Proof. exact positional_same_py. Qed.
Print Assumptions C06_same_equal_py.

Theorem C06_change_differs_py :
  forall path_eq cfg L R es,
    positional cfg -> wf_doc L = true -> wf_doc R = true ->
    compare_to path_eq cfg L R = Ok es ->
    Forall (fun e => e_action e = AChange -> node_eq (e_lhs e) (e_rhs e) = false) es.
Proof. exact positional_change_py. Qed.
Print Assumptions C06_change_differs_py.

(* SAME values are equal and CHANGE values differ AS DATA (the spec's data_eq:
   key order is not data, sequence order and tags are).  Guard: neither
   document carries an explicit YAML tag -- with tags the statement is false
   (known finding F1): a TaggedScalar is compared by identity and container
   tags are ignored by Python's ==. *)
Theorem C06_same_equal_partial :
  forall path_eq cfg L R es,
    positional cfg -> wf_doc L = true -> wf_doc R = true ->
    untagged L = true -> untagged R = true ->
    compare_to path_eq cfg L R = Ok es -> Forall same_ok es.
Proof. exact positional_same_equal. Qed.
Print Assumptions C06_same_equal_partial.

Theorem C06_same_equal_refuted :
  exists L R es, wf_doc L = true /\ wf_doc R = true /\
    compare_to path_eq_real dflt_cfg L R = Ok es /\ ~ Forall same_ok es.
Proof. exact same_equal_refuted_witness. Qed.

Theorem C06_change_differs_partial :
  forall path_eq cfg L R es,
    positional cfg -> wf_doc L = true -> wf_doc R = true ->
    untagged L = true -> untagged R = true ->
    compare_to path_eq cfg L R = Ok es -> Forall change_ok es.
Proof. exact positional_change_differs. Qed.
Print Assumptions C06_change_differs_partial.

Theorem C06_change_differs_refuted :
  exists L R es, wf_doc L = true /\ wf_doc R = true /\
    compare_to path_eq_real dflt_cfg L R = Ok es /\ ~ Forall change_ok es.
Proof. exact change_differs_refuted_witness. Qed.

(* Python's == on loaded nodes IS data equality on real, untagged documents *)
Theorem C06_python_eq_is_data_eq :
  forall a b, wf_doc a = true -> wf_doc b = true -> untagged a = true -> untagged b = true ->
    node_eq a b = data_eq a b.
Proof. exact node_eq_data_eq. Qed.
Print Assumptions C06_python_eq_is_data_eq.

(* A positional comparison always yields a diff: the fuel compare_to hands to
   the recursion suffices (never OutOfFuel) and nothing raises -- in
   particular none of the crashes repaired by the fix: commits. *)
Theorem C06_total_positional :
  forall path_eq cfg L R, positional cfg -> exists es, compare_to path_eq cfg L R = Ok es.
Proof. exact positional_total. Qed.
Print Assumptions C06_total_positional.

(* Accounting, synchronised modes: both synchronisers account for every
   element exactly once -- the left components of the produced tuples are the
   left list, in order, each index once; the right components are a
   permutation of the right list. *)
Theorem C06_accounting_sync_value :
  forall lels rels,
    lefts (sync_value lels rels) = enumerate lels /\
    Permutation (rights (sync_value lels rels)) (enumerate rels).
Proof. exact sync_value_accounting. Qed.
Print Assumptions C06_accounting_sync_value.

Theorem C06_accounting_sync_key :
  forall cfg r lels rels,
    lefts (sync_key cfg r lels rels) = enumerate lels /\
    Permutation (rights (sync_key cfg r lels rels)) (enumerate rels).
Proof. exact sync_key_accounting. Qed.
Print Assumptions C06_accounting_sync_key.

(* yaml-diff's exit state is 1 exactly when the report has a non-SAME entry,
   and without --same/--onlysame only differences are printed. *)
Theorem C06_exit_state : forall es, exit_state es = 1 <-> shows_difference es = true.
Proof. exact exit_state_spec. Qed.
Print Assumptions C06_exit_state.

Theorem C06_printed_are_differences :
  forall es e, In e (printed_entries false false false es) -> is_different e = true.
Proof. exact printed_default_are_differences. Qed.

(* ---- non-vacuity and the repaired defects, by computation on the model ---- *)
Definition dflt : dcfg := mkdcfg false [] [] None None None None.
Definition cfg_of (arrays aoh : string) : dcfg := mkdcfg false [] [] (Some arrays) (Some aoh) None None.
Definition lf (o : N) (v : pyval) : node := NLeaf (mkinfo o None false None) v.
Definition sq (o : N) (l : list node) : node := NSeq (mkinfo o None true None) l.
Definition mp (o : N) (l : list (node * node)) : node := NMap (mkinfo o None true None) l.
Definition acts (o : outcome (list entry)) : outcome (list (action * loc)) :=
  omap (map (fun e => (e_action e, e_loc e))) o.

Example positional_default : positional dflt.
Proof. split; intros nc; [reflexivity | left; reflexivity]. Qed.
Example positional_dpos : positional (cfg_of "position" "dpos").
Proof. split; intros nc; [reflexivity | right; reflexivity]. Qed.

(* defect #18, repaired: [a, null] compared with itself shows no difference *)
Example C06_fixed_null_element :
  let d := sq 0 [lf 1 (PStr "a"); lf 2 PNone] in
  wf_doc d = true /\
  acts (compare_to path_eq_real dflt d d) = Ok [(ASame, [RIdx 0]); (ASame, [RIdx 1])].
Proof. vm_compute. split; reflexivity. Qed.

Example C06_guard_example :
  let L := sq 0 [mp 1 [(lf 2 (PStr "a"), lf 3 (PInt 1)); (lf 4 (PStr "b"), lf 5 (PInt 2))]] in
  let R := sq 6 [mp 7 [(lf 4 (PStr "b"), lf 5 (PInt 2)); (lf 2 (PStr "a"), lf 3 (PInt 1))]] in
  wf_doc L = true /\ wf_doc R = true /\ untagged L = true /\ untagged R = true /\
  acts (compare_to path_eq_real dflt L R) = Ok [(ASame, [RIdx 0])].
Proof. vm_compute. repeat split; reflexivity. Qed.

(* defect #19, repaired: [1, 2] compared with [] reports two deletions *)
Example C06_fixed_empty_rhs :
  acts (compare_to path_eq_real dflt (sq 0 [lf 1 (PInt 1); lf 2 (PInt 2)]) (sq 3 [])) =
  Ok [(ADelete, [RIdx 0]); (ADelete, [RIdx 1])].
Proof. vm_compute. reflexivity. Qed.

(* value-synchronised: the pop-a-DELETE step turns DELETE [1] + ADD [1] into CHANGE [1] *)
Example C06_value_mode_change :
  acts (compare_to path_eq_real (cfg_of "value" "value")
          (sq 0 [lf 1 (PInt 1); lf 2 (PInt 2); lf 3 (PInt 3)])
          (sq 4 [lf 1 (PInt 1); lf 5 (PInt 4); lf 3 (PInt 3)])) =
  Ok [(ASame, [RIdx 0]); (ASame, [RIdx 2]); (AChange, [RIdx 1])].
Proof. vm_compute. reflexivity. Qed.

(* a null facing a container with content: the null leaf is covered by no
   entry (known finding F3; the reason C06_complete needs its guard) *)
Example C06_complete_refuted :
  let L := mp 0 [(lf 1 (PStr "a"), lf 2 PNone)] in
  let R := mp 3 [(lf 1 (PStr "a"), mp 4 [(lf 5 (PStr "b"), lf 6 (PInt 1))])] in
  wf_doc L = true /\ wf_doc R = true /\
  acts (compare_to path_eq_real dflt L R) = Ok [(AAdd, [RKey (PStr "a"); RKey (PStr "b")])].
Proof. vm_compute. repeat split; reflexivity. Qed.

(* two loads of one tagged scalar are different objects: CHANGE between equal
   data (known finding F1) *)
Example C06_same_refuted_tagged :
  let t o := NLeaf (mkinfo o None false (Some "x")) (POther "b") in
  data_eq (t 1%N) (t 2%N) = true /\
  acts (compare_to path_eq_real dflt (t 1%N) (t 2%N)) = Ok [(AChange, [])].
Proof. vm_compute. split; reflexivity. Qed.

(* key mode, a record without the identity key: a document compared with
   itself shows differences (known finding F4) *)
Example C06_reflexive_refuted_key_mode :
  let d := sq 0 [mp 1 [(lf 2 (PStr "a"), lf 3 (PInt 1))]; mp 4 [(lf 5 (PStr "b"), lf 6 (PInt 2))]] in
  acts (compare_to path_eq_real (cfg_of "position" "key") d d) =
  Ok [(ASame, [RIdx 0]); (ADelete, [RIdx 1]); (AAdd, [RIdx 1])].
Proof. vm_compute. reflexivity. Qed.
