(* C09 (purity half) -- queries never modify the document.
   Statements only; proofs live in Proofs/EvalPure.v.

   The evaluator model is a pure function of an immutable document value; a
   statement that writes to a loaded object ends the stream with [Mut oid key].
   "The document is left exactly as it was" is therefore [pure_stop]: the stream
   does not end in [Mut].  The one such statement of the read paths -- the
   deferred `del updated_coords[idx].deepest_node_coord.node[key]` of
   _collector_subtraction, finding F16 -- was repaired (fix 30ffde4: the pairs are
   removed from a shallow copy of the hash) and the model follows the repaired
   code, so the statements hold for EVERY path.  The creation half of C09
   (optional queries on missing paths) belongs to another model; here the
   node-creating branches are the parameter [creator]. *)
From Coq Require Import List Ascii String ZArith NArith Bool.
From YP Require Import Outcome PyStr PyVal Doc Generated PathParser PathPrinter Searches Eval SpecC15 SpecC09
     EvalPure.
Import ListNotations.
Open Scope string_scope.

Section Statements.
Variable lit : string -> outcome litres.
Variable re_search : string -> string -> outcome reres.
Variable nstr : node -> string.
Variable vstr : list rval -> string.
Variable kw_handler : bool -> keyword -> string -> rval -> ctx -> gen rval.
Variable creator : list pseg -> nat -> rval -> ctx -> gen rval.
Hypothesis kw_pure : forall inv k ps v c, nomut (kw_handler inv k ps v c).

(* every path -- collectors with +, - and & included, any nesting, keyword
   segments, searches, traversals, slices --: a required query does not write *)
Theorem C09_required_pure :
  forall (p : ppath) (d : node),
    pure_stop (snd (get_required lit re_search nstr vstr kw_handler creator p d)).
Proof. exact (get_required_pure lit re_search nstr vstr kw_handler creator kw_pure). Qed.

Theorem C09_exists_pure :
  forall (p : ppath) (d : node),
    pure_stop (snd (exists_ lit re_search nstr vstr kw_handler creator p d)).
Proof. exact (exists_pure lit re_search nstr vstr kw_handler creator kw_pure). Qed.

End Statements.
Print Assumptions C09_required_pure.
Print Assumptions C09_exists_pure.

Definition lit1 (s : string) : outcome litres :=
  Ok (match py_int s with Some z => LVal (PInt z) | None => LFail end).
Definition re1 (_ _ : string) : outcome reres := Ok (RMatch false).
Definition nstr1 (_ : node) : string := "".
Definition vstr1 (_ : list rval) : string := "".
Definition kw1 (_ : bool) (_ : keyword) (_ : string) (_ : rval) (_ : ctx) : gen rval := gnil.
Definition cr1 (_ : list pseg) (_ : nat) (_ : rval) (_ : ctx) : gen rval := gerr (YPE Generic).
Definition inf1 (n : N) : info := mkinfo n None false None.
Definition leaf1 (n : N) (v : pyval) : node := NLeaf (inf1 n) v.
(* {h: {a: 1, b: 2}} *)
Definition doc_h : node :=
  NMap (inf1 0) [(leaf1 1 (PStr "h"),
                  NMap (inf1 2) [(leaf1 3 (PStr "a"), leaf1 4 (PInt 1)); (leaf1 5 (PStr "b"), leaf1 6 (PInt 2))])].

(* Finding F16, now fixed: "(h)-(h.a)" used to end in [Mut 2 "a"] (the dict
   object h lost its pair a).  The repaired subtraction answers with a reduced
   COPY of h (a new object: identity copy_base + 2, the pair b: 2 with the
   document's own objects 5 and 6, the coordinates of h) and ends [Done]. *)
Example C09_subtraction_on_copy :
  match prepare 12 "(h)-(h.a)" with
  | Ok p => no_sub p = false /\
            get_required lit1 re1 nstr1 vstr1 kw1 cr1 p doc_h
            = ([RCoords (RList [RCoords (RNode (NMap (inf1 (copy_base + 2))
                                                   [(leaf1 5 (PStr "b"), leaf1 6 (PInt 2))]))
                                       (Some (RNode doc_h)) (Some (PStr "h")) "h" [(RNode doc_h, PStr "h")]])
                        None None "" []], Done)
  | _ => False
  end.
Proof. vm_compute. split; reflexivity. Qed.

(* a pair matched twice is removed once; the hash that is itself subtracted
   away takes no pair of its successor with it *)
Definition doc_hg : node :=
  NMap (inf1 0) [(leaf1 1 (PStr "h"),
                  NMap (inf1 2) [(leaf1 3 (PStr "a"), leaf1 4 (PInt 1)); (leaf1 5 (PStr "b"), leaf1 6 (PInt 2))]);
                 (leaf1 7 (PStr "g"), NMap (inf1 8) [(leaf1 3 (PStr "a"), leaf1 4 (PInt 1))])].
Example C09_subtraction_pair_twice :
  match prepare 12 "(h)-(*.a)" with
  | Ok p => match get_required lit1 re1 nstr1 vstr1 kw1 cr1 p doc_hg with
            | ([RCoords (RList [RCoords (RNode (NMap i [(k, v)])) _ _ _ _]) _ _ _ _], Done) =>
                oid i = (copy_base + 2)%N /\ node_oid k = 5%N /\ node_oid v = 6%N
            | _ => False
            end
  | _ => False
  end.
Proof. vm_compute. repeat split; reflexivity. Qed.

(* collector paths with + and & select the document's own objects *)
Example C09_collector_example :
  match prepare 20 "(h.a)+(h.b)&(h.b)" with
  | Ok p => no_sub p = true /\
            match get_required lit1 re1 nstr1 vstr1 kw1 cr1 p doc_h with
            | ([RCoords (RList [RCoords (RNode n) _ _ _ _]) _ _ _ _], Done) => node_oid n = 6%N
            | _ => False
            end
  | _ => False
  end.
Proof. vm_compute. split; reflexivity. Qed.
