(* C09 (purity half) -- queries never modify the document.
   Statements only; proofs live in Proofs/EvalPure.v.

   The evaluator model is a pure function of an immutable document value; the
   single statement of the read path that writes to a loaded object
   (`del updated_coords[idx].deepest_node_coord.node[key]`, processor.py:1644-1645,
   collector subtraction) ends the stream with [Mut oid key].  "The document is
   left exactly as it was" is therefore [pure_stop]: the stream does not end in
   [Mut].  The creation half of C09 (optional queries on missing paths) belongs
   to another model; here the node-creating branches are the parameter [creator]. *)
From Coq Require Import List Ascii String ZArith NArith Bool.
From YP Require Import Outcome PyStr PyVal Doc Generated PathParser PathPrinter Searches Eval SpecC15 SpecC09
     EvalPure.
Import ListNotations.
Open Scope string_scope.

Section Statements.
Variable lit : string -> outcome litres.
Variable re_search : string -> string -> outcome reres.
Variable nstr : node -> string.
Variable vstr : list rval -> string.
Variable kw_handler : bool -> keyword -> string -> rval -> ctx -> gen rval.
Variable creator : list pseg -> nat -> rval -> ctx -> gen rval.
Hypothesis kw_pure : forall inv k ps v c, nomut (kw_handler inv k ps v c).

(* every path -- collectors with + and & included, any nesting -- that contains
   no subtraction collector: a required query does not write *)
Theorem C09_required_pure_partial :
  forall (p : ppath) (d : node),
    no_sub p = true ->
    pure_stop (snd (get_required lit re_search nstr vstr kw_handler creator p d)).
Proof. exact (get_required_pure lit re_search nstr vstr kw_handler creator kw_pure). Qed.

Theorem C09_exists_pure_partial :
  forall (p : ppath) (d : node),
    no_sub p = true ->
    pure_stop (snd (exists_ lit re_search nstr vstr kw_handler creator p d)).
Proof. exact (exists_pure lit re_search nstr vstr kw_handler creator kw_pure). Qed.

End Statements.
Print Assumptions C09_required_pure_partial.
Print Assumptions C09_exists_pure_partial.

Definition lit1 (s : string) : outcome litres :=
  Ok (match py_int s with Some z => LVal (PInt z) | None => LFail end).
Definition re1 (_ _ : string) : outcome reres := Ok (RMatch false).
Definition nstr1 (_ : node) : string := "".
Definition vstr1 (_ : list rval) : string := "".
Definition kw1 (_ : bool) (_ : keyword) (_ : string) (_ : rval) (_ : ctx) : gen rval := gnil.
Definition cr1 (_ : list pseg) (_ : nat) (_ : rval) (_ : ctx) : gen rval := gerr (YPE Generic).
Definition inf1 (n : N) : info := mkinfo n None false None.
Definition leaf1 (n : N) (v : pyval) : node := NLeaf (inf1 n) v.
(* {h: {a: 1, b: 2}} *)
Definition doc_h : node :=
  NMap (inf1 0) [(leaf1 1 (PStr "h"),
                  NMap (inf1 2) [(leaf1 3 (PStr "a"), leaf1 4 (PInt 1)); (leaf1 5 (PStr "b"), leaf1 6 (PInt 2))])].

(* The full statement ("for every kind of path including collectors with +, -
   and &") is FALSE: subtracting a pair from a hash deletes it from the
   document.  Known finding F16. *)
Theorem C09_subtraction_refuted :
  exists text,
    match prepare 12 text with
    | Ok p => no_sub p = false /\
              snd (get_required lit1 re1 nstr1 vstr1 kw1 cr1 p doc_h) = Mut 2%N (PStr "a")
    | _ => False
    end.
Proof. exists "(h)-(h.a)". vm_compute. split; reflexivity. Qed.

(* Non-vacuity of the guard: collector paths with + and & satisfy it and select nodes. *)
Example C09_guard_example :
  match prepare 20 "(h.a)+(h.b)&(h.b)" with
  | Ok p => no_sub p = true /\
            match get_required lit1 re1 nstr1 vstr1 kw1 cr1 p doc_h with
            | ([RCoords (RList [RCoords (RNode n) _ _ _ _]) _ _ _ _], Done) => node_oid n = 6%N
            | _ => False
            end
  | _ => False
  end.
Proof. vm_compute. split; reflexivity. Qed.
