#!/bin/sh
# tools/runall.sh [quick|thorough]: every claimed check in sequence; one summary line each.
cd "$(dirname "$0")/.."
tier="${1:-quick}"
for p in $(python3 -c "import json;print(' '.join(c['property_id'] for c in json.load(open('MANIFEST.json'))['checks']))"); do
  s=$(date +%s); out=$(./check "$p" --tier "$tier" 2>&1); rc=$?; e=$(date +%s)
  echo "$p exit=$rc $((e-s))s $(echo "$out" | grep -E '^(VIOLATION|KNOWN-FINDING)' | cut -c1-160 | tr '\n' '|')"
done
