#!/bin/sh
# (Re)generate coq/_CoqProject from the files present and the Makefile from it.
cd "$(dirname "$0")/../coq" || exit 2
{
  echo "-R Lib YP"
  echo "-R Gen YP"
  echo "-R Model YP"
  echo "-R Spec YP"
  echo "-R Proofs YP"
  echo "-R Properties YP"
  echo "-arg -w -arg -notation-overridden,-deprecated-hint-without-locality,-extraction-opaque-accessed,-extraction-reserved-identifier"
  find Lib Gen Model Spec Proofs Properties -name '*.v' | LC_ALL=C sort
} > _CoqProject.new
if ! cmp -s _CoqProject.new _CoqProject 2>/dev/null; then
  mv _CoqProject.new _CoqProject
  coq_makefile -f _CoqProject -o Makefile >/dev/null || exit 2
else
  rm -f _CoqProject.new
  [ -f Makefile ] || coq_makefile -f _CoqProject -o Makefile >/dev/null || exit 2
fi
