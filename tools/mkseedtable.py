#!/usr/bin/env python3
"""tools/mkseedtable.py: rewrite DESIGN.md section 0.2 (seeded code changes and the checks that catch them)
from seeded/*/meta.json."""
import glob, json, os, re
root = os.path.join(os.path.dirname(os.path.abspath(__file__)), "..")
rows = []
n_missed = 0
n_tie = 0
for d in sorted(glob.glob(os.path.join(root, "seeded", "*", "meta.json"))):
    m = json.load(open(d))
    sid = os.path.basename(os.path.dirname(d))
    runs = m.get("check_runs", [])
    caught = sorted({r["check"].split()[1] for r in runs if r["result"] == "caught"})
    notes = [r.get("note", "") for r in runs if r.get("note")]
    note = notes[-1] if notes else ""
    if any(r["result"] == "missed" for r in runs) and caught:
        note = "first missed; " + note
    if not caught:
        n_missed += 1
    elif all("tie only" in (r.get("note") or "") for r in runs if r["result"] == "caught"):
        n_tie += 1
        note = "NO failing input (tie only). " + note
    what = re.sub(r"\s+", " ", str(m.get("what_breaks", "")).replace("|", "/"))[:150]
    rows.append("| %s | %s | %s | %s |" % (sid, ", ".join("./check " + c for c in caught) or "**not caught**",
                                           what, note.replace("|", "/")[:170]))
sec = """### 0.2 Seeded code changes and the checks that catch them

%d independent changes (four rounds, four per property) were written by sub-agents that were given only the property
text and a scratch worktree; each was confirmed in a scratch worktree (`tools/seedverify.sh`: the test-suite
still reports 988 passed, the demo exits 0 without and 1 with the change) and is kept under `seeded/<id>/`.
`tools/seedtest.sh` applies one to `/repo`, runs the named checks and restores the tree; `tools/seedall.sh`
does that for all of them.  %s
The last full regression (all %d, the checks as committed at the end, each change applied to a scratch worktree of the
repository that the checks read through `YP_REPO`) reported every one of them again.
Where a check first MISSED a change, the generator / judge / model was strengthened until it was caught (last
column); where a `fix:` commit rewrote the lines a patch touched, the same change was re-made by hand
(`patch_original.diff` keeps what the sub-agent delivered).

| id | caught by | what the change breaks | note |
|---|---|---|---|
""" % (len(rows),
       (("Every one is reported with `VIOLATION`; %d of them only through a broken tie (`no-failing-input-found`), all "
         "others with a concrete failing input." % n_tie) if n_tie else
        "Every one is reported with `VIOLATION` and a concrete failing input by at least one check.") if not n_missed else
       "%d of them are NOT caught by any check (rows marked so); they are kept as open gaps." % n_missed,
       len(rows))
sec += "\n".join(rows) + "\n\n"
p = os.path.join(root, "DESIGN.md")
s = open(p).read()
marker = "--------------------------------------------------------------------------------\n\n## 1. What is built"
i = s.index("### 0.2 Seeded code changes")
j = s.index(marker)
open(p, "w").write(s[:i] + sec + s[j:])
print(len(rows), "rows;", n_missed, "not caught")
