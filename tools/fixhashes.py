#!/usr/bin/env python3
"""Rewrite the commit ids in known_findings.txt `fixed:` lines to the ids the
same commits (matched by subject line) have on /repo's main branch."""
import re, subprocess, sys
def git(*a):
    return subprocess.run(["git", "-C", "/repo"] + list(a), stdout=subprocess.PIPE, stderr=subprocess.DEVNULL).stdout.decode()
main = {}
for line in git("log", "--format=%h\t%s", "main").splitlines():
    h, s = line.split("\t", 1)
    main.setdefault(s, h)
out = []
for line in open("/verif/known_findings.txt"):
    m = re.match(r"(fixed:\s+property=\S+\s+)([0-9a-f]{7,40})(\s.*)", line, re.S)
    if m:
        subj = git("log", "-1", "--format=%s", m.group(2)).strip()
        if subj in main and main[subj] != m.group(2)[:len(main[subj])]:
            print("remap", m.group(2), "->", main[subj], subj[:60])
            line = m.group(1) + main[subj] + m.group(3)
        elif subj not in main:
            print("NOT ON MAIN:", m.group(2), subj[:80])
    out.append(line)
open("/verif/known_findings.txt", "w").write("".join(out))
