#!/bin/sh
# tools/seedtest.sh <dir with patch.diff> <Cxx> [Cyy ...]: apply the seeded change to /repo, run the
# named checks (quick tier), undo the change straight afterwards.  Prints one line per check.
d="$(cd "$1" && pwd)"; shift
cd /verif
[ -z "$(git -C /repo status --porcelain)" ] || { echo "/repo is dirty; refusing"; exit 2; }
git -C /repo apply "$d/patch.diff" 2>/dev/null || git -C /repo apply --3way "$d/patch.diff" >/dev/null 2>&1 || { echo "apply FAILED"; git -C /repo checkout -- . ; git -C /repo reset -q; exit 2; }
for p in "$@"; do
  out=$(./check "$p" --tier quick 2>&1); rc=$?
  echo "SEEDTEST $(basename "$d") check=$p exit=$rc $(echo "$out" | grep -E '^VIOLATION' | head -1)"
done
git -C /repo reset -q; git -C /repo checkout -- . ; git -C /repo clean -fdq -- yamlpath tests 2>/dev/null
[ -z "$(git -C /repo status --porcelain)" ] || echo "WARNING: /repo not clean after undo"
# rebuild against the restored tree so later runs start clean
./check "$1" --tier quick >/dev/null 2>&1 || true
