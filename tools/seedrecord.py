#!/usr/bin/env python3
"""tools/seedrecord.py <seed id> <check that was run> <caught|missed> [note]: copy /tmp/seeds/<id> into
/verif/seeded/<id>/ with a meta.json recording what was confirmed and what the checks reported."""
import json, os, shutil, sys
sid, check, result = sys.argv[1:4]
note = sys.argv[4] if len(sys.argv) > 4 else ""
src = "%s/%s" % (os.environ.get("SEEDS_DIR", "/tmp/seeds"), sid)
dst = "/verif/seeded/%s" % sid
os.makedirs(dst, exist_ok=True)
for f in ("patch.diff", "demo.py", "patch_original.diff"):
    if os.path.exists(os.path.join(src, f)):
        shutil.copy(os.path.join(src, f), os.path.join(dst, f))
m = json.load(open(os.path.join(dst, "meta.json") if os.path.exists(os.path.join(dst, "meta.json")) else os.path.join(src, "meta.json")))
line = [l for l in open(os.environ.get("SEEDS_LOG", "/tmp/seedverify.log")) if l.startswith(sid + " ")]
m["confirmed_by_coordinator"] = {
    "procedure": "tools/seedverify.sh: scratch git worktree of /repo under /tmp; demo.py on the clean tree (exit 0); "
                 "git apply patch.diff; demo.py (exit 1); full pytest (988 passed, same as baseline); worktree removed",
    "scratch_worktree_run": line[0].strip() if line else "",
}
if os.path.exists(os.path.join(src, "patch_original.diff")):
    m["ported"] = ("patch.diff is the same change re-made by hand on the current /repo (fix: commits had rewritten the "
                   "surrounding lines); patch_original.diff is what the sub-agent delivered; the ported patch was "
                   "re-confirmed the same way (demo 0 / 1, 988 passed)")
hist = m.setdefault("check_runs", [])
hist.append({"check": "./check %s --tier quick" % check, "result": result, "note": note,
             "procedure": "tools/seedtest.sh: git -C /repo apply patch.diff; ./check; git -C /repo checkout -- ."})
m["status"] = result
json.dump(m, open(os.path.join(dst, "meta.json"), "w"), indent=1)
print(sid, result)
