#!/bin/sh
# Build everything the checks need, incrementally, from files on disk only:
#   Gen/Generated.v (from /repo), the Coq development (full .vo build),
#   the extracted OCaml model and the driver binary build/model.
# Usage: tools/build.sh [-q]   exit status 0 = built; non-zero = failed
set -e
V="$(cd "$(dirname "$0")/.." && pwd)"
cd "$V"
export PYTHONPATH="${YP_REPO:-/repo}" PYTHONHASHSEED=0
mkdir -p coq/Gen coq/Spec coq/Proofs coq/Properties coq/Model build
if [ -z "$YP_SKIP_TABLES" ]; then /venv/bin/python harness/tables.py; fi
tools/mkproject.sh
if [ "$1" = "models-only" ]; then
  T=$(cd coq && find Lib Gen Model Spec -name '*.v' | LC_ALL=C sort | sed 's/\.v$/.vo/' | tr '\n' ' ')
  ( cd coq && timeout 1800 make -j"${YP_JOBS:-16}" $T )
else
  ( cd coq && timeout 3000 make -j"${YP_JOBS:-16}" )
fi
mkdir -p build/ocaml
python3 tools/mkextract.py
# extraction: re-run when any model .vo is newer than model.ml
need=0
[ -f build/ocaml/model.ml ] || need=1
if [ $need = 0 ]; then
  if [ -n "$(find coq/Lib coq/Gen coq/Model coq/Spec build/ocaml/Extract.v -newer build/ocaml/model.ml \( -name '*.vo' -o -name 'Extract.v' \) | head -1)" ]; then need=1; fi
fi
if [ $need = 1 ]; then
  ( cd build/ocaml && timeout 600 coqc -R ../../coq/Lib YP -R ../../coq/Gen YP -R ../../coq/Model YP \
      -R ../../coq/Spec YP -R ../../coq/Proofs YP -R ../../coq/Properties YP \
      -w -extraction-opaque-accessed,-extraction-reserved-identifier Extract.v )
fi
bneed=$need
[ -x build/model ] || bneed=1
if [ $bneed = 0 ] && [ -n "$(find ocaml build/ocaml/handlers.ml -name '*.ml' -newer build/model | head -1)" ]; then bneed=1; fi
if [ $bneed = 1 ]; then
  rm -f build/model; cp ocaml/*.ml build/ocaml/
  ( cd build/ocaml && timeout 900 ocamlfind ocamlopt -O2 -w -a -package str -linkpkg \
      model.mli model.ml sexp.ml wire.ml $(ls drv_*.ml | LC_ALL=C sort) handlers.ml driver.ml -o ../model 2>&1 | grep -v '^ocamlfind: \[WARNING\]' || true )
  [ -x build/model ] || { echo "build: OCaml driver failed to build"; exit 3; }
fi
echo "build: ok"
