#!/bin/sh
# tools/seedall.sh: every seeded change against the check of its property (and the extra checks recorded in its meta)
cd "$(dirname "$0")/.."
for d in seeded/*/; do
  id=$(basename "$d"); p=${id%_*}
  extra=$(python3 -c "
import json; m=json.load(open('$d/meta.json')); print(' '.join(sorted({r['check'].split()[1] for r in m.get('check_runs',[]) if r['result']=='caught'} - {'$p'})))")
  tools/seedtest.sh "$d" $p $extra 2>&1 | grep -E "SEEDTEST|refusing|WARNING" | cut -c1-170
done
