#!/bin/sh
# tools/seedverify.sh <dir with patch.diff demo.py>: confirm a seeded change in a scratch worktree:
#  applies cleanly, test-suite still 988 passed, demo exits 0 without and non-zero with the change.
d="$(cd "$1" && pwd)"; w="/tmp/sv_$$"
git -C /repo worktree add -q --detach "$w" HEAD || exit 2
trap 'git -C /repo worktree remove --force "$w" >/dev/null 2>&1' EXIT
( cd "$w" && PYTHONPATH="$w" timeout 300 /venv/bin/python "$d/demo.py" </dev/null >/dev/null 2>&1 ); clean=$?
if ! git -C "$w" apply "$d/patch.diff" 2>/dev/null; then
  git -C "$w" apply --3way "$d/patch.diff" >/dev/null 2>&1 || { echo "RESULT apply=FAILED"; exit 1; }
fi
( cd "$w" && PYTHONPATH="$w" timeout 300 /venv/bin/python "$d/demo.py" </dev/null >/dev/null 2>&1 ); mut=$?
passed=$(cd "$w" && PYTHONPATH="$w" timeout 1200 /venv/bin/python -m pytest -q -p no:cacheprovider --timeout=900 --continue-on-collection-errors 2>&1 | tail -1)
echo "RESULT apply=ok demo_clean=$clean demo_mutated=$mut tests='$passed'"
