#!/venv/bin/python
"""Regenerate MANIFEST.json from harness/manifest_texts.py + the harness modules present.
A property is listed under `checks` only when harness/cNN.py exists AND it has an entry in
manifest_texts.CLAIMED; every other property id goes to not_applicable with its reason."""
import json, os, sys
V = os.path.normpath(os.path.join(os.path.dirname(os.path.abspath(__file__)), ".."))
sys.path.insert(0, os.path.join(V, "harness"))
os.environ.setdefault("PYTHONPATH", "/repo")
from props import PROPS  # noqa
import manifest_texts as T  # noqa
ids = [json.loads(l)["id"] for l in open(os.path.join(V, "properties.jsonl"))]
checks = []
na = []
for i in ids:
    if i in T.CLAIMED and i in PROPS:
        c = T.CLAIMED[i]
        checks.append({
            "property_id": i,
            "quick_cmd": "./check %s --tier quick" % i,
            "thorough_cmd": "./check %s --tier thorough" % i,
            "evidence_file": "/verif/evidence/%s.json" % i,
            "replay_cmd_template": "./check %s --replay {path}" % i,
            "engine": "coq-model",
            "level_claimed": {"category": "proof", "text": c["text"], "design_ref": c["design_ref"]},
            "level_note": c["note"],
            "technique": c["technique"],
        })
    else:
        na.append({"property_id": i, "reason": T.UNCLAIMED.get(i, T.DEFAULT_UNCLAIMED)})
m = {
    "version": 1,
    "setup_cmd": "tools/build.sh",
    "hooks": {
        "guard": "YAMLPATH_VERIF",
        "enable": "no source hooks: every observation point is reachable through the public API, in-process main() calls and module-namespace wrappers; the guard variable is reserved and unused",
        "baseline_off_cmd": "cd /repo && /venv/bin/python -m pytest -ra -q -p no:cacheprovider --timeout=900 --continue-on-collection-errors",
        "source_commits": [],
        "add_only": True,
    },
    "engines": [{"name": "coq-model", "path": "coq/", "serves_properties": [c["property_id"] for c in checks],
                 "kind_free_text": "hand-written Gallina models + theorems (Coq 8.16.1), extracted to OCaml for the differential correspondence check against the real yamlpath; tables regenerated from the source"}],
    "checks": checks,
    "not_applicable": na,
    "notes": T.NOTES,
}
json.dump(m, open(os.path.join(V, "MANIFEST.json"), "w"), indent=1)
print("MANIFEST: %d checks, %d not claimed" % (len(checks), len(na)))
