#!/bin/sh
# tools/pickfix.sh <commit>...: cherry-pick library fix commits into /repo main, one by one,
# keeping the line-ending convention (CRLF/LF) each touched file has on main.
cd /repo || exit 2
for c in "$@"; do
  if ! git cherry-pick -n -X ignore-space-at-eol "$c" >/dev/null 2>&1; then
    echo "CONFLICT at $c"; git status --short | grep -E '^(UU|AA)'; exit 1
  fi
  for f in $(git diff --cached --name-only); do
    if git cat-file -e HEAD:"$f" 2>/dev/null && git show HEAD:"$f" | file - | grep -q CRLF; then
      python3 - "$f" <<'PY'
import sys, re
p = sys.argv[1]
b = open(p, 'rb').read()
open(p, 'wb').write(re.sub(rb'\r?\n', b'\r\n', b))
PY
      git add "$f"
    fi
  done
  git commit -q -C "$c" && echo "picked $c -> $(git log -1 --format=%h)"
done
