#!/bin/sh
# tools/newagent.sh <name>: scratch worktrees for one builder agent
#   /tmp/w_<name>  branch <name> of /verif      /tmp/r_<name>  branch <name> of /repo
set -e
n="$1"
git -C /verif worktree add -q -b "$n" "/tmp/w_$n" HEAD
git -C /repo worktree add -q -b "$n" "/tmp/r_$n" HEAD
echo "export YP_REPO=/tmp/r_$n YP_JOBS=6; cd /tmp/w_$n"
