#!/bin/sh
# tools/seedsweep.sh <seed>...: every claimed check (quick tier) under each seed; summary lines only
cd "$(dirname "$0")/.."
for sd in "$@"; do
  for p in $(python3 -c "import json;print(' '.join(c['property_id'] for c in json.load(open('MANIFEST.json'))['checks']))"); do
    out=$(VERIF_SEED=$sd ./check "$p" --tier quick 2>&1); rc=$?
    echo "seed=$sd $p exit=$rc $(echo "$out" | grep -E '^VIOLATION' | head -2 | tr '\n' '|' | cut -c1-200) $(echo "$out" | tail -1 | cut -c1-120)"
  done
done
