#!/bin/sh
# tools/seedscratch.sh [seed id ...]: the seeded changes (default: all) against the checks recorded as catching them,
# WITHOUT touching /repo: a scratch worktree of /repo and one of /verif are made under /tmp, each change is applied to
# the scratch repository, the checks read it through YP_REPO, and both worktrees are removed at the end.
# One line per (seed, check); exit=1 with a VIOLATION line is the expected outcome.
set -u
V="$(cd "$(dirname "$0")/.." && pwd)"; W=/tmp/ss_verif_$$; R=/tmp/ss_repo_$$
git -C "$V" worktree add -q --detach "$W" HEAD || exit 2
git -C /repo worktree add -q --detach "$R" HEAD || exit 2
trap 'git -C "$V" worktree remove --force "$W" >/dev/null 2>&1; git -C /repo worktree remove --force "$R" >/dev/null 2>&1' EXIT
( cd "$W" && YP_REPO="$R" tools/build.sh >/dev/null 2>&1 ) || { echo "build failed"; exit 2; }
cd "$W"
[ $# -gt 0 ] || set -- $(ls seeded)
for id in "$@"; do
  d="$W/seeded/$id"
  checks=$(python3 -c "
import json; m=json.load(open('$d/meta.json')); print(' '.join(sorted({r['check'].split()[1] for r in m.get('check_runs',[]) if r['result']=='caught'})))")
  git -C "$R" apply "$d/patch.diff" 2>/dev/null || git -C "$R" apply --3way "$d/patch.diff" >/dev/null 2>&1 || { echo "SEEDTEST $id apply FAILED"; git -C "$R" reset -q --hard HEAD; continue; }
  for c in $checks; do
    out=$(YP_REPO="$R" ./check "$c" --tier quick 2>&1); rc=$?
    echo "SEEDTEST $id check=$c exit=$rc $(echo "$out" | grep -E '^VIOLATION' | head -1 | sed 's#replay=[^ ]*##') :: $(echo "$out" | tail -1 | sed 's/.*disagreements=/disagreements=/' | cut -c1-60)"
  done
  git -C "$R" reset -q --hard HEAD; git -C "$R" clean -fdq
done
