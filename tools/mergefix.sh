#!/bin/sh
# resolve the two routine merge conflicts: evidence (ours) and known_findings.txt (both sides)
cd /verif
for f in $(git diff --name-only --diff-filter=U | grep '^evidence/'); do git checkout --ours "$f"; git add "$f"; done
if git diff --name-only --diff-filter=U | grep -q known_findings.txt; then
python3 - <<'PY'
import re
p='/verif/known_findings.txt'
s=open(p).read()
s=re.sub(r"<<<<<<< HEAD\n(.*?)=======\n(.*?)>>>>>>> [^\n]+\n", r"\1\2", s, flags=re.S)
open(p,'w').write(s)
PY
git add known_findings.txt
fi
git diff --name-only --diff-filter=U
